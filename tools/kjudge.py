#!/usr/bin/env python3
"""tools/kjudge.py <driver> <generator function> [max]: run the (program, history) cases a kernel driver's generator
yields on the real classes of $VERIF_REPO and print TLC's verdict (all properties) per case - for experiments."""
import importlib, json, os, random, sys
sys.path.insert(0, '/verif')
os.environ.setdefault('CIRCUITS_VERIF', '1')
from harness.core import use_repo
use_repo()
from harness import kernel, kernelcheck
mod = importlib.import_module('harness.drivers.' + sys.argv[1])
gen = getattr(mod, sys.argv[2])
mx = int(sys.argv[3]) if len(sys.argv) > 3 else 10 ** 9
try:
    it = gen()
except TypeError:
    it = gen(random.Random(1), True)
cases = []
for i, (prog, hist) in enumerate(it):
    if i >= mx:
        break
    cases.append((prog, hist, kernelcheck._record(prog, hist)[0]))
verd, _ = kernel.judge([(p, l) for p, h, l in cases], shards=2)
for (p, h, l), v in zip(cases, verd):
    bad = {k: c for k, c in v.items() if c[0]}
    print(len(l), 'lines', json.dumps(bad) if bad else 'ok')
