#!/usr/bin/env python3
"""Run the repository's pinned test suite (guard off) and compare with BASELINE.json."""
import json, os, subprocess, sys, tempfile
import xml.etree.ElementTree as ET
base = json.load(open('/root/.vp/BASELINE.json'))
out = tempfile.mkdtemp(prefix='baseline-', dir='/verif/.work') if os.path.isdir('/verif/.work') else tempfile.mkdtemp()
junit = os.path.join(out, 'junit.xml')
env = dict(os.environ); env.pop('CIRCUITS_VERIF', None)
cmd = base['cmd'].replace('<file>', junit)
p = subprocess.run(cmd, shell=True, env=env, stdout=subprocess.PIPE, stderr=subprocess.STDOUT, text=True)
passed = set()
for tc in ET.parse(junit).getroot().iter('testcase'):
    if not any(ch.tag in ('failure', 'error', 'skipped') for ch in tc):
        passed.add('%s::%s' % (tc.get('classname'), tc.get('name')))
missing = [t for t in base['stable_pass'] if t not in passed]
print('passed=%d stable=%d missing=%d' % (len(passed), len(base['stable_pass']), len(missing)))
for t in missing: print('  MISSING', t)
import shutil; shutil.rmtree(out, ignore_errors=True)
sys.exit(1 if missing else 0)
