#!/bin/sh
# tools/collect.sh <id>: take the seeded changes a round-2 agent left in /tmp/mut2-<id>/_seeded and drop its worktree
id=$1; wt=/tmp/mut2-$id
for d in $wt/_seeded/*/; do n=$(basename $d); mkdir -p /verif/seeded/$n; cp $d/patch.diff $d/demo.py $d/meta.json /verif/seeded/$n/ 2>/dev/null; ls /verif/seeded/$n | tr '\n' ' '; echo; done
git -C /repo worktree remove --force $wt
