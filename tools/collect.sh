#!/bin/sh
# tools/collect.sh <id> [prefix]: take the seeded changes an agent left in /tmp/<prefix>-<id>/_seeded (default prefix mut2)
# into /verif/seeded and drop its worktree
id=$1; wt=/tmp/${2:-mut2}-$id
[ -d $wt/_seeded ] || { echo "no $wt/_seeded"; exit 1; }
for d in $wt/_seeded/$id-*/; do n=$(basename $d); mkdir -p /verif/seeded/$n; cp $d/patch.diff $d/demo.py $d/meta.json /verif/seeded/$n/ 2>/dev/null; ls /verif/seeded/$n | tr '\n' ' '; echo; done
git -C /repo worktree remove --force $wt
