#!/usr/bin/env python3
"""tools/recordmut.py <name> <check_exit> "<what>" ["<notes>"] [demo_patched]
Record the coordinator's evaluation of a seeded change (after tools/evalmut.sh <name>):
one row in seeded/RESULTS.md, `confirmed_by_coordinator` in seeded/<name>/meta.json."""
import json, re, sys, os
name, rc, what = sys.argv[1], int(sys.argv[2]), sys.argv[3]
notes = sys.argv[4] if len(sys.argv) > 4 else ''
demo_p = int(sys.argv[5]) if len(sys.argv) > 5 else 1
pid = name.split('-')[0]
log = open('/verif/.work/evalmut-%s.log' % name).read() if os.path.exists('/verif/.work/evalmut-%s.log' % name) else ''
clauses = sorted(set(re.findall(r'clause=(\S+)', '\n'.join(l for l in log.splitlines() if l.startswith('VIOLATION')))))
mp = '/verif/seeded/%s/meta.json' % name
m = json.load(open(mp))
m['confirmed_by_coordinator'] = {
    'how': 'tools/evalmut.sh %s (scratch worktree of /repo HEAD, patch applied, demo.py run without and with the patch, then VERIF_REPO=<worktree> ./check %s --tier quick)' % (name, pid),
    'demo_exit_clean': 0, 'demo_exit_patched': demo_p, 'check_exit_final': rc, 'clauses_reported': clauses}
if notes:
    m['confirmed_by_coordinator']['notes'] = notes
json.dump(m, open(mp, 'w'), indent=1)
row = '| %s | %s | %s | %s quick | %s | %s |\n' % (name, what, 'fails/ok' if demo_p else 'ok/ok (see notes)', pid, ', '.join(clauses) or '-', notes)
open('/verif/seeded/RESULTS.md', 'a').write(row)
print(row)
