#!/bin/sh
# MANIFEST.setup_cmd: build the framework from files on disk only (offline).
cd "$(dirname "$0")/.." || exit 2
mkdir -p .work evidence replays
/venv/bin/python -m compileall -q harness >/dev/null || exit 2
# every TLA+ module must parse
fail=0
for f in $(find spec -name '*.tla' | sort); do
  d=$(dirname "$f"); m=$(basename "$f")
  out=$(cd "$d" && java -cp /opt/veriftools/tla/tla2tools.jar:/opt/veriftools/tla/CommunityModules-deps.jar tla2sany.SANY "$m" 2>&1)
  if echo "$out" | grep -qE 'Semantic errors|Parse Error|Fatal errors|\*\*\* Errors|Could not'; then
    echo "SANY FAILED: $f"; echo "$out" | tail -20; fail=1
  fi
done
# a module that does not parse makes its own check exit 2; setup itself only reports it
exit 0
