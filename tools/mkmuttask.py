#!/usr/bin/env python3
"""tools/mkmuttask.py <id> <round-dir-prefix> <first-number>: create a scratch worktree /tmp/<prefix>-<id> of /repo HEAD and
write _seeded/TASK.txt for a fresh sub-agent that seeds realistic property-breaking changes (it sees the property
text only, nothing from /verif)."""
import glob, json, os, subprocess, sys
pid, prefix, first = sys.argv[1], sys.argv[2], int(sys.argv[3])
wt = '/tmp/%s-%s' % (prefix, pid)
prop = [json.loads(l) for l in open('/verif/properties.jsonl') if json.loads(l)['id'] == pid][0]
subprocess.run(['git', '-C', '/repo', 'worktree', 'remove', '--force', wt], capture_output=True)
subprocess.check_call(['git', '-C', '/repo', 'worktree', 'add', '--detach', wt, 'HEAD', '-q'])
os.makedirs(wt + '/_seeded', exist_ok=True)
used = []
for m in sorted(glob.glob('/verif/seeded/%s-*/meta.json' % pid)):
    d = json.load(open(m))
    used.append('- ' + ' '.join(str(d.get('summary', '')).split())[:260])
nums = [first, first + 1, first + 2]
task = f"""You are given a scratch git worktree of the Python project "circuits" at {wt} (detached HEAD; the package is
circuits/, the tests are tests/). Work ONLY inside {wt}. Do not read or touch /repo, /verif or anything else outside
{wt} (you may run /venv/bin/python). Never use `git stash` (the stash is shared with other worktrees); restore the tree
with `git checkout -- .`. Do not commit.

The project is meant to have this semantic property ({pid}):

TITLE: {prop['title']}
STATEMENT: {prop['statement']}
QUANTIFIED OVER: {prop['quantifier']['text']}
WHY THE EXISTING TESTS CANNOT SETTLE IT: {prop['why_tests_cant']}
CODE ANCHORS: {json.dumps(prop['anchors'], indent=1)}

TASK: invent THREE different, realistic changes to the source under circuits/ - the kind of change a developer could
make in good faith (an optimisation, a refactoring, a tidy-up, a "fix" of something else, a narrowed except clause, a
reordered statement, an off-by-one, a condition simplified, a forgotten case after a restructuring) - each of which
  (a) still compiles / imports,
  (b) keeps the existing test suite passing:  cd {wt} && /venv/bin/python -m pytest -q -p no:cacheprovider --timeout=900 tests -k "not test_tcp_lookup_failure"
      (the 3 test_tcp_lookup_failure tests fail offline and are ignored; tests/core/test_signals.py, tests/app/test_daemon.py,
      tests/core/test_bridge.py and "Address already in use" in tests/node are known to flake when the machine is loaded:
      re-run such a test alone before concluding anything),
  (c) makes the property above FALSE for some input / schedule / history inside its quantifier, and
  (d) is subtle: it should need a specific input shape, ordering or multi-step history to show, not fail on the first
      trivial use. Prefer changes whose effect differs from one another (different functions, different mechanisms,
      different clauses of the statement). Make them as different as you can from these ideas, which have been used already:
{chr(10).join(used) if used else '- (none yet)'}

For each change n in {nums} produce the directory {wt}/_seeded/{pid}-<n>/ with
  patch.diff  - `git diff` of the change alone against the clean worktree (must apply with `git apply` to a clean tree),
  demo.py     - a self-contained script (run as `cd {wt} && PYTHONPATH={wt} /venv/bin/python _seeded/{pid}-<n>/demo.py`) that
                exits 1 when the property is violated and 0 when it holds: it must exit 1 with the change applied and 0 on
                the clean tree, deterministically (drive managers by hand with tick()/flush(), scripted doubles or loopback
                sockets; no sleeps that decide the outcome), and print what it saw,
  meta.json   - {{"property": "{pid}", "summary": "<which file/function, what was changed, why the property breaks>",
                 "needs": "<what input / history it takes to show, and what does NOT show it>",
                 "ran": ["<command> -> <result>", ...]}} listing what you actually ran (demo with and without the change,
                the test suite with the change).
Work on one change at a time: make it, run demo and suite, save the three files, `git checkout -- .`, verify the demo exits
0 on the clean tree, go on. When done, leave the worktree clean (only _seeded/ untracked) and report, per change, what it
is, what it needs, and the demo/suite results. If the clean tree itself seems to violate the property somewhere, do not
use that; mention it at the end of your report.
"""
open(wt + '/_seeded/TASK.txt', 'w').write(task)
print(wt + '/_seeded/TASK.txt')
