#!/usr/bin/env python3
"""Regenerate /verif/MANIFEST.json from the table below (one entry per claimed property)."""
import json, os
V = os.path.dirname(os.path.dirname(os.path.abspath(__file__)))
ALL = ['C%02d' % i for i in range(1, 21)]

CLAIMED = {}   # filled from manifest.d/<id>.json

ENABLED = set(open(os.path.join(V, 'tools', 'enabled.txt')).read().split())   # property ids whose check has been accepted

PLANNED = 'check under construction in this round (see DESIGN.md section 9); not registered yet, so nothing is claimed'

def main():
    d = os.path.join(V, 'manifest.d')
    if os.path.isdir(d):
        for f in sorted(os.listdir(d)):
            if f.endswith('.json'):
                pid = f[:-5]
                if os.path.exists(os.path.join(V, 'harness', 'drivers', pid.lower() + '.py')) and pid in ENABLED:
                    CLAIMED[pid] = json.load(open(os.path.join(d, f)))
    checks = []
    for pid in ALL:
        if pid not in CLAIMED:
            continue
        c = CLAIMED[pid]
        checks.append({
            'property_id': pid,
            'quick_cmd': './check %s --tier quick' % pid,
            'thorough_cmd': './check %s --tier thorough' % pid,
            'evidence_file': '/verif/evidence/%s.json' % pid,
            'replay_cmd_template': './check %s --replay {path}' % pid,
            'engine': 'tlc',
            'level_claimed': {'category': c['category'], 'text': c['text'], 'design_ref': c['design_ref']},
            'level_note': c['note'],
            'technique': c['technique'],
        })
    hooks_commits = []
    hp = os.path.join(V, 'hooks_commits.txt')
    if os.path.exists(hp):
        hooks_commits = [l.split()[0] for l in open(hp) if l.strip() and not l.startswith('#')]
    m = {
        'version': 1,
        'setup_cmd': 'tools/setup.sh',
        'hooks': {
            'guard': 'CIRCUITS_VERIF',
            'enable': 'checks import circuits from /repo with CIRCUITS_VERIF=1 in the environment (./check sets it); no build step',
            'baseline_off_cmd': 'cd /repo && env -u CIRCUITS_VERIF /venv/bin/python -m pytest -ra -q -p no:cacheprovider --timeout=900 --continue-on-collection-errors',
            'source_commits': hooks_commits,
            'add_only': True,
        },
        'engines': [{'name': 'tlc', 'path': '/verif/harness/tlc.py', 'serves_properties': sorted(CLAIMED),
                     'kind_free_text': 'TLC 1.8 (exhaustive model checking, state dumps / simulation for behaviour generation, batch trace validation) driven by a Python harness that replays behaviours on the real circuits classes'}],
        'checks': checks,
        'notes': 'Model-based verification with explicit TLA+ specifications; see DESIGN.md. Exit 0 = held, 1 = VIOLATION line, 2 = machinery failure. VERIF_REPO=<dir> points the checks at another tree (used for seeded mutants).',
        'not_applicable': [{'property_id': p, 'reason': PLANNED} for p in ALL if p not in CLAIMED],
    }
    json.dump(m, open(os.path.join(V, 'MANIFEST.json'), 'w'), indent=1)
    print('claimed:', sorted(CLAIMED))

if __name__ == '__main__':
    main()
