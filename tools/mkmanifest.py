#!/usr/bin/env python3
"""Regenerate /verif/MANIFEST.json from the table below (one entry per claimed property)."""
import json, os
V = os.path.dirname(os.path.dirname(os.path.abspath(__file__)))
ALL = ['C%02d' % i for i in range(1, 21)]

CLAIMED = {
 'C11': dict(
    category='model_checking',
    text='TLC checks the write-path algorithm (deque of chunks, partial accept, transient refusal, deferred close) of spec/io/WriteBuf.tla '
         'exhaustively against the C11 monitor (WriteBufOps) for every payload/outcome/close history in the bound; every environment history TLC '
         'dumps is replayed on the real Server, Client and File endpoints with scripted send()/write() outcomes and the recorded traces, plus '
         'seeded random longer ones, are judged by TLC with the same monitor (WriteBufTrace). Fault scripts are enumerated, not sampled, up to the bound.',
    design_ref='DESIGN.md section 5, C11',
    note='send()/os.write() are doubles (kernel not exercised); byte equality of payload slices is decided by the projection (offset lookup), '
         'order/multiplicity/close position by TLC; bounds: quick 4 environment steps x 3 endpoints + 300 random scripts, thorough 6 steps x 4 errno variants x 2 scales + 6000 random.',
    technique='TLA+ model (TLC exhaustive) + TLC-generated fault histories replayed on real endpoints + TLC trace validation'),
}

PLANNED = 'not yet built in this round (planned: see DESIGN.md section 9); no check is registered, so nothing is claimed'

def main():
    checks = []
    for pid in ALL:
        if pid not in CLAIMED:
            continue
        c = CLAIMED[pid]
        checks.append({
            'property_id': pid,
            'quick_cmd': './check %s --tier quick' % pid,
            'thorough_cmd': './check %s --tier thorough' % pid,
            'evidence_file': '/verif/evidence/%s.json' % pid,
            'replay_cmd_template': './check %s --replay {path}' % pid,
            'engine': 'tlc',
            'level_claimed': {'category': c['category'], 'text': c['text'], 'design_ref': c['design_ref']},
            'level_note': c['note'],
            'technique': c['technique'],
        })
    hooks_commits = []
    hp = os.path.join(V, 'hooks_commits.txt')
    if os.path.exists(hp):
        hooks_commits = [l.split()[0] for l in open(hp) if l.strip() and not l.startswith('#')]
    m = {
        'version': 1,
        'setup_cmd': 'tools/setup.sh',
        'hooks': {
            'guard': 'CIRCUITS_VERIF',
            'enable': 'checks import circuits from /repo with CIRCUITS_VERIF=1 in the environment (./check sets it); no build step',
            'baseline_off_cmd': 'cd /repo && env -u CIRCUITS_VERIF /venv/bin/python -m pytest -ra -q -p no:cacheprovider --timeout=900 --continue-on-collection-errors',
            'source_commits': hooks_commits,
            'add_only': True,
        },
        'engines': [{'name': 'tlc', 'path': '/verif/harness/tlc.py', 'serves_properties': sorted(CLAIMED),
                     'kind_free_text': 'TLC 1.8 (exhaustive model checking, state dumps / simulation for behaviour generation, batch trace validation) driven by a Python harness that replays behaviours on the real circuits classes'}],
        'checks': checks,
        'notes': 'Model-based verification with explicit TLA+ specifications; see DESIGN.md. Exit 0 = held, 1 = VIOLATION line, 2 = machinery failure. VERIF_REPO=<dir> points the checks at another tree (used for seeded mutants).',
        'not_applicable': [{'property_id': p, 'reason': PLANNED} for p in ALL if p not in CLAIMED],
    }
    json.dump(m, open(os.path.join(V, 'MANIFEST.json'), 'w'), indent=1)
    print('claimed:', sorted(CLAIMED))

if __name__ == '__main__':
    main()
