#!/usr/bin/env python3
"""Rebuild the generated tail of DESIGN.md (everything after the marker line) from design.d/*.md,
known_findings*.json and seeded/RESULTS.md.  The hand-written plan above the marker is kept."""
import glob, json, os, re
V = os.path.dirname(os.path.dirname(os.path.abspath(__file__)))
MARK = '<!-- GENERATED BELOW: tools/mkdesign.py -->'
p = os.path.join(V, 'DESIGN.md')
text = open(p).read()
head = text.split(MARK)[0].rstrip() + '\n\n' + MARK + '\n\n'
out = [head]
out.append('# Part II - as built\n\nThe plan above (sections 0-11) was written before any code. This part records what exists now; it is assembled by '
           '`tools/mkdesign.py` from `design.d/*.md` (one file per property, written next to the check), the known-findings files and '
           '`seeded/RESULTS.md`. Where it disagrees with the plan, this part is right.\n')
enabled = open(os.path.join(V, 'tools', 'enabled.txt')).read().split()
out.append('## 12. Status\n\nRegistered in MANIFEST.json (accepted checks): ' + ', '.join(enabled) + '.\n')
man = json.load(open(os.path.join(V, 'MANIFEST.json')))
if man.get('not_applicable'):
    out.append('Not claimed: ' + '; '.join('%s (%s)' % (x['property_id'], x['reason']) for x in man['not_applicable']) + '\n')
out.append('\n## 13. Defects of circuits found by the checks\n\n### Repaired (`fix:` commits in /repo; entries of known_findings.json "fixed"; a fixed entry suppresses nothing)\n')
kf = json.load(open(os.path.join(V, 'known_findings.json')))
for l in kf.get('fixed', []):
    out.append('* ' + l + '\n')
out.append('\n### Recorded, not repaired (known findings; the check prints KNOWN-FINDING and exits 0, any other violation is reported)\n')
n = 0
for f in [os.path.join(V, 'known_findings.json')] + sorted(glob.glob(os.path.join(V, 'known_findings.d', '*.json'))):
    for e in json.load(open(f)).get('findings', []):
        n += 1
        out.append('* **%s**%s %s - witness pattern `%s`: %s\n' % (e['property'], ' (extra specification, section 16)' if e['property'].startswith('X') else '', e.get('clause', '(any clause)'), json.dumps(e.get('match', {})), e.get('what', '')))
if not n:
    out.append('(none)\n')
res = os.path.join(V, 'seeded', 'RESULTS.md')
if os.path.exists(res):
    out.append('\n## 14. Seeded changes and which check catches them\n\n' + re.sub(r'^# .*\n', '', open(res).read(), count=1) + '\n')
out.append('\n## 15. Per-property notes (as built)\n')
for f in sorted(glob.glob(os.path.join(V, 'design.d', '*.md'))):
    body = open(f).read().strip()
    body = re.sub(r'^(#+) ', lambda m: '##' + m.group(1) + ' ', body, flags=re.M)   # demote headings
    out.append('\n' + body + '\n')
ex = sorted(glob.glob(os.path.join(V, 'extras', 'X*.md')))
if ex:
    out.append('\n## 16. Specifications beyond the listed properties (extras)\n\n' + open(os.path.join(V, 'extras', 'README.md')).read().split('\n', 1)[1].strip() + '\n')
    for f in ex:
        body = open(f).read().strip()
        body = re.sub(r'^(#+) ', lambda m: '##' + m.group(1) + ' ', body, flags=re.M)
        out.append('\n' + body + '\n')
open(p, 'w').write(''.join(out))
print('DESIGN.md rebuilt: %d bytes' % len(''.join(out)))
