#!/bin/sh
# tools/evalmut.sh <seeded-dir-name> [tier] [property whose check is run, default: the name's]   e.g. tools/evalmut.sh C05-1 quick
# Applies seeded/<name>/patch.diff to a scratch worktree of /repo HEAD (outside /repo and /verif),
# runs the demo without/with the patch and the property's check against the patched tree.
name=$1; tier=${2:-quick}; pid=${3:-${name%%-*}}
wt=/tmp/evalmut-$name
cd /verif || exit 2
git -C /repo worktree remove --force $wt 2>/dev/null
git -C /repo worktree add --detach $wt HEAD -q || exit 2
echo "== $name: demo on clean HEAD"; (cd $wt && PYTHONPATH=$wt timeout 600 /venv/bin/python /verif/seeded/$name/demo.py >/dev/null 2>&1; echo "demo exit (clean) = $?")
if ! git -C $wt apply /verif/seeded/$name/patch.diff; then echo "PATCH DOES NOT APPLY"; git -C /repo worktree remove --force $wt; exit 3; fi
(cd $wt && PYTHONPATH=$wt timeout 600 /venv/bin/python /verif/seeded/$name/demo.py >/dev/null 2>&1; echo "demo exit (patched) = $?")
VERIF_REPO=$wt ./check $pid --tier $tier > /verif/.work/evalmut-$name.log 2>&1; rc=$?
echo "check exit = $rc"; grep -c VIOLATION /verif/.work/evalmut-$name.log; grep "VIOLATION" /verif/.work/evalmut-$name.log | sed -e 's/replay=[^ ]*//' | cut -c1-200 | sort | uniq -c | head -5
git -C /repo worktree remove --force $wt
