#!/bin/bash
# tools/regress.sh [jobs]: run every seeded change against its property's quick check (scratch worktrees under /tmp),
# one line per change in .work/regress.out: name, whether the patch still applies to /repo HEAD, exit code of the check
cd /verif
rm -f .work/regress.out
one() {
  name=$1; pid=${name%%-*}; wt=/tmp/regress-$name
  git -C /repo worktree remove --force $wt 2>/dev/null
  git -C /repo worktree add --detach $wt HEAD -q || { echo "$name worktree-failed" >> .work/regress.out; return; }
  if ! git -C $wt apply /verif/seeded/$name/patch.diff 2>/dev/null; then echo "$name does-not-apply" >> .work/regress.out; git -C /repo worktree remove --force $wt; return; fi
  VERIF_REPO=$wt ./check $pid --tier quick > .work/regress-$name.log 2>&1; rc=$?
  echo "$name check-exit=$rc $(grep '^VIOLATION' .work/regress-$name.log | sed -e 's/.*clause=\([^ ]*\).*/\1/' | sort -u | tr '\n' ' ')" >> .work/regress.out
  git -C /repo worktree remove --force $wt
}
export -f one
ls seeded | grep '^C' | xargs -P ${1:-3} -I{} bash -c 'one {}'
echo DONE >> .work/regress.out
