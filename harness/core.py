"""Check context: seeds, violations vs known findings, replay files, evidence.

Exit status contract (DESIGN 1.1):
  0  property held on everything explored (KNOWN-FINDING lines may be printed)
  1  at least one `VIOLATION property=<id> replay=<path>` line
  2  machinery failure (TLC crash, harness bug) - never a property verdict
"""

import hashlib
import json
import os
import sys
import time
import traceback

VERIF = os.path.dirname(os.path.dirname(os.path.abspath(__file__)))
REPO = os.environ.get('VERIF_REPO', '/repo')
GUARD = 'CIRCUITS_VERIF'


def use_repo():
    """Make `import circuits` resolve to the tree under test (default /repo)."""
    os.environ.setdefault(GUARD, '1')
    if sys.path[0] != REPO:
        sys.path.insert(0, REPO)
    import circuits  # noqa
    got = os.path.dirname(os.path.dirname(os.path.abspath(circuits.__file__)))
    if os.path.realpath(got) != os.path.realpath(REPO):
        raise RuntimeError('circuits imported from %s, expected %s' % (got, REPO))
    return circuits


def load_findings():
    """known_findings.json plus known_findings.d/*.json (one file per property)."""
    out = []
    paths = [os.path.join(VERIF, 'known_findings.json')]
    d = os.path.join(VERIF, 'known_findings.d')
    if os.path.isdir(d):
        paths += [os.path.join(d, f) for f in sorted(os.listdir(d)) if f.endswith('.json')]
    for p in paths:
        if not os.path.exists(p):
            continue
        with open(p) as f:
            data = json.load(f)
        out.extend(data.get('findings', []))
    return out


def _match_value(want, got):
    if isinstance(want, list):
        return got in want
    if isinstance(want, dict):
        if 'min' in want and not (got is not None and got >= want['min']):
            return False
        if 'max' in want and not (got is not None and got <= want['max']):
            return False
        if 'contains' in want and not (got is not None and want['contains'] in got):
            return False
        return True
    return want == got


def finding_matches(finding, pid, clause, witness):
    if finding.get('property') != pid:
        return False
    if finding.get('clause') not in (None, clause):
        return False
    for k, want in finding.get('match', {}).items():
        if not _match_value(want, witness.get(k)):
            return False
    return True


class Ctx:
    def __init__(self, pid, tier='quick', seed=None, level='model_checking'):
        self.pid = pid
        self.tier = tier
        if seed is None:
            seed = int(os.environ.get('VERIF_SEED', '0') or 0)
        self.seed = seed
        self.level = level
        self.t0 = time.time()
        self.violations = []       # (clause, witness, detail)
        self.drift = []            # conformance drift notes (exit 0)
        self.findings = load_findings()
        self.coverage = {}
        self.assumptions = []
        self.notes = []
        self._distinct = set()
        self.evaluations = 0
        self.samples = []
        self.max_samples = 4

    # -- bookkeeping ------------------------------------------------------
    def count_case(self, case, nontrivial=True, sample=None):
        """Count one explored case; `case` is any JSON-able description used
        for distinctness (hashed)."""
        self.evaluations += 1
        if nontrivial:
            h = hashlib.sha1(json.dumps(case, sort_keys=True, default=str).encode()).digest()[:10]
            self._distinct.add(h)
        if sample is not None and len(self.samples) < self.max_samples:
            self.samples.append(sample)

    @property
    def distinct_nontrivial(self):
        return len(self._distinct)

    def violation(self, clause, witness, detail=None):
        """Record a property violation observed on a real execution.
        witness: small dict classifying the failure (used to match known
        findings); detail: everything needed to replay (script, trace...)."""
        self.violations.append((clause, dict(witness), detail))

    def note_drift(self, text):
        if len(self.drift) < 50:
            self.drift.append(text)

    # -- finishing --------------------------------------------------------
    def finish(self, coverage=None, assumptions=None):
        cov = dict(self.coverage)
        if coverage:
            cov.update(coverage)
        cov.setdefault('evaluations', self.evaluations)
        cov.setdefault('distinct_nontrivial', self.distinct_nontrivial)
        if self.samples and 'samples' not in cov:
            cov['samples'] = self.samples
        known_hit = {}
        unknown = []
        for clause, witness, detail in self.violations:
            hit = None
            for i, f in enumerate(self.findings):
                if finding_matches(f, self.pid, clause, witness):
                    hit = i
                    break
            if hit is None:
                unknown.append((clause, witness, detail))
            else:
                known_hit.setdefault(hit, []).append((clause, witness))
        for i, hits in sorted(known_hit.items()):
            f = self.findings[i]
            print('KNOWN-FINDING: property=%s %s [%s; %d occurrences this run]' % (self.pid, f.get('what', ''), f.get('clause', ''), len(hits)))
        for d in self.drift[:10]:
            print('CONFORMANCE-DRIFT: property=%s %s' % (self.pid, d))
        rdir = os.path.join(VERIF, 'replays')
        os.makedirs(rdir, exist_ok=True)
        seen = set()
        nrep = 0
        for clause, witness, detail in unknown:
            key = json.dumps([clause, witness], sort_keys=True, default=str)
            if key in seen:
                continue
            seen.add(key)
            if nrep >= 20:
                continue
            nrep += 1
            path = os.path.join(rdir, '%s-%s-%d.json' % (self.pid, self.tier, nrep))
            with open(path, 'w') as fh:
                json.dump({'property': self.pid, 'clause': clause, 'witness': witness, 'detail': detail,
                           'seed': self.seed, 'tier': self.tier}, fh, indent=1, default=str)
            print('VIOLATION property=%s replay=%s clause=%s witness=%s' % (self.pid, path, clause, json.dumps(witness, sort_keys=True, default=str)))
        cov['known_findings_hit'] = sum(len(v) for v in known_hit.values())
        cov['conformance_drift'] = len(self.drift)
        ev = {
            'property_id': self.pid,
            'tier': self.tier,
            'seed': self.seed,
            'level': self.level,
            'coverage': cov,
            'assumptions': list(self.assumptions) + list(assumptions or []),
            'wall_s': round(time.time() - self.t0, 2),
            'violations': len(unknown),
        }
        # ids X.. are checks of behaviour beyond the listed properties (extras/README.md): their reports are kept apart
        edir = os.path.join(VERIF, 'extras', 'evidence') if self.pid.startswith('X') else os.path.join(VERIF, 'evidence')
        os.makedirs(edir, exist_ok=True)
        with open(os.path.join(edir, self.pid + '.json'), 'w') as fh:
            json.dump(ev, fh, indent=1, default=str)
        print('%s %s: evaluations=%d distinct_nontrivial=%d violations=%d known=%d wall=%.1fs' % (
            self.pid, self.tier, cov['evaluations'], cov['distinct_nontrivial'], len(unknown),
            cov['known_findings_hit'], ev['wall_s']))
        return 1 if unknown else 0


def main_wrapper(fn):
    """Run fn() -> exit code; map exceptions to exit status 2."""
    from .tlc import MachineryError
    try:
        rc = fn()
    except MachineryError as e:
        print('MACHINERY-ERROR: %s' % e, file=sys.stderr)
        sys.exit(2)
    except Exception:
        traceback.print_exc()
        print('MACHINERY-ERROR: unexpected exception in harness', file=sys.stderr)
        sys.exit(2)
    sys.exit(rc)
