"""Running TLC: exhaustive checking, state dumps, simulation, batch trace validation.

All scratch goes to a per-call directory under /verif/.work (removed on
success); nothing under /tmp is needed.
"""

import json
import os
import re
import shutil
import subprocess
import tempfile
import time
from concurrent.futures import ThreadPoolExecutor

from . import tlaval

VERIF = os.path.dirname(os.path.dirname(os.path.abspath(__file__)))
WORK = os.path.join(VERIF, '.work')
JAR = '/opt/veriftools/tla/tla2tools.jar'
DEPS = '/opt/veriftools/tla/CommunityModules-deps.jar'


class MachineryError(Exception):
    """TLC crashed / spec does not parse / output not understood: exit status 2."""


def workdir(prefix='tlc'):
    os.makedirs(WORK, exist_ok=True)
    return tempfile.mkdtemp(prefix=prefix + '-', dir=WORK)


class TlcResult:
    def __init__(self):
        self.rc = None
        self.out = ''
        self.generated = 0
        self.distinct = 0
        self.depth = 0
        self.violated = None        # name of violated invariant / property, or 'deadlock'
        self.error_trace = []       # list of (label, state dict)
        self.wall_s = 0.0
        self.cmd = ''
        self.coverage = {}          # action name -> (distinct, total)

    @property
    def ok(self):
        return self.rc == 0 and self.violated is None


_STATE_HDR = re.compile(r'^State (\d+):(?: <(.*)>)?\s*$', re.M)


def parse_states(text):
    """Parse 'State n: <label>\\n/\\ v = value ...' blocks -> [(label, {var: value})]."""
    out = []
    hdrs = list(_STATE_HDR.finditer(text))
    for idx, m in enumerate(hdrs):
        end = hdrs[idx + 1].start() if idx + 1 < len(hdrs) else len(text)
        body = text[m.end():end]
        label = m.group(2) or ''
        st = {}
        pos = 0
        while True:
            mm = re.compile(r'(?:/\\ )?([A-Za-z_][A-Za-z0-9_]*) = ').search(body, pos)
            if not mm:
                break
            # only accept at the start of a line
            ls = body.rfind('\n', 0, mm.start()) + 1
            if body[ls:mm.start()].strip() not in ('', ):
                pos = mm.end()
                continue
            try:
                val, e = tlaval.parse_prefix(body, mm.end())
            except tlaval.TlaParseError:
                break
            st[mm.group(1)] = val
            pos = e
        if st:
            out.append((label, st))
    return out


def _java_cmd(jvm_opts=()):
    return ['java', '-XX:+UseParallelGC', '-Xss16m'] + list(jvm_opts) + ['-cp', JAR + ':' + DEPS, 'tlc2.TLC']


def run_tlc(spec_dir, module, cfg, workers=16, timeout=900, extra=(), env=None, jvm_opts=('-Xmx6g',),
            keep=False, coverage=False):
    """Run TLC on spec_dir/module.tla with cfg (path relative to spec_dir or absolute)."""
    res = TlcResult()
    if not os.path.isabs(spec_dir):
        spec_dir = os.path.join(VERIF, spec_dir)
    wd = workdir('mc')
    cfgp = cfg if os.path.isabs(cfg) else os.path.join(spec_dir, cfg)
    cmd = _java_cmd(jvm_opts) + ['-workers', str(workers), '-metadir', os.path.join(wd, 'meta'),
                                  '-noGenerateSpecTE', '-config', cfgp]
    if coverage:
        cmd += ['-coverage', '1']
    cmd += list(extra) + [module + '.tla']
    e = dict(os.environ)
    if env:
        e.update(env)
    t0 = time.time()
    res.cmd = ' '.join(cmd)
    try:
        p = subprocess.run(cmd, cwd=spec_dir, env=e, stdout=subprocess.PIPE, stderr=subprocess.STDOUT,
                           timeout=timeout, text=True, errors='replace')
        res.rc = p.returncode
        res.out = p.stdout
    except subprocess.TimeoutExpired as te:
        res.rc = 124
        res.out = (te.stdout or b'').decode('utf8', 'replace') if isinstance(te.stdout, bytes) else (te.stdout or '')
        subprocess.run(['pkill', '-f', os.path.join(wd, 'meta')], check=False)
    res.wall_s = time.time() - t0
    out = res.out
    m = re.search(r'(\d+) states generated, (\d+) distinct states found', out)
    if m:
        res.generated, res.distinct = int(m.group(1)), int(m.group(2))
    m = re.search(r'depth of the complete state graph search is (\d+)', out)
    if m:
        res.depth = int(m.group(1))
    m = re.search(r'Error: Invariant (\S+) is violated', out)
    if m:
        res.violated = m.group(1)
    elif 'Error: Deadlock reached' in out:
        res.violated = 'deadlock'
    elif re.search(r'Error: Action property (\S+)', out):
        res.violated = re.search(r'Error: Action property (\S+)', out).group(1)
    elif 'Temporal properties were violated' in out:
        res.violated = 'temporal'
    if res.violated:
        i = out.find('The behavior up to this point is')
        if i >= 0:
            res.error_trace = parse_states(out[i:])
    if coverage:
        for mm in re.finditer(r'^<(\w+) line [^>]*>: (\d+):(\d+)', out, re.M):
            a, b = res.coverage.get(mm.group(1), (0, 0))
            res.coverage[mm.group(1)] = (a + int(mm.group(2)), b + int(mm.group(3)))
    if not keep:
        shutil.rmtree(wd, ignore_errors=True)
    else:
        res.workdir = wd
    if res.rc not in (0, 12, 13) and res.violated is None:
        # 12 = safety violation, 13 = liveness violation
        raise MachineryError('TLC failed (rc=%s) on %s/%s with %s:\n%s' % (res.rc, spec_dir, module, cfg, out[-3000:]))
    return res


def model_check(spec_dir, module, cfg, **kw):
    """Exhaustive check; the spec is expected to satisfy its invariants: a
    violation here is a machinery error (the *model* is wrong), never a verdict
    on the code."""
    res = run_tlc(spec_dir, module, cfg, **kw)
    if res.violated:
        raise MachineryError('model %s/%s (%s) violates %s:\n%s' % (spec_dir, module, cfg, res.violated, res.out[-3000:]))
    if res.distinct == 0:
        raise MachineryError('TLC reported no states for %s/%s:\n%s' % (spec_dir, module, res.out[-2000:]))
    return res


def dump_states(spec_dir, module, cfg, workers=16, timeout=900, **kw):
    """Exhaustive run with -dump; returns (result, [state dict])."""
    wd = workdir('dump')
    dump = os.path.join(wd, 'states')
    try:
        res = run_tlc(spec_dir, module, cfg, workers=workers, timeout=timeout, extra=['-dump', dump], **kw)
        if res.violated:
            raise MachineryError('model %s/%s (%s) violates %s:\n%s' % (spec_dir, module, cfg, res.violated, res.out[-3000:]))
        with open(dump + '.dump') as f:
            text = f.read()
        return res, [st for _, st in parse_states(text)]
    finally:
        shutil.rmtree(wd, ignore_errors=True)


def simulate(spec_dir, module, cfg, num, depth, seed, timeout=600, **kw):
    """tlc -simulate: returns list of behaviours, each [(label, state dict)]."""
    wd = workdir('sim')
    base = os.path.join(wd, 'tr')
    try:
        res = run_tlc(spec_dir, module, cfg, workers=1, timeout=timeout,
                      extra=['-simulate', 'file=%s,num=%d' % (base, num), '-depth', str(depth),
                             '-seed', str(seed)], **kw)
        if res.violated:
            raise MachineryError('model %s/%s (%s) violates %s in simulation:\n%s' % (spec_dir, module, cfg, res.violated, res.out[-3000:]))
        behaviours = []
        for fn in sorted(os.listdir(wd)):
            if not fn.startswith('tr'):
                continue
            with open(os.path.join(wd, fn)) as f:
                text = f.read()
            behaviours.append(parse_sim_file(text))
        return res, behaviours
    finally:
        shutil.rmtree(wd, ignore_errors=True)


_SIM_ACT = re.compile(r'^\\\* <?(\w+)', re.M)


def parse_sim_file(text):
    """A -simulate trace file: blocks '\\* <Action ...>' / 'STATE_n == /\\ v = ...'."""
    out = []
    parts = re.split(r'^STATE_\d+ ==\s*$', text, flags=re.M)
    labels = []
    for part in parts[:-1]:
        m = None
        for m in _SIM_ACT.finditer(part):
            pass
        labels.append(m.group(1) if m else '')
    for label, body in zip(labels, parts[1:]):
        st = {}
        pos = 0
        rx = re.compile(r'(?:/\\ )?([A-Za-z_][A-Za-z0-9_]*) = ')
        while True:
            mm = rx.search(body, pos)
            if not mm:
                break
            ls = body.rfind('\n', 0, mm.start()) + 1
            if body[ls:mm.start()].strip() != '':
                pos = mm.end()
                continue
            try:
                val, e = tlaval.parse_prefix(body, mm.end())
            except tlaval.TlaParseError:
                break
            st[mm.group(1)] = val
            pos = e
        out.append((label, st))
    return out


# --------------------------------------------------------------------------
# batch trace validation

_VERDICT = re.compile(r'<<\s*"VERDICT",')


def _parse_verdicts(out):
    """Find every <<"VERDICT", tid, bad, line>> printed by the trace spec (bracket matching)."""
    res = {}
    for m in _VERDICT.finditer(out):
        try:
            v, _ = tlaval.parse_prefix(out, m.start())
        except tlaval.TlaParseError:
            continue
        if isinstance(v, list) and len(v) >= 4:
            res[v[1]] = (v[2], v[3])
    return res


def validate_traces(spec_dir, module, cfg, traces, shards=8, timeout=1200, env_extra=None, jvm_opts=('-Xmx3g',)):
    """Judge recorded traces with the trace specification `module`.

    traces: list of traces; a trace is a JSON-able value (usually a list of
    line records, or a record with 'cfg' and 'lines').  The trace spec reads
    the whole batch with JsonDeserialize(IOEnv.TRACE_FILE), explores one path
    per trace and prints <<"VERDICT", tid, clause, line>> for each (clause ""
    = accepted).  Returns (verdicts, stats) where verdicts[i] = (clause, line).
    A trace without a verdict is a machinery error.
    """
    n = len(traces)
    if n == 0:
        return [], {'states': 0, 'transitions': 0, 'wall_s': 0.0, 'shards': 0}
    shards = max(1, min(shards, n))
    wd = workdir('tv')
    t0 = time.time()
    try:
        chunks = [list(range(i, n, shards)) for i in range(shards)]

        def one(k):
            idxs = chunks[k]
            path = os.path.join(wd, 'traces%d.json' % k)
            with open(path, 'w') as f:
                json.dump([traces[i] for i in idxs], f)
            env = {'TRACE_FILE': path}
            if env_extra:
                env.update(env_extra)
            res = run_tlc(spec_dir, module, cfg, workers=1, timeout=timeout, env=env, jvm_opts=jvm_opts)
            if res.violated:
                raise MachineryError('trace spec %s reported %s (it must be total):\n%s' % (module, res.violated, res.out[-3000:]))
            v = _parse_verdicts(res.out)
            missing = [j for j in range(1, len(idxs) + 1) if j not in v]
            if missing:
                raise MachineryError('trace spec %s gave no verdict for %d traces (first local tid %d):\n%s'
                                     % (module, len(missing), missing[0], res.out[-3000:]))
            return res, {idxs[j - 1]: v[j] for j in range(1, len(idxs) + 1)}

        verdicts = [None] * n
        states = trans = 0
        with ThreadPoolExecutor(max_workers=shards) as ex:
            for res, part in ex.map(one, range(shards)):
                states += res.distinct
                trans += res.generated
                for i, v in part.items():
                    verdicts[i] = v
        return verdicts, {'states': states, 'transitions': trans, 'wall_s': time.time() - t0, 'shards': shards}
    finally:
        shutil.rmtree(wd, ignore_errors=True)


def sany(spec_dir, module):
    p = subprocess.run(['java', '-cp', JAR + ':' + DEPS, 'tla2sany.SANY', module + '.tla'], cwd=spec_dir,
                       stdout=subprocess.PIPE, stderr=subprocess.STDOUT, text=True)
    ok = p.returncode == 0 and 'Semantic errors' not in p.stdout and 'Parse Error' not in p.stdout \
        and 'Fatal errors' not in p.stdout and '*** Errors' not in p.stdout
    return ok, p.stdout
