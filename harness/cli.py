import argparse
import importlib
import os
import sys

from .core import main_wrapper


def main():
    ap = argparse.ArgumentParser()
    ap.add_argument('pid')
    ap.add_argument('--tier', default=os.environ.get('VERIF_TIER', 'quick'), choices=['quick', 'thorough'])
    ap.add_argument('--replay', default=None)
    args = ap.parse_args()
    if args.pid == 'selftest':
        from . import selftest
        main_wrapper(lambda: selftest.run(args.tier))
    mod = importlib.import_module('harness.drivers.' + args.pid.lower())
    main_wrapper(lambda: mod.run(args.tier, replay=args.replay))


if __name__ == '__main__':
    main()
