"""Deterministic cooperative scheduler for REAL threads (C03).

Runs real Python threads that execute the real circuits code, one at a time:

  * a single baton: exactly one managed thread runs at any moment; every other
    one sleeps on its private semaphore.  The scheduling decision is taken by
    the running thread itself at each pre-emption point (no controller thread
    in the fast path), so a run with k context switches costs k semaphore
    hand-overs, however many points it passes.
  * pre-emption points are
      (a) every operation of the doubles below (VRLock.acquire / release,
          VEvent.wait / set / clear / is_set, the control-pipe and select doubles),
      (b) every source line of the functions registered with `monitor()`
          (sys.monitoring LINE events, Python 3.12; the callback runs in the
          thread that is about to execute the line, *before* the line),
      (c) explicit `op()` calls of the thread scripts.
  * a blocking operation of a double never blocks: it records what the thread
    waits for and hands the baton on.  A thread whose wait can only end by a
    timeout is offered to the chooser as a 'timeout' option if the policy
    callback allows it, never silently.
  * when nothing can run the baton goes back to the controller (`run()`),
    which asks the `on_stuck` callback (oracle / rescue) what to do.
  * a real-time watchdog in the controller turns a harness hang into `Hang`
    (exit status 2 in the driver, schedule saved) - never into a verdict.

A schedule is the sequence of choices made at the numbered decision steps; it
is represented by its deviations from the default policy ("keep running the
current thread; when it cannot run, take the first runnable thread in creation
order; a timeout last").  Given the same deviations a run is reproduced exactly.

Nothing in /repo is edited.  The doubles are installed by replacing module
globals from outside (circuits.core.manager.RLock, circuits.core.helpers.Event,
circuits.core.pollers.os / select) - see `installed()`.
"""

import _thread
import contextlib
import sys
import threading

UNTIMED_S = 10000.0      # FallBackGenerator's re-check period: "never wakes by itself"


class Hang(Exception):
    """The harness did not get the baton back in time / ran too many steps /
    deadlocked in a way the oracle does not understand: machinery failure."""


class _Abort(BaseException):
    """Raised inside managed threads to unwind them when a run is abandoned."""


_ACTIVE = None           # the Sched currently installed (one at a time per process)


def _me():
    s = _ACTIVE
    if s is None:
        return None, None
    return s, s.by_ident.get(_thread.get_ident())


class VThread:
    def __init__(self, name, target, gate=None):
        self.name = name
        self.target = target
        self.gate = gate             # callable -> bool: the thread may start only when true
        self.sem = None              # set by Sched.run(): the semaphore of the worker thread that carries it
        self.worker = None
        self.state = 'new'           # new | ready | blocked | done
        self.block = None            # ('lock', VRLock) | ('wait', waitable, timed) | None
        self.woke = None             # 'ready' | 'timeout' (why a blocked thread was resumed)
        self.point = ('start', '', 0)
        self.exc = None

    def __repr__(self):
        return '<VThread %s %s %r>' % (self.name, self.state, self.block)


class Sched:
    def __init__(self, deviations=None, watchdog=300.0, max_steps=100000):
        self.threads = []
        self.by_ident = {}
        self.current = None
        self.step = 0
        self.deviations = dict(deviations or {})    # step -> thread name
        self.watchdog = watchdog
        self.max_steps = max_steps
        self.main_sem = threading.Semaphore(0)
        self.aborting = False
        self.log = []                # (step, current name or '', [(name, how, not started yet?)], chosen name, default name,
                                     #  (kind, function) of the point the current thread is at)
        self.keep_log = True
        self.observer = None         # f(thread, point) at every point of a managed thread
        self.timeout_ok = None       # f(thread) -> bool: may this timed wait end by its timeout now?
        self.on_stuck = None         # f() -> bool: called by the controller when nothing can run
        self.driver = None           # f(current, options) -> thread or None: overrides deviations (replay of model behaviours)
        self.bad_deviation = None
        self.armed = True            # False: ignore deviations / driver (set-up phase of a run)
        self.prefer = None           # f(current, options) -> thread or None: changes the DEFAULT choice at a point of `current`
        self.on_depart = None        # f(thread): the thread proceeds past the point it was at
        self.on_wake = None          # f(thread): a blocked thread goes on (lock acquired / wait over)
        self.preemptions = 0
        self.switches = 0
        self.run_len = 0
        self.fair_limit = 3000       # steps a thread may run on while others could: then the default policy yields

    # -- set-up ---------------------------------------------------------------
    def add(self, name, target, gate=None):
        t = VThread(name, target, gate)
        self.threads.append(t)
        return t

    # -- who can run ----------------------------------------------------------
    def _how(self, t):
        """'run' if t can proceed, 'timeout' if only by a timeout that the policy allows, else None."""
        if t.state == 'done':
            return None
        if t.state == 'new':
            return 'run' if (t.gate is None or t.gate()) else None
        if t.state == 'ready':
            return 'run'
        b = t.block
        if b[0] == 'lock':
            return 'run' if b[1].owner in (None, t) else None
        if b[0] == 'wait':
            if b[1].ready():
                return 'run'
            if b[2] and (self.timeout_ok is None or self.timeout_ok(t)):
                return 'timeout'
            return None
        raise AssertionError(b)

    def options(self):
        out = []
        for t in self.threads:
            h = self._how(t)
            if h:
                out.append((t, h))
        return out

    def _pick(self, cur):
        """One decision step.  cur: the running thread if it can go on, else None."""
        opts = self.options()
        if not opts:
            return None, None
        self.step += 1
        if self.step > self.max_steps:
            self._fail('more than %d scheduling steps' % self.max_steps)
        default = None
        if cur is not None:
            default = cur
            self.run_len += 1
            if self.run_len > self.fair_limit:
                # a thread that spins without ever blocking must not starve the others
                for t, h in opts:
                    if t is not cur and h == 'run':
                        default = t
                        break
            elif self.prefer is not None and self.armed:
                # a scheduling policy of the driver (e.g. "a firer lets the loop run between two fires")
                d = self.prefer(cur, opts)
                if d is not None:
                    default = d
        else:
            for t, h in opts:
                if h == 'run':
                    default = t
                    break
            if default is None:
                default = opts[0][0]
        chosen = default
        if not self.armed:
            pass
        elif self.driver is not None:
            d = self.driver(cur, opts)
            if d is not None:
                chosen = d
        else:
            want = self.deviations.get(self.step)
            if want is not None:
                for t, h in opts:
                    if t.name == want:
                        chosen = t
                        break
                else:
                    self.bad_deviation = (self.step, want)
        how = dict((t, h) for t, h in opts)[chosen]
        if self.keep_log:
            pt = cur.point if cur is not None else ('', '')
            self.log.append((self.step, cur.name if cur else '', [(t.name, h, t.state == 'new') for t, h in opts], chosen.name, default.name,
                             (pt[0], pt[1])))
        if chosen is not cur:
            self.run_len = 0
            self.switches += 1
        if cur is not None and chosen is not default:
            self.preemptions += 1        # a deviation where the running thread could have gone on
        return chosen, how

    def _fail(self, msg):
        self.failure = msg
        self.aborting = True
        self.main_sem.release()
        raise _Abort()

    # -- baton ----------------------------------------------------------------
    def _resume(self, t, how):
        """Give the baton to t (called by whoever holds it)."""
        if t.state == 'blocked':
            t.woke = 'timeout' if how == 'timeout' else 'ready'
        self.current = t
        t.sem.release()

    def _sleep(self, t):
        t.sem.acquire()
        if self.aborting:
            raise _Abort()

    def point(self, t, desc):
        """A pre-emption point of the running thread t (about to do `desc`)."""
        if self.aborting:
            raise _Abort()
        t.point = desc
        if self.observer is not None:
            self.observer(t, desc)
        nxt, how = self._pick(t)
        if nxt is not t:
            t.state = 'ready'
            self._resume(nxt, how)
            self._sleep(t)
        if self.on_depart is not None:
            self.on_depart(t)

    def op(self, *desc):
        """An explicit pre-emption point of the calling (managed) thread."""
        t = self.by_ident.get(_thread.get_ident())
        if t is None:
            raise RuntimeError('op() from an unmanaged thread')
        self.point(t, desc)

    def block(self, t, what):
        """t cannot proceed until `what`; returns 'ready' or 'timeout'."""
        if self.aborting:
            raise _Abort()
        t.state = 'blocked'
        t.block = what
        t.woke = None
        nxt, how = self._pick(None)
        if nxt is t:
            t.woke = 'timeout' if how == 'timeout' else 'ready'
        else:
            if nxt is None:
                self.current = None
                self.main_sem.release()
            else:
                self._resume(nxt, how)
            self._sleep(t)
        t.state = 'ready'
        t.block = None
        if self.on_wake is not None:
            self.on_wake(t)
        return t.woke

    def _bootstrap(self, t):
        """Body of a managed thread (runs on a persistent worker thread, which
        has just been given the baton for the first time)."""
        try:
            if self.aborting:
                return
            t.state = 'ready'
            t.target()
        except _Abort:
            pass
        except BaseException:      # noqa
            import traceback
            t.exc = traceback.format_exc()
        finally:
            t.state = 'done'
            t.block = None
            if not self.aborting:
                try:
                    nxt, how = self._pick(None)
                except _Abort:
                    nxt = None
                    how = None
                else:
                    if nxt is None:
                        self.current = None
                        self.main_sem.release()
                    else:
                        self._resume(nxt, how)

    # -- controller -----------------------------------------------------------
    def run(self):
        """Run all threads to completion under the schedule.  Returns normally
        when every thread is done; raises Hang otherwise."""
        global _ACTIVE
        if _ACTIVE is not None:
            raise RuntimeError('a scheduler is already active')
        _ACTIVE = self
        self.failure = None
        workers = _workers(len(self.threads))
        try:
            for t, w in zip(self.threads, workers):
                t.worker = w
                t.sem = w.sem                      # the baton semaphore of t is its worker's
                self.by_ident[w.ident] = t
                w.job = (lambda t=t: self._bootstrap(t))
            while True:
                if all(t.state == 'done' for t in self.threads):
                    break
                nxt, how = self._pick_main()
                if nxt is None:
                    if self.on_stuck is None or not self.on_stuck():
                        raise Hang('nothing can run: %r' % (self.threads,))
                    continue
                self._resume(nxt, how)
                if not self.main_sem.acquire(timeout=self.watchdog):
                    raise Hang('watchdog: no thread returned the baton within %.0f s (current %r)' % (self.watchdog, self.current))
                if self.failure:
                    raise Hang(self.failure)
        except BaseException:
            self._abandon(workers)
            raise
        finally:
            _ACTIVE = None

    def _pick_main(self):
        try:
            return self._pick(None)
        except _Abort:
            raise Hang(self.failure or 'aborted')

    def _abandon(self, workers):
        """Unwind every managed thread (best effort); workers that do not come
        back are dropped from the pool (they are daemon threads)."""
        self.aborting = True
        for t in self.threads:
            if t.state != 'done':
                t.sem.release()
        for w in workers:
            w.retire()


class _Worker:
    """A persistent OS thread that executes the managed threads of successive
    runs (one job per run); its semaphore is the baton semaphore of the managed
    thread it currently carries."""

    def __init__(self, idx):
        self.sem = threading.Semaphore(0)
        self.job = None
        self.retired = False
        self.thread = threading.Thread(target=self._loop, name='c03-worker-%d' % idx, daemon=True)
        self.thread.start()
        self.ident = self.thread.ident

    def _loop(self):
        while not self.retired:
            self.sem.acquire()
            job = self.job
            self.job = None
            if job is not None and not self.retired:
                job()

    def retire(self):
        self.retired = True
        self.job = None
        self.sem.release()


_POOL = {'pid': None, 'workers': []}


def _workers(n):
    import os
    if _POOL['pid'] != os.getpid():
        _POOL['pid'] = os.getpid()       # threads do not survive fork()
        _POOL['workers'] = []
    ws = [w for w in _POOL['workers'] if not w.retired]
    while len(ws) < n:
        ws.append(_Worker(len(ws)))
    _POOL['workers'] = ws
    return ws[:n]


# ---------------------------------------------------------------------------
# doubles

def _caller(depth=2):
    return sys._getframe(depth).f_code.co_name


class VRLock:
    """Stand-in for threading.RLock (re-entrant, owner-checked)."""

    def __init__(self):
        self.owner = None
        self.depth = 0

    def acquire(self, blocking=True, timeout=-1):
        s, t = _me()
        if t is None:
            # an unmanaged thread (the controller during set-up / tear-down): no managed thread runs now
            if self.owner not in (None, 'main'):
                raise RuntimeError('unmanaged acquire of a lock held by %r' % (self.owner,))
            self.owner = 'main'
            self.depth += 1
            return True
        s.point(t, ('acquire', _caller(), self))
        while self.owner is not None and self.owner is not t:
            if not blocking:
                return False
            s.block(t, ('lock', self))
        self.owner = t
        self.depth += 1
        return True

    def release(self):
        s, t = _me()
        who = t if t is not None else 'main'
        if self.owner is not who:
            raise RuntimeError('cannot release un-acquired lock')
        if t is not None:
            s.point(t, ('release', _caller(), self))
        self.depth -= 1
        if self.depth == 0:
            self.owner = None

    __enter__ = acquire

    def __exit__(self, *exc):
        s, t = _me()
        who = t if t is not None else 'main'
        if self.owner is not who:
            raise RuntimeError('cannot release un-acquired lock')
        if t is not None:
            s.point(t, ('release', _caller(), self))
        self.depth -= 1
        if self.depth == 0:
            self.owner = None
        return False

    def _is_owned(self):
        s, t = _me()
        return self.owner is (t if t is not None else 'main')


class VEvent:
    """Stand-in for threading.Event."""

    def __init__(self):
        self._flag = False

    def ready(self):
        return self._flag

    def is_set(self):
        s, t = _me()
        if t is not None:
            s.point(t, ('is_set', _caller(), self))
        return self._flag

    isSet = is_set

    def set(self):
        s, t = _me()
        if t is not None:
            s.point(t, ('set', _caller(), self))
        self._flag = True

    def clear(self):
        s, t = _me()
        if t is not None:
            s.point(t, ('clear', _caller(), self))
        self._flag = False

    def wait(self, timeout=None):
        s, t = _me()
        if t is None:
            raise RuntimeError('unmanaged thread waits on a virtual Event')
        timed = timeout is not None and timeout < UNTIMED_S
        mode = 'zero' if (timeout is not None and timeout <= 0) else ('timed' if timed else 'untimed')
        s.point(t, ('wait', _caller(), self, mode))
        if self._flag:
            return True
        if timeout is not None and timeout <= 0:
            return False
        s.block(t, ('wait', self, timed))
        return self._flag


class VPipe:
    """The control pipe of a poller: a byte counter."""

    def __init__(self):
        self.count = 0

    def ready(self):
        return self.count > 0


class VOs:
    """Stand-in for the `os` module inside circuits.core.pollers: pipe/read/write/close
    on virtual descriptors; everything else is the real os."""

    def __init__(self):
        import os
        self._os = os
        self.pipes = {}          # fd -> VPipe (both ends map to the same pipe)
        self._next = 1000

    def __getattr__(self, name):
        return getattr(self._os, name)

    def pipe(self):
        p = VPipe()
        r, w = self._next, self._next + 1
        self._next += 2
        self.pipes[r] = p
        self.pipes[w] = p
        return r, w

    def write(self, fd, data):
        p = self.pipes.get(fd)
        if p is None:
            return self._os.write(fd, data)
        s, t = _me()
        if t is not None:
            s.point(t, ('pwrite', _caller(), p))
        p.count += len(data)
        return len(data)

    def read(self, fd, n):
        p = self.pipes.get(fd)
        if p is None:
            return self._os.read(fd, n)
        s, t = _me()
        if t is not None:
            s.point(t, ('pread', _caller(), p))
        if p.count == 0:
            raise BlockingIOError(11, 'virtual pipe empty')     # _read_ctrl swallows OSError
        k = min(n, p.count)
        p.count -= k
        return b'\0' * k

    def close(self, fd):
        if fd in self.pipes:
            return None
        return self._os.close(fd)


class _Readable:
    """What a virtual select/poll waits for: any of the given pipes readable."""

    def __init__(self, pipes):
        self.pipes = pipes

    def ready(self):
        return any(p.count > 0 for p in self.pipes)


class VPoll:
    """select.poll() / select.epoll() object over virtual descriptors."""

    def __init__(self, vsel, kind):
        self.vsel = vsel
        self.kind = kind
        self.reg = {}

    def register(self, fd, mask):
        fd = fd if isinstance(fd, int) else fd.fileno()
        if self.kind == 'epoll' and fd in self.reg:
            raise FileExistsError(17, 'already registered')
        self.reg[fd] = mask

    def unregister(self, fd):
        fd = fd if isinstance(fd, int) else fd.fileno()
        if fd not in self.reg:
            if self.kind == 'epoll':
                raise FileNotFoundError(2, 'not registered')
            raise KeyError(fd)
        del self.reg[fd]

    def modify(self, fd, mask):
        self.reg[fd] = mask

    def close(self):
        pass

    def poll(self, timeout=None, maxevents=-1):
        if self.kind == 'epoll':
            timed = timeout is not None and timeout >= 0
            zero = timed and timeout == 0
        else:
            timed = timeout is not None and timeout >= 0      # milliseconds; negative = forever
            zero = timed and timeout == 0
        fds = [fd for fd, m in self.reg.items() if m & self.vsel.POLLIN]
        ready = self.vsel._wait(fds, timed, zero, self.kind)
        return [(fd, self.vsel.POLLIN) for fd in ready]


class VSelect:
    """Stand-in for the `select` module inside circuits.core.pollers."""

    POLLIN = EPOLLIN = 1
    POLLPRI = EPOLLPRI = 2
    POLLOUT = EPOLLOUT = 4
    POLLERR = EPOLLERR = 8
    POLLHUP = EPOLLHUP = 16
    POLLNVAL = 32
    error = OSError

    def __init__(self, vos):
        self.vos = vos

    def _wait(self, fds, timed, zero, kind):
        s, t = _me()
        if t is None:
            raise RuntimeError('unmanaged thread polls virtual descriptors')
        for fd in fds:
            if fd not in self.vos.pipes:
                raise RuntimeError('virtual %s on a real descriptor %r' % (kind, fd))
        w = _Readable([self.vos.pipes[fd] for fd in fds])
        s.point(t, ('select', _caller(3), kind, 'zero' if zero else ('timed' if timed else 'untimed'), w))
        if not w.ready() and not zero:
            s.block(t, ('wait', w, timed))
        return [fd for fd in fds if self.vos.pipes[fd].count > 0]

    def select(self, r, w, x, timeout=None):
        if w or x:
            raise RuntimeError('virtual select: only the control pipe is modelled')
        timed = timeout is not None
        ready = self._wait(list(r), timed, timed and timeout == 0, 'select')
        return ready, [], []

    def poll(self):
        return VPoll(self, 'poll')

    def epoll(self, *a, **kw):
        return VPoll(self, 'epoll')


class _Sink:
    """Collects what circuits writes to its `stderr` module global."""

    def __init__(self):
        self.text = []

    def write(self, s):
        self.text.append(s)

    def flush(self):
        pass


class _NoAtexit:
    @staticmethod
    def register(*a, **kw):
        return None


# ---------------------------------------------------------------------------
# installation

TOOL = None


class Monitor:
    """sys.monitoring LINE events on chosen code objects -> Sched.point()."""

    def __init__(self):
        self.codes = {}          # code -> qualname
        self.tool = None
        self.keep = None         # None: every line is a point; else {code: set(line numbers)}

    def set_filter(self, keep):
        """keep: None (all lines) or {code: set of line numbers that are pre-emption points}."""
        self.keep = keep

    def add(self, func):
        code = func.__code__
        self.codes[code] = code.co_qualname
        return code

    def install(self):
        mon = sys.monitoring
        for tid in (mon.PROFILER_ID, mon.OPTIMIZER_ID, 3, 4):
            if mon.get_tool(tid) is None:
                self.tool = tid
                break
        else:
            raise RuntimeError('no free sys.monitoring tool id')
        mon.use_tool_id(self.tool, 'c03sched')
        mon.register_callback(self.tool, mon.events.LINE, self._line)
        for code in self.codes:
            mon.set_local_events(self.tool, code, mon.events.LINE)

    def uninstall(self):
        mon = sys.monitoring
        if self.tool is None:
            return
        for code in self.codes:
            mon.set_local_events(self.tool, code, 0)
        mon.register_callback(self.tool, mon.events.LINE, None)
        mon.free_tool_id(self.tool)
        self.tool = None

    def _line(self, code, line):
        s = _ACTIVE
        if s is None:
            return None
        if self.keep is not None and line not in self.keep.get(code, ()):
            return None          # (never sys.monitoring.DISABLE: a filtered line costs a dictionary look-up, no more)
        t = s.by_ident.get(_thread.get_ident())
        if t is None:
            return None
        s.point(t, ('line', self.codes.get(code, code.co_qualname), line))
        return None


def monitored_functions(with_pollers=True):
    """The functions whose source lines are pre-emption points (found by name at run time)."""
    import circuits.core.events as events
    import circuits.core.helpers as helpers
    import circuits.core.manager as manager
    import circuits.core.pollers as pollers
    M = manager.Manager
    funcs = [M._fire, M._dispatcher, M.tick, M.run, M.stop, M._flush,
             manager._EventQueue.append, manager._EventQueue.dispatchEvents,
             events.generate_events.reduce_time_left,
             helpers.FallBackGenerator._on_generate_events, helpers.FallBackGenerator.resume]
    if with_pollers:
        funcs += [pollers.BasePoller._on_generate_events, pollers.BasePoller.resume, pollers.BasePoller._read_ctrl,
                  pollers.Select._generate_events, pollers.Poll._generate_events, pollers.Poll._process,
                  pollers.EPoll._generate_events, pollers.EPoll._process]
    return funcs


@contextlib.contextmanager
def installed(with_pollers=False):
    """Replace the module globals of circuits by the doubles and enable LINE
    monitoring on the functions C03 is about; restores everything on exit.
    Yields a namespace with .monitor, .stderr (the sink), .vos, .vselect."""
    import circuits.core.helpers as helpers
    import circuits.core.manager as manager
    import circuits.core.pollers as pollers

    class NS:
        pass

    ns = NS()
    saved = (manager.RLock, helpers.Event, manager.atexit, manager.stderr, helpers.stderr,
             pollers.os, pollers.select)
    sink = _Sink()
    manager.RLock = VRLock
    helpers.Event = VEvent
    manager.atexit = _NoAtexit
    manager.stderr = sink
    helpers.stderr = sink
    ns.stderr = sink
    ns.vos = VOs()
    ns.vselect = VSelect(ns.vos)
    if with_pollers:
        pollers.os = ns.vos
        pollers.select = ns.vselect
    mon = Monitor()
    funcs = monitored_functions(with_pollers)
    for f in funcs:
        mon.add(f)
    mon.install()
    ns.monitor = mon
    try:
        yield ns
    finally:
        mon.uninstall()
        (manager.RLock, helpers.Event, manager.atexit, manager.stderr, helpers.stderr,
         pollers.os, pollers.select) = saved
