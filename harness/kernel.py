"""Shared machinery of the kernel checks (C01, C02, C04, C05, C06, C07).

program (dict, JSON-able):
  comps     {"1": {"chan": "a", "shape": "plain"}, ...}
  handlers  {"1": {"comp": 1, "names": ["x"], "chan": None|"a"|"*"|"#2", "prio": rank, "live0": True,
                   "script": {"x": [ops]}}, ...}
  ext       [ {"name", "ch" (None = firing component's channel), "prio", "flags"} ]  external event specs
  ops       external operation kinds TLC may choose: fire cancel reg unreg addh rmh flush
  maxops    bound on the history length
  pre       forced prefix of the history (list of [op, a, b, c])
  firers / flushers   component ids the environment may fire on / flush
  dyn       handler ids that may be added / removed dynamically
"""

import json
import os
import shutil

from . import tlc
from .tlaval import to_tla
from .core import VERIF

SPEC = os.path.join(VERIF, 'spec', 'kernel')


def cfg_of(prog):
    """Static information the monitor needs (G)."""
    n = len(prog['comps'])
    H = []
    for h in range(1, len(prog['handlers']) + 1):
        hd = prog['handlers'][str(h)]
        H.append({'comp': int(hd['comp']), 'names': list(hd.get('names', [])), 'chan': hd.get('chan') or '',
                  'prio': hd.get('prio', 0)})
    return {'id': prog.get('id', 0),
            'chan': [prog['comps'][str(c)].get('chan', '*') for c in range(1, n + 1)],
            'inst': ['#%d' % c for c in range(1, n + 1)],
            'H': H,
            'live0': [h for h in range(1, len(H) + 1) if prog['handlers'][str(h)].get('live0', True)]}


def _spec_tla(sp):
    return {'name': sp['name'], 'ch': sp.get('ch') or '', 'prio': sp.get('prio', 0), 'flags': sp.get('flags', 0),
            'on': sp.get('on', 0) or 0, 'byname': bool(sp.get('byname', False))}


def _code_id(code):
    if code is None:
        return -1
    if isinstance(code, int) and not isinstance(code, bool) and code >= 0:
        return code
    return -2


def _op_tla(op):
    if op[0] == 'fire':
        return ['fire', _spec_tla(op[1])]
    if op[0] == 'ret':
        return ['ret', op[1] or 0]
    if op[0] in ('call', 'wait'):
        tmo = op[2] if len(op) > 2 and op[2] is not None else -1
        return [op[0], _spec_tla(op[1]), tmo]
    if op[0] == 'yield':
        return ['yield', op[1] or 0]
    if op[0] in ('exit', 'stopmgr', 'stop2'):
        return [op[0], _code_id(op[1] if len(op) > 1 else None)]
    return list(op)


def program_tla(prog):
    """The program as the TLA+ record Kernel.tla expects."""
    g = cfg_of(prog)
    for i, hrec in enumerate(g['H'], 1):
        hd = prog['handlers'][str(i)]
        hrec['script'] = [[name, [_op_tla(op) for op in ops]] for name, ops in sorted(hd.get('script', {}).items())]
    g['ext'] = [_spec_tla(sp) for sp in prog.get('ext', [])]
    g['ops'] = list(prog.get('ops', []))
    g['maxops'] = prog.get('maxops', 4)
    g['pre'] = [list(op) + [0] * (4 - len(op)) for op in prog.get('pre', [])]
    g['firers'] = list(prog.get('firers', []))
    g['flushers'] = list(prog.get('flushers', []))
    g['dyn'] = list(prog.get('dyn', []))
    return g


def write_mc_module(workdir, name, programs, variants=None):
    """MC module: EXTENDS Kernel with the programs as a definition."""
    variants = variants or {}
    text = ['---- MODULE %s ----' % name, 'EXTENDS Kernel', 'ProgramsDef == ' + to_tla([program_tla(p) for p in programs]),
            '====']
    for f in ('Kernel.tla', 'KernelOps.tla'):
        shutil.copy(os.path.join(SPEC, f), os.path.join(workdir, f))
    with open(os.path.join(workdir, name + '.tla'), 'w') as fh:
        fh.write('\n'.join(text) + '\n')


def write_cfg(workdir, name, invariants, view=True, variants=None, monitor=True):
    variants = variants or {}
    lines = ['SPECIFICATION Spec', 'CONSTANTS', '  Programs <- ProgramsDef',
             '  StaleCache = %s' % ('TRUE' if variants.get('StaleCache') else 'FALSE'),
             '  CancelLeak = %s' % ('TRUE' if variants.get('CancelLeak') else 'FALSE'),
             '  ExitDeferred = %s' % ('TRUE' if variants.get('ExitDeferred') else 'FALSE'),
             '  StepUntracked = %s' % ('TRUE' if variants.get('StepUntracked') else 'FALSE'),
             '  GenErrorHang = %s' % ('TRUE' if variants.get('GenErrorHang') else 'FALSE'),
             '  SuccessNoErr = %s' % ('TRUE' if variants.get('SuccessNoErr') else 'FALSE'),
             '  DetTasks = %s' % ('FALSE' if view else 'TRUE'),
             '  KeepOut = %s' % ('FALSE' if view else 'TRUE'),
             '  RunMonitor = %s' % ('TRUE' if monitor else 'FALSE')]
    for inv in invariants:
        lines.append('INVARIANT ' + inv)
    if view:
        lines.append('VIEW View')
    lines.append('CHECK_DEADLOCK FALSE')
    p = os.path.join(workdir, name + '.cfg')
    with open(p, 'w') as fh:
        fh.write('\n'.join(lines) + '\n')
    return p


def to_history(hist):
    """TLC hist -> universe history ops."""
    out = []
    for op in hist:
        k = op[0]
        if k == 'fire':
            out.append(['fire', op[1], op[2]])      # spec index resolved by the caller
        elif k == 'reg':
            out.append(['reg', op[1], op[2]])
        elif k in ('unreg', 'addh', 'rmh', 'flush', 'cancel', 'stop', 'tick'):
            out.append([k, op[1]])
        elif k == 'run':
            out.append(['run', op[1], 3])
        elif k == 'quiesce':
            pass
    return out


def replay(prog, hist):
    """Run one TLC history on the real classes; returns trace lines."""
    from .universe import Universe
    u = Universe(prog)
    h = []
    for op in to_history(hist):
        if op[0] == 'fire':
            h.append(['fire', op[1], prog['ext'][op[2] - 1]])
        elif op[0] == 'cancel':
            h.append(['cancel', op[1] - 1])
        else:
            h.append(op)
    return u.run_history(h)


def norm_line(ln):
    return tuple(ln.get(k, 0 if k not in ('k', 'n', 'ch') else '') for k in ('k', 'e', 'h', 'c', 'n', 'ch', 'p', 'o', 'x', 'y', 'v', 'f', 'd'))


# ---------------------------------------------------------------------------
# pipeline

ALL_INVARIANTS = ['ConformsC01', 'ConformsC02', 'ConformsC04', 'ConformsC05', 'ConformsC06', 'ConformsC07', 'ConformsC08', 'ConformsM',
                  'QueueOnlyAtRoots', 'CacheCoherent', 'EffectsNonNegative', 'CompleteDelivered', 'NoTaskResidue']
LINE_KEYS = ('k', 'e', 'h', 'c', 'n', 'ch', 'p', 'o', 'x', 'y', 'v', 'f', 'd')


def _number(programs):
    for i, p in enumerate(programs, 1):
        p['id'] = i
    return programs


def model_check(programs, invariants=None, variants=None, workers=4, timeout=1500, expect_violation=False, name='MC_K'):
    """Exhaustive TLC run of Kernel.tla over the given programs (monitor on, VIEW on)."""
    wd = tlc.workdir('kmc')
    try:
        _number(programs)
        write_mc_module(wd, name, programs)
        write_cfg(wd, name, invariants or ALL_INVARIANTS, view=True, variants=variants, monitor=True)
        res = tlc.run_tlc(wd, name, name + '.cfg', workers=workers, timeout=timeout)
        if res.rc == 124:
            raise tlc.MachineryError('TLC timed out on kernel model (%d programs)' % len(programs))
        if res.violated and not expect_violation:
            lab, st = res.error_trace[-1] if res.error_trace else ('', {})
            raise tlc.MachineryError('kernel model violates %s; history %s; bad %s' % (
                res.violated, st.get('hist'), (st.get('K') or {}).get('bad')))
        return res
    finally:
        shutil.rmtree(wd, ignore_errors=True)


def generate_histories(programs, workers=4, timeout=1500, name='HIST_K', variants=None):
    """All complete environment histories (ending in quiesce) of the model for
    the given programs, with the lines the model emits: [(prog_id, hist, lines)]."""
    wd = tlc.workdir('khist')
    try:
        _number(programs)
        write_mc_module(wd, name, programs)
        write_cfg(wd, name, ['ReportHist'], view=False, monitor=False, variants=variants)
        res = tlc.run_tlc(wd, name, name + '.cfg', workers=workers, timeout=timeout, jvm_opts=('-Xmx8g',))
        if res.violated or res.rc != 0:
            raise tlc.MachineryError('history generation failed: %s\n%s' % (res.violated, res.out[-2000:]))
        out = []
        text = res.out
        pos = 0
        while True:
            i = text.find('<<"HIST",', pos)
            if i < 0:
                i = text.find('<< "HIST",', pos)
                if i < 0:
                    break
            v, end = tlc.tlaval.parse_prefix(text, i)
            pos = end
            lines = [dict(zip(LINE_KEYS, t)) for t in v[3]]
            out.append((v[1], v[2], lines, v[4]))
        return res, out
    finally:
        shutil.rmtree(wd, ignore_errors=True)


def judge(traces, shards=8):
    """traces: list of (prog, lines). Returns list of verdict dicts {prop: (clause, line)}."""
    batch = [{'cfg': cfg_of(p), 'lines': lines} for p, lines in traces]
    verdicts, stats = tlc.validate_traces(SPEC, 'KernelTrace', 'KernelTrace.cfg', batch, shards=shards, jvm_opts=('-Xmx4g',))
    out = []
    for badseq, _ in verdicts:
        out.append({p: (c[0], c[1]) for p, c in badseq})
    return out, stats


def deterministic(prog, lines):
    """True if within every dispatch the invoked handlers have pairwise distinct
    priorities (then the handler order is determined and the model's lines can
    be compared with the real ones exactly)."""
    per = {}
    for ln in lines:
        if ln['k'] == 'inv':
            per.setdefault(ln['e'], []).append(prog['handlers'][str(ln['h'])].get('prio', 0))
    return all(len(v) == len(set(v)) for v in per.values())
