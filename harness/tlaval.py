"""Parser for the textual form in which TLC prints TLA+ values.

Used for: -simulate behaviour files (STATE_n == /\\ v = ... ), PrintT lines
(<<"VERDICT", 3, <<"C11.gap", 7>>>>) and counterexample traces.

Mapping: records -> dict, functions (a :> b @@ c :> d) -> dict, sequences/tuples
-> list, sets -> frozenset (of hashable conversions) represented as sorted list
when elements are not hashable, strings -> str, ints -> int, TRUE/FALSE -> bool,
model values / identifiers -> str prefixed with '@'.
"""


class TlaParseError(Exception):
    pass


class _P:
    def __init__(self, s):
        self.s = s
        self.i = 0
        self.n = len(s)

    def ws(self):
        s = self.s
        while self.i < self.n and s[self.i] in ' \t\r\n':
            self.i += 1

    def peek(self, k=1):
        return self.s[self.i:self.i + k]

    def expect(self, tok):
        self.ws()
        if self.s.startswith(tok, self.i):
            self.i += len(tok)
        else:
            raise TlaParseError('expected %r at %d: %r' % (tok, self.i, self.s[self.i:self.i + 40]))

    def value(self):
        self.ws()
        s = self.s
        c = self.peek()
        if c == '"':
            return self.string()
        if self.s.startswith('<<', self.i):
            self.i += 2
            items = self.items('>>')
            return items
        if c == '{':
            self.i += 1
            items = self.items('}')
            return TlaSet(items)
        if c == '[':
            self.i += 1
            return self.record()
        if c == '(':
            self.i += 1
            return self.function()
        if c == '-' or c.isdigit():
            j = self.i + 1
            while j < self.n and s[j].isdigit():
                j += 1
            v = int(s[self.i:j])
            self.i = j
            # a..b interval
            self.ws()
            if self.s.startswith('..', self.i):
                self.i += 2
                hi = self.value()
                return TlaSet(list(range(v, hi + 1)))
            return v
        if c.isalpha() or c == '_':
            j = self.i
            while j < self.n and (s[j].isalnum() or s[j] == '_'):
                j += 1
            w = s[self.i:j]
            self.i = j
            if w == 'TRUE':
                return True
            if w == 'FALSE':
                return False
            return '@' + w
        raise TlaParseError('unexpected %r at %d: %r' % (c, self.i, s[self.i:self.i + 40]))

    def string(self):
        s = self.s
        assert s[self.i] == '"'
        j = self.i + 1
        out = []
        while j < self.n:
            ch = s[j]
            if ch == '\\':
                nx = s[j + 1]
                out.append({'n': '\n', 't': '\t', 'r': '\r', 'f': '\f'}.get(nx, nx))
                j += 2
                continue
            if ch == '"':
                self.i = j + 1
                return ''.join(out)
            out.append(ch)
            j += 1
        raise TlaParseError('unterminated string')

    def items(self, close):
        out = []
        self.ws()
        if self.s.startswith(close, self.i):
            self.i += len(close)
            return out
        while True:
            out.append(self.value())
            self.ws()
            if self.s.startswith(close, self.i):
                self.i += len(close)
                return out
            self.expect(',')

    def record(self):
        out = {}
        self.ws()
        if self.peek() == ']':
            self.i += 1
            return out
        while True:
            self.ws()
            j = self.i
            s = self.s
            while j < self.n and (s[j].isalnum() or s[j] == '_'):
                j += 1
            key = s[self.i:j]
            self.i = j
            self.expect('|->')
            out[key] = self.value()
            self.ws()
            if self.peek() == ']':
                self.i += 1
                return out
            self.expect(',')

    def function(self):
        out = {}
        while True:
            k = self.value()
            self.expect(':>')
            v = self.value()
            out[_hashable(k)] = v
            self.ws()
            if self.peek() == ')':
                self.i += 1
                return out
            self.expect('@@')


class TlaSet(list):
    """A TLA+ set, kept as a list (TLC prints sets in a normalised order)."""

    def __repr__(self):
        return 'TlaSet(%s)' % list.__repr__(self)


def _hashable(v):
    if isinstance(v, list):
        return tuple(_hashable(x) for x in v)
    if isinstance(v, dict):
        return tuple(sorted((k, _hashable(x)) for k, x in v.items()))
    return v


def parse(text):
    p = _P(text)
    v = p.value()
    p.ws()
    if p.i != p.n:
        raise TlaParseError('trailing input at %d: %r' % (p.i, text[p.i:p.i + 40]))
    return v


def parse_prefix(text, start=0):
    """Parse one value starting at `start`; return (value, end index)."""
    p = _P(text)
    p.i = start
    v = p.value()
    return v, p.i


def to_tla(v):
    """Python -> TLA+ source text (for generated cfg/constant modules)."""
    if isinstance(v, bool):
        return 'TRUE' if v else 'FALSE'
    if isinstance(v, int):
        return str(v)
    if isinstance(v, str):
        if v.startswith('@'):
            return v[1:]
        return '"' + v.replace('\\', '\\\\').replace('"', '\\"') + '"'
    if isinstance(v, (TlaSet, set, frozenset)):
        return '{' + ', '.join(to_tla(x) for x in v) + '}'
    if isinstance(v, (list, tuple)):
        return '<<' + ', '.join(to_tla(x) for x in v) + '>>'
    if isinstance(v, dict):
        if not v:
            return '<<>>'
        if all(isinstance(k, str) and k.isidentifier() for k in v):
            return '[' + ', '.join('%s |-> %s' % (k, to_tla(x)) for k, x in v.items()) + ']'
        return '(' + ' @@ '.join('%s :> %s' % (to_tla(k), to_tla(x)) for k, x in v.items()) + ')'
    raise TypeError('cannot convert %r' % (v,))
