"""Test doubles that stand in for the OS underneath circuits components.

Nothing here patches circuits' source: doubles are passed in through public
constructor arguments (a socket object as `bind`) or replace module globals
from outside (circuits.io.file.fd_write).
"""

import errno
import socket as _socket

ERRNO = {
    'EAGAIN': errno.EAGAIN, 'EWOULDBLOCK': errno.EWOULDBLOCK, 'EINTR': errno.EINTR,
    'ENOBUFS': errno.ENOBUFS, 'EPIPE': errno.EPIPE, 'ECONNRESET': errno.ECONNRESET,
    'ENOTCONN': errno.ENOTCONN,
}


class Stream:
    """The byte stream an endpoint is asked to write; projects what the
    endpoint hands to the OS back to (offset, length)."""

    def __init__(self, seed=0):
        import random
        self.rnd = random.Random(seed)
        self.data = bytearray()
        self.acked = 0

    def payload(self, n):
        b = self.rnd.randbytes(n)
        self.data += b
        return b

    def project(self, data):
        """-> offset of `data` in the stream, preferring the in-order position;
        -1 if it is not a contiguous slice of what was written."""
        n = len(data)
        a = self.acked
        if bytes(self.data[a:a + n]) == bytes(data):
            return a
        i = bytes(self.data).find(bytes(data))
        return i


class ScriptedSend:
    """Outcome script for send()/write(): each call consumes one outcome
    ('accept', k) | ('transient', errno name) | ('fatal', errno name);
    without a scripted outcome the OS accepts everything."""

    def __init__(self, stream, log):
        self.stream = stream
        self.log = log            # list of trace lines
        self.next = []            # pending outcomes
        self.unscripted = 0
        self.closed = False

    def do_send(self, data):
        data = bytes(data)
        off = self.stream.project(data)
        if self.next:
            kind, arg = self.next.pop(0)
        else:
            kind, arg = 'accept', len(data)
            self.unscripted += 1
        if kind == 'accept':
            k = min(arg, len(data))
            self.log.append({'k': 'send', 'a': off, 'b': len(data), 'r': 'accept'})
            self.log.append({'k': 'acc', 'a': k, 'b': 0, 'r': ''})
            if off == self.stream.acked:
                self.stream.acked += k
            return k
        self.log.append({'k': 'send', 'a': off, 'b': len(data), 'r': kind, 'errno': arg})
        raise OSError(ERRNO[arg], 'scripted ' + arg)


class FakeConn(_socket.socket):
    """A socket.socket whose data path is scripted.  It owns a real (unused)
    descriptor so fileno()/select-style bookkeeping keeps working."""

    def __init__(self, script, peer=('127.0.0.1', 50000)):
        super().__init__(_socket.AF_INET, _socket.SOCK_STREAM)
        self._script = script
        self._peer = peer
        self._closed_logged = False

    def send(self, data, *flags):
        return self._script.do_send(data)

    def recv(self, n, *flags):
        raise BlockingIOError(errno.EWOULDBLOCK, 'no data')

    def getpeername(self):
        return self._peer

    def getsockname(self):
        return ('127.0.0.1', 40000)

    def connect(self, addr):
        return None

    def connect_ex(self, addr):
        return 0

    def shutdown(self, how):
        return None

    def setblocking(self, flag):
        return None

    def close(self):
        if not self._closed_logged:
            self._closed_logged = True
            self._script.closed = True
            self._script.log.append({'k': 'close', 'a': 0, 'b': 0, 'r': ''})
        super().close()


class FakeListener(_socket.socket):
    """Listening socket double: accept() hands out prepared connections."""

    def __init__(self):
        super().__init__(_socket.AF_INET, _socket.SOCK_STREAM)
        self.pending = []

    def accept(self):
        if not self.pending:
            raise BlockingIOError(errno.EWOULDBLOCK, 'nothing to accept')
        c = self.pending.pop(0)
        return c, c.getpeername()

    def getsockname(self):
        return ('127.0.0.1', 40000)


def make_poller_double():
    """A BasePoller whose bookkeeping is the repository's own but which never
    touches the kernel: the driver injects _read/_write/_disconnect itself."""
    from circuits.core.pollers import BasePoller

    class PollerDouble(BasePoller):
        channel = 'pollerdouble'

        def _create_control_con(self):
            return (None, None)

        def resume(self):
            pass

        def _read_ctrl(self):
            return b'\0'

        def _generate_events(self, event):
            return None

    return PollerDouble()
