"""A socket-less circuits.web server for the HTTP property checks (C13, C14, C15).

The real ``circuits.web.http.HTTP`` component (and, by default, the real
``circuits.web.dispatchers.Dispatcher``) is registered under a stub server
component inside a root ``Manager`` that is *not* running: the check feeds
``read(sock, bytes)`` events for a socket double, steps the manager with
``tick()`` until nothing is queued and no task is pending, and finds everything
the pipeline fired at the transport (``write(sock, bytes)``, ``close(sock)``)
captured per connection.  No real socket I/O, no threads, no timers.

    from harness.core import use_repo
    use_repo()                                   # before anything imports circuits
    from harness.httpdouble import HttpHarness

    h = HttpHarness(Root())                      # Root: a circuits.web Controller
    c = h.connect()
    c.feed(b'GET / HTTP/1.1\\r\\nHost: x\\r\\n\\r\\n')   # fires read(sock, data) and settles
    c.output          # bytes the server wrote to this connection before closing it
    c.closed          # True once the server fired close(sock)
    c.requests_seen   # [RequestSeen(method, path, protocol, headers, body)] per `request` event
    h.close()

API
---
``HttpHarness(*components, dispatcher=True, encoding='utf-8', display_banner=False,
secure=False)``
    ``components`` are registered under the stub server (controllers, or any
    component with ``@handler('request')``).  Attributes: ``root`` (the Manager),
    ``server`` (stub: ``host``, ``port``, ``secure``, ``display_banner``, ``http``),
    ``http`` (the real HTTP component), ``conns`` (every connection made),
    ``errors`` (``(etype, evalue, handler, fevent-name)`` of every ``exception``
    event), ``requests_seen`` (all connections, in order).
``connect(peer=None) -> Conn``        new socket double; fires ``connect(sock, host, port)``.
``settle(max_ticks=2000)``            tick until quiescent (raises ``NotQuiescent``).
``fire(event, *channels)``            fire into the pipeline (default channel ``web``).
``residue()``                         ``{'clients': n, 'buffers': n}`` left in the HTTP component.
``close()``                           release the descriptors of the socket doubles.

``Conn``
    ``feed(data, settle=True)``       fire ``read(sock, data)``.
    ``settle()``                      same as ``HttpHarness.settle``.
    ``disconnect()``                  the peer hangs up: fires ``disconnect(sock)``.
    ``output``                        bytes written before the server's ``close(sock)``.
    ``writes``                        the individual ``write`` payloads (same bytes, unjoined).
    ``closed`` / ``close_events``     ``close(sock)`` fired (how often).
    ``late``                          bytes written *after* ``close(sock)`` (a real
                                      transport may or may not deliver them).
    ``mark()`` / ``since(mark)``      offset bookkeeping: ``since(m)`` = output after ``m``.
    ``requests_seen``                 ``request`` events for this connection.

What the stub transport does on ``close(sock)``: it marks the connection closed
and fires ``disconnect(sock)``, as ``circuits.net.sockets.Server`` does once its
buffer has drained (the buffer itself is C11/C12's subject, not modelled here).
"""

import socket as _socket
from collections import namedtuple

RequestSeen = namedtuple('RequestSeen', 'method path protocol headers body')


class NotQuiescent(RuntimeError):
    """The pipeline still has queued events or tasks after max_ticks ticks."""


class SockDouble(_socket.socket):
    """A socket.socket that is never used for I/O: the HTTP layer only needs
    identity (dict key), ``getpeername()`` and ``isinstance(.., socket)``.  It has
    no ``getpeercert`` (plain-text connection)."""

    def __init__(self, peer):
        super().__init__(_socket.AF_INET, _socket.SOCK_STREAM)
        self._peer = peer

    def getpeername(self):
        return self._peer

    def getsockname(self):
        return ('127.0.0.1', 8000)

    def send(self, data, *flags):
        raise AssertionError('socket double must not be written to directly')

    def recv(self, n, *flags):
        raise AssertionError('socket double must not be read from directly')


class Conn:
    def __init__(self, harness, sock):
        self.harness = harness
        self.sock = sock
        self.writes = []
        self._out = bytearray()
        self._late = bytearray()
        self.closed = False
        self.close_events = 0
        self.peer_gone = False
        self.requests_seen = []

    # -- what the server sent ----------------------------------------------
    @property
    def output(self):
        return bytes(self._out)

    @property
    def late(self):
        return bytes(self._late)

    def mark(self):
        return len(self._out)

    def since(self, mark):
        return bytes(self._out[mark:])

    # -- driving -----------------------------------------------------------
    def feed(self, data, settle=True):
        from circuits.net.events import read
        self.harness.root.fire(read(self.sock, bytes(data)), self.harness.channel)
        if settle:
            self.harness.settle()
        return self

    def settle(self):
        self.harness.settle()
        return self

    def disconnect(self, settle=True):
        from circuits.net.events import disconnect
        self.peer_gone = True
        self.harness.root.fire(disconnect(self.sock), self.harness.channel)
        if settle:
            self.harness.settle()
        return self


def _make_server_stub(harness, encoding, display_banner, secure, channel):
    from circuits import BaseComponent, handler
    from circuits.net.events import disconnect
    from circuits.web.http import HTTP

    class ServerStub(BaseComponent):
        """Stands where circuits.web.servers.BaseServer stands: owns the HTTP
        component and plays the transport for write/close events."""

        host = '127.0.0.1'
        port = 8000

        def __init__(self):
            super().__init__(channel=channel)
            self.secure = secure
            self.display_banner = display_banner
            self.http = HTTP(self, encoding=encoding, channel=channel).register(self)

        @handler('write')
        def _on_write(self, sock, data):
            c = harness._by_sock.get(id(sock))
            if c is None:
                harness.stray.append(('write', sock, data))
                return
            if c.closed or c.peer_gone:
                c._late += data
            else:
                c.writes.append(bytes(data))
                c._out += data

        @handler('close')
        def _on_close(self, sock=None):
            c = harness._by_sock.get(id(sock))
            if c is None:
                harness.stray.append(('close', sock, None))
                return
            c.close_events += 1
            if not c.closed:
                c.closed = True
                self.fire(disconnect(sock))

        # the pipeline's own view of each request, before the dispatcher (0.1)
        @handler('request', priority=100.0)
        def _on_request_probe(self, event, req, res, *args, **kwargs):
            c = harness._by_sock.get(id(req.sock))
            seen = RequestSeen(req.method, req.path, tuple(req.protocol), dict(req.headers.items()),
                               req.body.getvalue() if hasattr(req.body, 'getvalue') else None)
            harness.requests_seen.append(seen)
            if c is not None:
                c.requests_seen.append(seen)

        @handler('exception', channel='*', priority=100.0)
        def _on_exception_probe(self, etype, evalue, tb, handler=None, fevent=None):
            harness.errors.append((etype, evalue, handler, getattr(fevent, 'name', None)))

    return ServerStub()


class HttpHarness:
    channel = 'web'

    def __init__(self, *components, dispatcher=True, encoding='utf-8', display_banner=False, secure=False):
        from circuits import Manager
        self.root = Manager()
        self.conns = []
        self._by_sock = {}
        self.stray = []
        self.errors = []
        self.requests_seen = []
        self._nconn = 0
        self.server = _make_server_stub(self, encoding, display_banner, secure, self.channel).register(self.root)
        self.http = self.server.http
        if dispatcher:
            from circuits.web.dispatchers import Dispatcher
            self.dispatcher = Dispatcher(channel=self.channel).register(self.server)
        else:
            self.dispatcher = None
        self.components = [c.register(self.server) for c in components]
        self.settle()

    def settle(self, max_ticks=2000):
        root = self.root
        for _ in range(max_ticks):
            if not len(root) and not root._tasks:
                return
            root.tick()
        raise NotQuiescent('web pipeline does not settle in %d ticks' % max_ticks)

    def fire(self, event, *channels):
        return self.root.fire(event, *(channels or (self.channel,)))

    def connect(self, peer=None, settle=True):
        from circuits.net.events import connect
        self._nconn += 1
        if peer is None:
            peer = ('127.0.0.1', 50000 + self._nconn)
        c = Conn(self, SockDouble(peer))
        self.conns.append(c)
        self._by_sock[id(c.sock)] = c
        self.root.fire(connect(c.sock, *peer), self.channel)
        if settle:
            self.settle()
        return c

    def residue(self):
        return {'clients': len(self.http._clients), 'buffers': len(self.http._buffers)}

    def close(self):
        for c in self.conns:
            try:
                _socket.socket.close(c.sock)
            except OSError:
                pass

    def __enter__(self):
        return self

    def __exit__(self, *exc):
        self.close()
        return False
