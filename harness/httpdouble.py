"""A socket-less circuits.web server for the HTTP property checks (C13, C14, C15).

The real ``circuits.web.http.HTTP`` component (and, by default, the real
``circuits.web.dispatchers.Dispatcher``) is registered under a stub server
component inside a root ``Manager`` that is *not* running: the check feeds
``read(sock, bytes)`` events for a socket double, steps the manager with
``tick()`` until nothing is queued and no task is pending, and finds everything
the pipeline fired at the transport (``write(sock, bytes)``, ``close(sock)``)
captured per connection.  No real socket I/O, no threads, no timers.

    from harness.core import use_repo
    use_repo()                                   # before anything imports circuits
    from harness.httpdouble import HttpHarness

    h = HttpHarness(Root())                      # Root: a circuits.web Controller
    c = h.connect()
    c.feed(b'GET / HTTP/1.1\\r\\nHost: x\\r\\n\\r\\n')   # fires read(sock, data) and settles
    c.output          # bytes the server wrote to this connection before closing it
    c.closed          # True once the server fired close(sock)
    c.requests_seen   # [RequestSeen(method, path, protocol, headers, body)] per `request` event
    h.close()

API
---
``HttpHarness(*components, dispatcher=True, encoding='utf-8', display_banner=False,
secure=False)``
    ``components`` are registered under the stub server (controllers, or any
    component with ``@handler('request')``).  Attributes: ``root`` (the Manager),
    ``server`` (stub: ``host``, ``port``, ``secure``, ``display_banner``, ``http``),
    ``http`` (the real HTTP component), ``conns`` (every connection made),
    ``errors`` (``(etype, evalue, handler, fevent-name)`` of every ``exception``
    event), ``requests_seen`` (all connections, in order).
``connect(peer=None) -> Conn``        new socket double; fires ``connect(sock, host, port)``.
``settle(max_ticks=2000)``            tick until quiescent (raises ``NotQuiescent``).
``fire(event, *channels)``            fire into the pipeline (default channel ``web``).
``residue()``                         ``{'clients': n, 'buffers': n}`` left in the HTTP component.
``close()``                           release the descriptors of the socket doubles.

``Conn``
    ``feed(data, settle=True)``       fire ``read(sock, data)``.
    ``settle()``                      same as ``HttpHarness.settle``.
    ``disconnect()``                  the peer hangs up: fires ``disconnect(sock)``.
    ``output``                        bytes written before the server's ``close(sock)``.
    ``writes``                        the individual ``write`` payloads (same bytes, unjoined).
    ``closed`` / ``close_events``     ``close(sock)`` fired (how often).
    ``late``                          bytes written *after* ``close(sock)`` (a real
                                      transport may or may not deliver them).
    ``mark()`` / ``since(mark)``      offset bookkeeping: ``since(m)`` = output after ``m``.
    ``requests_seen``                 ``request`` events for this connection.

What the stub transport does on ``close(sock)``: it marks the connection closed
and fires ``disconnect(sock)``, as ``circuits.net.sockets.Server`` does once its
buffer has drained (the buffer itself is C11/C12's subject, not modelled here).

``HttpHarness(..., transport='server')``  (default ``'stub'``)
    The write path is the repository's own: a real ``circuits.net.sockets.TCPServer``
    (on a listener double, with the poller double of ``harness/doubles.py``) stands
    between the HTTP component and the socket double.  ``write(sock, data)`` events
    are queued by ``Server.write``; once the pipeline is quiescent ``settle()``
    delivers write-readiness (``_write(sock)``) until the connection no longer asks
    for it, so every queued chunk goes through ``Server._on_write`` / ``Server._write``
    and the double's ``send()``.  ``send()`` accepts what the connection's accept
    script allows:
        ``conn.accept = None``            everything (default)
        ``conn.accept = [k1, k2, ...]``   the j-th send() call accepts at most
                                          k_(j mod len) bytes (partial accepts:
                                          the rest must be re-queued by the server)
    ``conn.output`` is then what the peer *received* (bytes accepted by send(), in
    the order they were accepted), ``conn.closed`` means the server closed the
    descriptor (``Server._close``: after the buffer has drained), ``conn.sends`` is
    the list of (offered, accepted) per send() call.  ``conn.late`` stays empty
    (the server drops writes for a connection it has closed).
"""

import errno as _errno
import socket as _socket
from collections import namedtuple

RequestSeen = namedtuple('RequestSeen', 'method path protocol headers body')


class NotQuiescent(RuntimeError):
    """The pipeline still has queued events or tasks after max_ticks ticks."""


class SockDouble(_socket.socket):
    """A socket.socket that is never used for I/O: the HTTP layer only needs
    identity (dict key), ``getpeername()`` and ``isinstance(.., socket)``.  It has
    no ``getpeercert`` (plain-text connection)."""

    def __init__(self, peer):
        super().__init__(_socket.AF_INET, _socket.SOCK_STREAM)
        self._peer = peer

    def getpeername(self):
        return self._peer

    def getsockname(self):
        return ('127.0.0.1', 8000)

    def send(self, data, *flags):
        raise AssertionError('socket double must not be written to directly')

    def recv(self, n, *flags):
        raise AssertionError('socket double must not be read from directly')


class ServedSock(SockDouble):
    """The connection as circuits.net.sockets.Server sees it (transport='server'):
    send() accepts what the connection's accept script allows and records it as
    received by the peer; close() is the server closing the descriptor."""

    def __init__(self, peer):
        super().__init__(peer)
        self.conn = None

    def send(self, data, *flags):
        c = self.conn
        if c.closed:
            raise OSError(_errno.EPIPE, 'send on a connection the server closed')
        n = len(data)
        if c.accept:
            n = min(n, max(0, int(c.accept[c._nsend % len(c.accept)])))
        c._nsend += 1
        c.sends.append((len(data), n))
        if n:
            c.writes.append(bytes(data[:n]))
            c._out += data[:n]
        return n

    def recv(self, n, *flags):
        raise BlockingIOError(_errno.EWOULDBLOCK, 'no data')

    def setblocking(self, flag):
        return None

    def shutdown(self, how):
        return None

    def close(self):
        c = self.conn
        if c is not None and not c.harness._tearing_down and not c.closed:
            c.closed = True
            c.close_events += 1
        _socket.socket.close(self)


class ListenerDouble(_socket.socket):
    """Listening socket double: accept() hands out prepared connections."""

    def __init__(self):
        super().__init__(_socket.AF_INET, _socket.SOCK_STREAM)
        self.pending = []

    def accept(self):
        if not self.pending:
            raise BlockingIOError(_errno.EWOULDBLOCK, 'nothing to accept')
        c = self.pending.pop(0)
        return c, c.getpeername()

    def getsockname(self):
        return ('127.0.0.1', 8000)


class Conn:
    def __init__(self, harness, sock):
        self.harness = harness
        self.sock = sock
        self.writes = []
        self._out = bytearray()
        self._late = bytearray()
        self.closed = False
        self.close_events = 0
        self.peer_gone = False
        self.requests_seen = []
        self.accept = None      # transport='server': accept script for send() (None: everything)
        self.sends = []         # transport='server': (offered, accepted) per send() call
        self._nsend = 0

    # -- what the server sent ----------------------------------------------
    @property
    def output(self):
        return bytes(self._out)

    @property
    def late(self):
        return bytes(self._late)

    def mark(self):
        return len(self._out)

    def since(self, mark):
        return bytes(self._out[mark:])

    # -- driving -----------------------------------------------------------
    def feed(self, data, settle=True):
        from circuits.net.events import read
        self.harness.root.fire(read(self.sock, bytes(data)), self.harness.channel)
        if settle:
            self.harness.settle()
        return self

    def settle(self):
        self.harness.settle()
        return self

    def disconnect(self, settle=True):
        from circuits.net.events import disconnect
        self.peer_gone = True
        if self.harness.transport == 'server':
            from circuits.core.pollers import _disconnect
            self.harness.root.fire(_disconnect(self.sock), self.harness.channel)
        else:
            self.harness.root.fire(disconnect(self.sock), self.harness.channel)
        if settle:
            self.harness.settle()
        return self


def _make_server_stub(harness, encoding, display_banner, secure, channel, transport='stub'):
    from circuits import BaseComponent, handler
    from circuits.net.events import disconnect
    from circuits.web.http import HTTP

    class ServerBase(BaseComponent):
        """Stands where circuits.web.servers.BaseServer stands: owns the HTTP
        component (and, with transport='server', a real TCPServer)."""

        host = '127.0.0.1'
        port = 8000

        def __init__(self):
            super().__init__(channel=channel)
            self.secure = secure
            self.display_banner = display_banner
            if transport == 'server':
                from circuits.net.sockets import TCPServer
                harness.listener = ListenerDouble()
                self.server = TCPServer(harness.listener, channel=channel).register(self)
            self.http = HTTP(self, encoding=encoding, channel=channel).register(self)

        # the pipeline's own view of each request, before the dispatcher (0.1)
        @handler('request', priority=100.0)
        def _on_request_probe(self, event, req, res, *args, **kwargs):
            c = harness._by_sock.get(id(req.sock))
            seen = RequestSeen(req.method, req.path, tuple(req.protocol), dict(req.headers.items()),
                               req.body.getvalue() if hasattr(req.body, 'getvalue') else None)
            harness.requests_seen.append(seen)
            if c is not None:
                c.requests_seen.append(seen)

        @handler('exception', channel='*', priority=100.0)
        def _on_exception_probe(self, etype, evalue, tb, handler=None, fevent=None):
            harness.errors.append((etype, evalue, handler, getattr(fevent, 'name', None)))

    if transport == 'server':
        return ServerBase()

    class ServerStub(BaseComponent):
        """Stands where circuits.web.servers.BaseServer stands: owns the HTTP
        component and plays the transport for write/close events."""

        host = '127.0.0.1'
        port = 8000

        def __init__(self):
            super().__init__(channel=channel)
            self.secure = secure
            self.display_banner = display_banner
            self.http = HTTP(self, encoding=encoding, channel=channel).register(self)

        @handler('write')
        def _on_write(self, sock, data):
            c = harness._by_sock.get(id(sock))
            if c is None:
                harness.stray.append(('write', sock, data))
                return
            if c.closed or c.peer_gone:
                c._late += data
            else:
                c.writes.append(bytes(data))
                c._out += data

        @handler('close')
        def _on_close(self, sock=None):
            c = harness._by_sock.get(id(sock))
            if c is None:
                harness.stray.append(('close', sock, None))
                return
            c.close_events += 1
            if not c.closed:
                c.closed = True
                self.fire(disconnect(sock))

        # the pipeline's own view of each request, before the dispatcher (0.1)
        @handler('request', priority=100.0)
        def _on_request_probe(self, event, req, res, *args, **kwargs):
            c = harness._by_sock.get(id(req.sock))
            seen = RequestSeen(req.method, req.path, tuple(req.protocol), dict(req.headers.items()),
                               req.body.getvalue() if hasattr(req.body, 'getvalue') else None)
            harness.requests_seen.append(seen)
            if c is not None:
                c.requests_seen.append(seen)

        @handler('exception', channel='*', priority=100.0)
        def _on_exception_probe(self, etype, evalue, tb, handler=None, fevent=None):
            harness.errors.append((etype, evalue, handler, getattr(fevent, 'name', None)))

    return ServerStub()


class HttpHarness:
    channel = 'web'

    def __init__(self, *components, dispatcher=True, encoding='utf-8', display_banner=False, secure=False,
                 transport='stub'):
        from circuits import Manager
        if transport not in ('stub', 'server'):
            raise ValueError(transport)
        self.transport = transport
        self._tearing_down = False
        self.listener = None
        self.poller = None
        self.root = Manager()
        self.conns = []
        self._by_sock = {}
        self.stray = []
        self.errors = []
        self.requests_seen = []
        self._nconn = 0
        if transport == 'server':
            from .doubles import make_poller_double
            self.poller = make_poller_double().register(self.root)
        self.server = _make_server_stub(self, encoding, display_banner, secure, self.channel, transport).register(self.root)
        self.http = self.server.http
        if dispatcher:
            from circuits.web.dispatchers import Dispatcher
            self.dispatcher = Dispatcher(channel=self.channel).register(self.server)
        else:
            self.dispatcher = None
        self.components = [c.register(self.server) for c in components]
        self.settle()

    def _quiesce(self, max_ticks):
        root = self.root
        for _ in range(max_ticks):
            if not len(root) and not root._tasks:
                return
            root.tick()
        raise NotQuiescent('web pipeline does not settle in %d ticks' % max_ticks)

    def settle(self, max_ticks=2000, max_sends=100000):
        """Tick until nothing is queued and no task is pending.  With
        transport='server': then deliver write-readiness to every connection
        that asks for it (one `_write` event each), and repeat until none does."""
        self._quiesce(max_ticks)
        if self.transport != 'server':
            return
        from circuits.core.pollers import _write
        for _ in range(max_sends):
            ready = [c for c in self.conns if not c.closed and self.poller.isWriting(c.sock)]
            if not ready:
                return
            for c in ready:
                self.root.fire(_write(c.sock), self.channel)
            self._quiesce(max_ticks)
        raise NotQuiescent('connections still ask for write-readiness after %d rounds' % max_sends)

    def fire(self, event, *channels):
        return self.root.fire(event, *(channels or (self.channel,)))

    def connect(self, peer=None, settle=True):
        from circuits.net.events import connect
        self._nconn += 1
        if peer is None:
            peer = ('127.0.0.1', 50000 + self._nconn)
        if self.transport == 'server':
            from circuits.core.pollers import _read
            sock = ServedSock(peer)
            c = Conn(self, sock)
            sock.conn = c
            self.conns.append(c)
            self._by_sock[id(sock)] = c
            self.listener.pending.append(sock)
            self.root.fire(_read(self.listener), self.channel)     # Server._accept -> connect(sock, host, port)
            if settle:
                self.settle()
            return c
        c = Conn(self, SockDouble(peer))
        self.conns.append(c)
        self._by_sock[id(c.sock)] = c
        self.root.fire(connect(c.sock, *peer), self.channel)
        if settle:
            self.settle()
        return c

    def residue(self):
        return {'clients': len(self.http._clients), 'buffers': len(self.http._buffers)}

    def close(self):
        self._tearing_down = True
        for c in self.conns:
            try:
                _socket.socket.close(c.sock)
            except OSError:
                pass
        if self.listener is not None:
            try:
                self.listener.close()
            except OSError:
                pass

    def __enter__(self):
        return self

    def __exit__(self, *exc):
        self.close()
        return False
