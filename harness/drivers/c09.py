"""C09 - timers never fire early, fire as often as specified, bound the idle sleep.

Pipeline (DESIGN 5/C09, design.d/C09.md):
  1. TLC checks spec/timers/Timers.tla exhaustively (focused configurations):
     the timer algorithm under the manager's loop obeys the C09 monitor of
     TimersOps and the directly stated invariants for every small environment
     history; the mutant variants of the model must each violate it.
  2. TLC dumps every environment history of a small bound (hist variable) and
     simulates longer random ones; each is replayed on real Timer components
     under a real Manager driven by tick() on the virtual clock
     (harness/vclock.py); the model's emitted lines are compared with the real
     trace (spec -> code).
  3. Seeded random scripts with larger timer sets, operations inside handlers
     and tasks, sleeping tasks, datetime deadlines, reset(interval).
  4. TLC judges every recorded trace with spec/timers/TimersTrace.tla, which
     reuses the monitor (code -> spec); corrupted copies of accepted traces
     must be rejected.
"""

import json
import math
import multiprocessing
import os
import random
import threading
from concurrent.futures import ThreadPoolExecutor

from .. import tlc
from ..core import Ctx, use_repo
from ..vclock import VClock

SPEC = 'spec/timers'
COARSE = (0.25, 4)          # the model's grid: unit 0.25 s, 4 units per second
FINE = (1.0 / 1024, 1024)   # the fine-grained random runs: unit ~ 1 ms
SILENT = ('tick', 'gbeg')   # informative lines the monitor does not look at: not sent to TLC
VARIANTS = ['gt', 'addinterval', 'nopending', 'flip', 'slack', 'stopsweep']
ACTIONS = ['Create', 'CreateAt', 'Reset', 'Unregister', 'HandlerTime', 'FireOp', 'StartTask', 'Tick']


def L(k, t, a, b, now):
    return {'k': k, 't': t, 'a': a, 'b': b, 'now': now}


class World:
    """A real root Manager (set up as run() does: running, executing thread =
    this thread) driven by tick(), real Timer components, an application
    component with scripted handlers, all on a virtual clock.  Everything
    observable goes to self.log as flat trace lines."""

    def __init__(self, grid=COARSE):
        from circuits import BaseComponent, Event, Manager, Timer, handler
        w = self
        self.unit, self.sec = grid
        self.Timer = Timer
        self.log = []
        self.notes = []
        self.timers = {}
        self.cost = {}            # timer id -> virtual time its event's handler consumes
        self.hooks = {}           # timer id -> {k: [operations run inside the handler of the k-th dispatch]}
        self.ndisp = {}
        self.tick_plan = None     # (grant, wake) for the idle wait of the tick being run
        self.untimed_seen = False
        self.last_wait = None
        self.clock = VClock(2 * self.sec, on_wait=self._on_wait, sink=self._on_wait_logged, unit=self.unit)
        self.line('cfg', 0, self.sec, 0)

        class tev(Event):
            """the event a Timer fires"""

        class op(Event):
            """an ordinary event: its handler consumes virtual time and runs scripted operations"""

        class gen(Event):
            """an event whose handler is a generator task"""

        class gensleep(Event):
            """an event whose handler is a generator that sleeps"""

        self.tev, self.op, self.gen, self.gensleep = tev, op, gen, gensleep

        class Root(Manager):
            # observation only: a timer's event entering the queue is "the timer fires"
            def _fire(self, event, channel, priority=0):
                if isinstance(event, tev):
                    w.line('fire', event.tid, 0, 0)
                return super()._fire(event, channel, priority)

        class App(BaseComponent):
            channel = 'app'

            @handler('tev')
            def _on_tev(self, event):
                t = event.tid
                w.line('disp', t, 0, 0)
                n = w.ndisp[t] = w.ndisp.get(t, 0) + 1
                c = w.cost.get(t, 0)
                if c:
                    w.clock.advance(c)
                for st in w.hooks.get(t, {}).get(n, ()):
                    w.do(st)

            @handler('op')
            def _on_op(self, d, inner):
                w.clock.advance(d)
                for st in inner:
                    w.do(st)

            @handler('gen')
            def _on_gen(self, steps):
                for d, inner in steps:
                    w.clock.advance(d)
                    for st in inner:
                        w.do(st)
                    yield None

            @handler('gensleep')
            def _on_gensleep(self, k):
                from circuits import sleep
                yield sleep(k * w.unit)

        class Obs(BaseComponent):
            channel = 'obs'

            @handler('generate_events', channel='*', priority=1000)
            def _gbeg(self, event):
                w.line('gbeg', 0, 0, 0)

            @handler('generate_events', channel='*', priority=-50)
            def _gend(self, event):
                tl = event.time_left
                w.line('gend', 0, -1 if tl < 0 else int(math.ceil(tl / w.unit)), 0)

            @handler('unregistered', channel='*')
            def _unregd(self, component, manager):
                for t, tm in w.timers.items():
                    if tm is component:
                        w.line('gone', t, 0, 0)

        self.root = Root()
        self.app = App().register(self.root)
        self.obs = Obs().register(self.root)
        # what Manager.run() sets up before it loops over tick()
        self.root._running = True
        self.root._executing_thread = threading.current_thread()

    # -- helpers -------------------------------------------------------------
    def line(self, k, t, a, b):
        self.log.append(L(k, t, a, b, self.clock.units))

    def _on_wait(self, req_floor, req_ceil):
        grant, wake = self.tick_plan or (0, 1)
        untimed = req_ceil >= self.clock.untimed
        if untimed:
            self.untimed_seen = True
            if grant < 0:
                grant = 0
            if not wake:
                wake = 1       # nothing else would ever end the untimed wait
        # grant -1: the wait lasts as long as requested; -k: k - 1 units less; >= 0: at most that long
        grant = max(0, req_floor + grant + 1) if grant < 0 else min(grant, req_floor)
        fn = None
        if wake:
            def fn():
                # another thread fires an event: Manager._fire takes the foreign-thread
                # path (reduce_time_left(0) -> resume() -> Event.set()); joined at once,
                # so the schedule is deterministic
                th = threading.Thread(target=lambda: self.root.fire(self.op(0, ()), 'app'))
                th.start()
                th.join()
        return grant, fn

    def _on_wait_logged(self, now, req_ceil, granted):
        self.last_wait = (req_ceil, granted)
        self.log.append(L('idle', 0, req_ceil, granted, now))

    # -- operations ----------------------------------------------------------
    def _mk(self, t, interval, per):
        ev = self.tev()
        ev.tid = t
        self.timers[t] = self.Timer(interval, ev, 'app', persist=bool(per)).register(self.app)

    def do(self, st):
        kind = st[0]
        if kind == 'create':
            _, t, iv, per = st[:4]
            self.line('create', t, iv, per)
            self._mk(t, iv * self.unit, per)
        elif kind in ('createat', 'createatr'):
            _, t, dl, per = st[:4]
            if kind == 'createatr':
                dl = max(0, self.clock.units + dl)
            self.line('createat', t, dl, per)
            self._mk(t, self.clock.datetime_at(dl), per)
        elif kind == 'reset':
            _, t, iv = st[:3]
            if t in self.timers:
                self.line('reset', t, iv, 0)
                if iv < 0:
                    self.timers[t].reset()
                else:
                    self.timers[t].reset(iv * self.unit)
        elif kind == 'unreg':
            t = st[1]
            if t in self.timers:
                self.line('unreg', t, 0, 0)
                self.timers[t].unregister()
        elif kind == 'adv':
            self.clock.advance(st[1])
        elif kind == 'op':
            self.root.fire(self.op(st[1], tuple(st[2]) if len(st) > 2 else ()), 'app')
        elif kind == 'task':
            self.root.fire(self.gen([(s[0], tuple(s[1]) if len(s) > 1 else ()) for s in st[1]]), 'app')
        elif kind == 'sleep':
            self.root.fire(self.gensleep(st[1]), 'app')
        elif kind == 'cost':
            self.cost[st[1]] = st[2]
        elif kind == 'hook':
            self.hooks.setdefault(st[1], {})[st[2]] = list(st[3])
        elif kind == 'tick':
            self.tick(st[1], st[2])
        else:
            raise ValueError(st)

    def tick(self, grant, wake):
        self.tick_plan = (grant, wake)
        self.line('tick', 0, 0, 0)
        start = len(self.log)
        self.root.tick()
        self.tick_plan = None
        # a pass that began (observer of priority 1000) but never reached the observer of
        # priority -50: some handler stopped the generate_events event, the handlers behind
        # it (other timers, the fallback generator) were not polled in this iteration
        began = None
        for ln in self.log[start:]:
            if ln['k'] == 'gbeg':
                began = ln['now']
            elif ln['k'] == 'gend':
                began = None
        if began is not None:
            self.log.append(L('gcut', 0, 0, 0, began))

    def in_tree(self, t):
        tm = self.timers[t]
        return 1 if tm.parent is not tm else 0

    def epilogue(self, limit=120):
        """Unregister the persistent timers, then let the loop run (every wait
        lasts as long as requested) until it asks for an untimed wait, i.e.
        nothing is pending any more; then stop it as run() does."""
        n = 0
        self.untimed_seen = False
        while n < limit and not self.untimed_seen:
            n += 1
            for t in sorted(self.timers):     # (a task may still create one)
                tm = self.timers[t]
                if tm.persist and self.in_tree(t) and not tm.unregister_pending:
                    self.do(('unreg', t))
            self.last_wait = None
            self.tick(-1, 0)
            lw = self.last_wait
            if self.root._tasks or (lw is not None and lw[1] == 0 and lw[0] < self.clock.untimed):
                # a wait for less than a grid unit (TIMEOUT while tasks exist; an expiry the
                # code keeps off the grid) lets no virtual time pass: the loop's own code takes
                # a unit, or the loop would spin at a frozen clock for ever
                self.clock.advance(1)
        if not self.untimed_seen:
            self.notes.append('epilogue-limit')
            self.line('stall', 0, n, 0)
        self.root._running = False
        for _ in range(4):
            self.root.tick()
        if self.untimed_seen:
            for t in sorted(self.timers):
                self.line('end', t, self.in_tree(t), 1 if self.timers[t].unregister_pending else 0)


def run_script(script, epilogue=True):
    """Run a concrete script on real Timers/Manager on the virtual clock;
    -> (trace lines, notes, number of lines before the epilogue)."""
    grid = COARSE
    if script and script[0][0] == 'grid':
        grid = FINE if script[0][1] == 'fine' else COARSE
        script = script[1:]
    w = World(grid)
    with w.clock:
        for st in script:
            w.do(st)
        body = len(w.log)
        if epilogue:
            w.epilogue()
    return w.log, w.notes, body


def _worker(script):
    try:
        return run_script(script)
    except Exception:   # the replay itself broke: machinery, reported by the parent
        import traceback
        return ('ERR', traceback.format_exc(), script)


# ---------------------------------------------------------------------------
# model histories -> scripts

def realise(hist):
    """hist items <<op, a, b, c>> of Timers.tla -> concrete script."""
    out = []
    for h in hist:
        op = h[0]
        if op == 'create':
            out.append(('create', h[1], h[2], h[3]))
        elif op == 'createat':
            out.append(('createat', h[1], h[2], h[3]))
        elif op == 'reset':
            out.append(('reset', h[1], -1))
        elif op == 'unreg':
            out.append(('unreg', h[1]))
        elif op == 'adv':
            out.append(('adv', h[1]))
        elif op == 'op':
            out.append(('op', h[1], []))
        elif op == 'task':
            out.append(('task', [[h[2], []]] * h[1]))
        elif op == 'tick':
            out.append(('tick', h[1], h[2]))
        else:
            raise tlc.MachineryError('unknown history item %r' % (h,))
    return out


def _norm(lines):
    """Normal form for comparing the model's lines with the real ones: the
    order in which the timers of one generate_events pass are visited (hence
    the order of their firings and of the dispatch of their events) is left
    open by the code (set iteration)."""
    out = []
    run_ = []
    kind = None
    for ln in lines:
        k = ln['k']
        if k in ('fire', 'disp', 'gone'):
            if kind not in (None, k):
                out.extend(sorted(run_))
                run_ = []
            kind = k
            run_.append((k, ln['t'], ln['a'], ln['b'], ln['now']))
            continue
        out.extend(sorted(run_))
        run_ = []
        kind = None
        out.append((k, ln['t'], ln['a'], ln['b'], ln['now']))
    out.extend(sorted(run_))
    return out


# ---------------------------------------------------------------------------
# random scripts (larger timer sets, operations inside handlers and tasks)

def random_script(rnd, quick, fine=False):
    """Coarse: everything in units of 0.25 s like the model.  Fine: the clock
    ticks in 1/1024 s, intervals are mostly multiples of 0.25 s but handler
    times and cut-short waits are not, so a generate_events pass may happen a
    millisecond before or after an expiry."""
    ntimers = rnd.randint(1, 4 if quick else 8)
    nsteps = rnd.randint(4, 14 if quick else 30)
    if fine:
        ivs = [0, 1, 256, 256, 512, 300, 768, 1024, 77, 2048]
        advs = [1, 2, 100, 255, 256, 257, 700]
        offs = [-3000, -1024, -1, 0, 1, 500, 1023, 1024, 1025, 2047, 3000]
        grants = [-1, -1, -1, -2, -2, -3, 0, 1, 50, 256, 511]
        costs = [1, 30, 256]
        sleeps = [0, 100, 256, 1000]
    else:
        ivs = [0, 0, 1, 1, 2, 3, 5, 8]
        advs = [1, 1, 2, 3, 4]
        offs = [-9, -4, -1, 0, 1, 2, 3, 4, 5, 7, 8, 11]
        grants = [-1, -1, -1, -2, 0, 1, 2, 3]
        costs = [1, 2]
        sleeps = [0, 1, 2, 4]
    script = [('grid', 'fine' if fine else 'coarse')]
    created = []

    def inner_op(allow_create=True):
        r = rnd.random()
        if allow_create and len(created) < ntimers and (not created or r < 0.35):
            t = len(created) + 1
            created.append(t)
            if rnd.random() < 0.25:
                return ('createatr', t, rnd.choice(offs), 1 if rnd.random() < 0.25 else 0)
            return ('create', t, rnd.choice(ivs), rnd.randint(0, 1))
        if not created:
            return ('adv', rnd.choice(advs))
        t = rnd.choice(created)
        if r < 0.6:
            return ('reset', t, -1 if rnd.random() < 0.7 else rnd.choice(ivs))
        if r < 0.85:
            return ('unreg', t)
        return ('adv', rnd.choice(advs))

    for _ in range(nsteps):
        r = rnd.random()
        if not created or r < 0.22:
            script.append(inner_op())
            if rnd.random() < 0.15 and created:
                script.append(('cost', created[-1], rnd.choice(costs)))
            if rnd.random() < 0.15 and created:
                script.append(('hook', created[-1], rnd.randint(1, 3), [inner_op(False)]))
        elif r < 0.32:
            script.append(('op', rnd.choice([0] + advs), [inner_op() for _ in range(rnd.randint(0, 2))]))
        elif r < 0.40:
            script.append(('task', [[rnd.choice([0] + advs), [inner_op() for _ in range(rnd.randint(0, 1))]]
                                    for _ in range(rnd.randint(1, 3))]))
        elif r < 0.44:
            script.append(('sleep', rnd.choice(sleeps)))
        elif r < 0.50:
            script.append(('adv', rnd.choice(advs)))
        else:
            g = rnd.choice(grants)
            script.append(('tick', g, 1 if (g != -1 and rnd.random() < 0.8) else int(rnd.random() < 0.1)))
    return [list(s) for s in script]


# ---------------------------------------------------------------------------
# corrupted traces (binding demonstration)

CORRUPTIONS = ['fire_early', 'dup_oneshot', 'oversleep', 'drop_fire', 'fire_after_unreg']


def mutate_trace(rnd, lines, how):
    """Corrupt an accepted real trace so that it must be rejected; returns
    (lines, description, expected clauses) or None."""
    out = [dict(ln) for ln in lines]
    created = {}
    for i, ln in enumerate(out):
        if ln['k'] == 'create':
            created[ln['t']] = (i, ln['a'], ln['b'])
    fires = [i for i, ln in enumerate(out) if ln['k'] == 'fire' and ln['t'] in created]
    if how == 'fire_early':
        # the log claims a longer interval than the timer really had
        cand = [i for i in fires
                if not any(l2['k'] in ('reset', 'fire', 'unreg') and l2['t'] == out[i]['t'] for l2 in out[:i])]
        if not cand:
            return None
        i = rnd.choice(cand)
        j = created[out[i]['t']][0]
        out[j]['a'] = out[i]['now'] - out[j]['now'] + 1
        return out, 'interval of timer %d overstated: its fire at line %d is early' % (out[i]['t'], i + 1), ('C09.early',)
    if how == 'dup_oneshot':
        cand = [i for i in fires if created[out[i]['t']][2] == 0]
        if not cand:
            return None
        i = rnd.choice(cand)
        out.insert(i + 1, dict(out[i]))
        return out, 'one-shot fire duplicated at line %d' % (i + 1), ('C09.oneshot_twice',)
    if how == 'oversleep':
        cand = [i for i, ln in enumerate(out) if ln['k'] == 'idle' and ln['a'] < 40000 and ln['a'] >= 1
                and i > 0 and out[i - 1]['k'] == 'gend' and out[i - 1]['a'] == ln['a']]
        # only waits whose length was set by a timer: the request equals min(expiry) - now
        cand = [i for i in cand if _bounded_by_timer(out, i)]
        if not cand:
            return None
        i = rnd.choice(cand)
        out[i]['a'] += 1
        return out, 'idle request +1 at line %d' % (i + 1), ('C09.oversleep',)
    if how == 'drop_fire':
        if not fires:
            return None
        i = rnd.choice(fires)
        del out[i]
        return out, 'fire line %d dropped' % (i + 1), ('C09.missed', 'C09.spurious_dispatch')
    if how == 'fire_after_unreg':
        cand = [i for i, ln in enumerate(out) if ln['k'] == 'gone' and ln['t'] in created]
        if not cand:
            return None
        i = rnd.choice(cand)
        out.insert(i + 1, L('fire', out[i]['t'], 0, 0, out[i]['now']))
        return out, 'fire after gone at line %d' % (i + 2), ('C09.after_unregister', 'C09.oneshot_twice')
    return None


def _bounded_by_timer(lines, i):
    """True iff some live interval timer's expiry equals now + request at idle line i
    (python mirror used only to pick corruption sites, never as an oracle)."""
    exp = {}
    live = {}
    iv = {}
    per = {}
    for ln in lines[:i]:
        k, t = ln['k'], ln['t']
        if k == 'create':
            exp[t] = ln['now'] + ln['a']
            iv[t] = ln['a']
            per[t] = ln['b']
            live[t] = True
        elif k == 'createat':
            live[t] = False      # keep datetime timers out of it
        elif k == 'reset' and t in exp:
            if ln['a'] >= 0:
                iv[t] = ln['a']
            exp[t] = ln['now'] + iv[t]
        elif k in ('unreg', 'gone') and t in live:
            live[t] = False
        elif k == 'fire' and t in exp:
            if per[t]:
                exp[t] = ln['now'] + iv[t]
            else:
                live[t] = False
    tgt = lines[i]['now'] + lines[i]['a']
    return any(live.get(t) and exp[t] == tgt for t in exp)


# ---------------------------------------------------------------------------

def witness_of(meta, lines, badline, clause):
    """Classify a failure for known-finding matching."""
    ln = lines[badline - 1] if 0 < badline <= len(lines) else {'k': '?', 't': 0}
    w = {'line': ln['k'], 'origin': meta['origin']}
    t = ln.get('t', 0)
    kind = 'n/a'
    for l2 in lines[:badline]:
        if l2['t'] == t and l2['k'] in ('create', 'createat'):
            kind = ('datetime-' if l2['k'] == 'createat' else '') + ('persistent' if l2['b'] else 'oneshot')
            w['interval'] = l2['a'] if l2['k'] == 'create' else None
    w['timer'] = kind
    return w


def fmt(lines):
    return '\n'.join('%3d %-8s t=%d a=%d b=%d now=%d' % (i, ln['k'], ln['t'], ln['a'], ln['b'], ln['now'])
                     for i, ln in enumerate(lines, 1))


def judge(traces, shards, jvm):
    """TLC verdicts for full traces; the informative lines are filtered out and
    the failing line number is mapped back to the full trace."""
    slim, maps = [], []
    for lines in traces:
        idx = [i for i, ln in enumerate(lines) if ln['k'] not in SILENT]
        maps.append(idx)
        slim.append([lines[i] for i in idx])
    verdicts, stats = tlc.validate_traces(SPEC, 'TimersTrace', 'TimersTrace.cfg', slim, shards=shards, jvm_opts=jvm)
    out = []
    for (clause, line), idx in zip(verdicts, maps):
        out.append((clause, idx[line - 1] + 1 if clause and 0 < line <= len(idx) else line))
    return out, stats


JVM_QUICK = ('-Xmx2g', '-XX:ParallelGCThreads=2', '-XX:TieredStopAtLevel=1')   # short runs: start-up dominates
JVM_LONG = ('-Xmx6g',)


def run_replay(path):
    """./check C09 --replay <file>: re-run one recorded script on the real code."""
    rec = json.load(open(path))
    script = rec['detail']['script']
    lines, notes, _ = run_script(script)
    verdicts, _ = judge([lines], 1, JVM_QUICK)
    clause, line = verdicts[0]
    print('script: %s' % json.dumps(script))
    print(fmt(lines))
    if clause:
        print('VIOLATION property=C09 replay=%s clause=%s line=%d' % (path, clause, line))
        return 1
    print('replay accepted: no clause of C09 fails on this tree')
    return 0


def _maximal(states):
    hists = {}
    for st in states:
        h = st['hist']
        hists[tlc.tlaval._hashable(h)] = (h, st.get('out'))
    keys = set(hists)
    prefixes = set()
    for k in keys:
        for i in range(len(k)):
            prefixes.add(k[:i])
    return [hists[k] for k in sorted(keys - prefixes, key=repr)]


def run(tier, replay=None):
    use_repo()
    if replay:
        return run_replay(replay)
    ctx = Ctx('C09', tier)
    quick = tier == 'quick'
    rnd = random.Random(ctx.seed * 7919 + 9)
    suffix = '' if quick else '_thorough'
    pool = multiprocessing.get_context('fork').Pool(min(16, os.cpu_count() or 4))
    try:
        return _run(ctx, quick, rnd, suffix, pool)
    finally:
        pool.terminate()
        pool.join()


def _t(ctx, label):
    if os.environ.get('C09_TIMING'):
        import resource
        import sys
        import time
        c = resource.getrusage(resource.RUSAGE_CHILDREN)
        print('[C09 %6.1fs, children cpu %.0f+%.0fs] %s' % (time.time() - ctx.t0, c.ru_utime, c.ru_stime, label), file=sys.stderr)


def _run(ctx, quick, rnd, suffix, pool):
    # 1. exhaustive model checking of the focused configurations, the mutant
    #    variants and the history dumps, side by side
    mc_cfgs = ['MC_one%s.cfg' % suffix, 'MC_two%s.cfg' % suffix] + ([] if quick else ['MC_three_thorough.cfg'])
    hist_cfgs = ['HIST_one%s.cfg' % suffix, 'HIST_two%s.cfg' % suffix]
    jvm = JVM_QUICK if quick else JVM_LONG
    with ThreadPoolExecutor(max_workers=5) as ex:
        f_mc = [ex.submit(tlc.model_check, SPEC, 'Timers', c, coverage=True, workers=8, jvm_opts=jvm) for c in mc_cfgs]
        f_hist = [ex.submit(tlc.dump_states, SPEC, 'Timers', c, workers=4, jvm_opts=jvm) for c in hist_cfgs]
        f_mut = [ex.submit(tlc.run_tlc, SPEC, 'Timers', 'MUT_%s.cfg' % v, workers=2, jvm_opts=JVM_QUICK) for v in VARIANTS]
        f_sim = ex.submit(tlc.simulate, SPEC, 'Timers', 'SIM%s.cfg' % suffix, num=150 if quick else 3000,
                          depth=22 if quick else 40, seed=ctx.seed + 1, jvm_opts=JVM_QUICK)
        mcs = [f.result() for f in f_mc]
        muts = [f.result() for f in f_mut]
        dumps = [f.result() for f in f_hist]
        sim_res, behaviours = f_sim.result()
    _t(ctx, 'tlc model runs done: ' + ', '.join('%s=%d/%.0fs' % (c, m.distinct, m.wall_s) for c, m in zip(mc_cfgs, mcs)) + ' | ' + ', '.join('%s=%d/%.0fs' % (c, r.distinct, r.wall_s) for c, (r, _) in zip(hist_cfgs, dumps)))
    taken = {}
    for mc in mcs:
        for act, (d, n) in mc.coverage.items():
            taken[act] = taken.get(act, 0) + n
    for act in ACTIONS:
        if taken.get(act, 0) == 0:
            raise tlc.MachineryError('vacuous model: action %s never taken (coverage: %s)' % (act, taken))
    cex = []
    for v, res in zip(VARIANTS, muts):
        if not res.violated:
            raise tlc.MachineryError('variant %s of Timers.tla no longer violates C09: the model lost its teeth' % v)
        if res.error_trace:
            h = res.error_trace[-1][1].get('hist')
            if h:
                cex.append((v, h))

    # 2. model histories -> scripts
    cases = []      # (meta, script, model out or None)
    for (res, states), cfg in zip(dumps, hist_cfgs):
        for h, mout in _maximal(states):
            if not any(x[0] in ('create', 'createat') for x in h):
                continue
            cases.append(({'origin': 'tlc-history', 'cfg': cfg}, realise(h), mout))
    n_hist = len(cases)
    for v, h in cex:
        cases.append(({'origin': 'tlc-variant-' + v}, realise(h), None))
    _t(ctx, 'simulation done, %d behaviours' % len(behaviours))
    n_sim = 0
    for b in behaviours:
        if not b:
            continue
        st = b[-1][1]
        if st.get('hist'):
            cases.append(({'origin': 'tlc-simulation'}, realise(st['hist']), st.get('out')))
            n_sim += 1

    # 3. random larger scripts
    nrand = 1000 if quick else 12000
    for i in range(nrand):
        cases.append(({'origin': 'random-fine' if i % 2 else 'random'}, random_script(rnd, quick, fine=bool(i % 2)), None))

    scripts = [[list(s) for s in c[1]] for c in cases]
    results = pool.map(_worker, scripts, chunksize=64)
    _t(ctx, '%d scripts replayed' % len(scripts))
    traces = []
    n_cmp = n_match = 0
    for (meta, _, mout), script, r in zip(cases, scripts, results):
        if r[0] == 'ERR':
            raise tlc.MachineryError('replay broke on %s:\n%s' % (json.dumps(r[2]), r[1]))
        lines, notes, body = r
        meta = dict(meta, script=script, notes=notes)
        traces.append((meta, lines))
        if mout is not None:
            n_cmp += 1
            if _norm(mout) == _norm([ln for ln in lines[:body] if ln['k'] != 'cfg']):
                n_match += 1
            else:
                ctx.note_drift('trace differs from the model\'s lines for script %s' % json.dumps(script))

    # 4. TLC judges the traces
    verdicts, stats = judge([t[1] for t in traces], 8 if quick else 16, jvm)
    _t(ctx, 'traces validated (%d TLC states)' % stats['states'])
    accepted = []
    nfires = 0
    for (meta, lines), (clause, line) in zip(traces, verdicts):
        nf = sum(1 for ln in lines if ln['k'] == 'fire')
        nfires += nf
        ctx.count_case(meta['script'], nf > 0,
                       sample={'origin': meta['origin'], 'script': meta['script'],
                               'trace': [[ln['k'], ln['t'], ln['a'], ln['b'], ln['now']] for ln in lines[:14]],
                               'verdict': clause or 'accepted'})
        if 'epilogue-limit' in meta['notes'] and not clause:
            # no timer is pending and yet the loop does not come to rest (e.g. a task that
            # never ends): nothing C09 speaks about; recorded, never a verdict, never exit 2
            ctx.note_drift('the loop never came to rest although the trace is accepted: %s' % json.dumps(meta['script']))
        if clause:
            ctx.violation(clause, witness_of(meta, lines, line, clause),
                          {'script': meta['script'], 'origin': meta['origin'], 'line': line, 'trace': fmt(lines).split('\n')})
        else:
            accepted.append(lines)

    # 5. binding demonstration: corrupted real traces must be rejected
    muts_t = []
    per_kind = {}
    want = 80 if quick else 600
    for n, lines in enumerate(accepted):
        if len(muts_t) >= want:
            break
        m = mutate_trace(rnd, lines, CORRUPTIONS[n % len(CORRUPTIONS)])
        if m:
            muts_t.append(m)
            per_kind[m[2][0]] = per_kind.get(m[2][0], 0) + 1
    if len(accepted) > 100 and len(per_kind) < 5:
        raise tlc.MachineryError('trace corruption self-test covers only %s' % sorted(per_kind))
    if muts_t:
        mv, _ = judge([m[0] for m in muts_t], 2 if quick else 4, JVM_QUICK)
        missed = [(muts_t[i][1], c) for i, (c, _) in enumerate(mv) if c not in muts_t[i][2]]
        if missed:
            raise tlc.MachineryError('trace spec misjudged %d corrupted traces, e.g. %s -> %r' % (len(missed), missed[0][0], missed[0][1]))

    return ctx.finish(coverage={
        'states': sum(m.distinct for m in mcs), 'transitions': sum(m.generated for m in mcs),
        'model_configurations': {c: m.distinct for c, m in zip(mc_cfgs, mcs)},
        'variant_counterexamples': {v: m.violated for v, m in zip(VARIANTS, muts)},
        'traces_validated_against_impl': len(traces),
        'model_histories_replayed': n_hist, 'simulated_histories_replayed': n_sim,
        'variant_histories_replayed': len(cex), 'random_scripts': nrand,
        'history_dump_states': sum(r.distinct for r, _ in dumps),
        'model_line_exact_match': n_match, 'model_line_compared': n_cmp,
        'timer_firings_observed': nfires,
        'trace_validation_states': stats['states'],
        'corrupted_traces_rejected': len(muts_t), 'corruption_kinds': per_kind,
        'rule': 'cases = concrete scripts (timer creations / resets / unregistrations / handler time / ordinary events / '
                'tasks / ticks with prescribed idle grants) run on real Timer components under a real Manager on the '
                'virtual clock: every maximal environment history TLC dumps for the HIST configurations of Timers.tla, '
                'TLC-simulated longer histories, the counterexample histories of the mutant variants, and seeded random '
                'scripts; non-trivial = at least one timer fired; distinct by hash of the script',
        'exhaustive': False,
    }, assumptions=[
        'time() in circuits.core.timers / circuits.core.manager and threading.Event in circuits.core.helpers are doubles '
        '(virtual clock on a 0.25 s grid, TZ=UTC); CPython threading.Event, mktime and float rounding off the grid are trusted',
        'a wait for less than one grid unit (TIMEOUT = 0.1 s while tasks are registered) lets no virtual time pass',
        'observation through a Manager subclass logging Timer events entering the queue and two observer handlers '
        'around the timers\' generate_events handlers; all operations happen in the loop thread, idle waits are cut '
        'short by one joined foreign thread firing an event',
    ])
