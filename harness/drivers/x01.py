"""X01 - request routing of circuits.web: which handler a request runs, with which arguments.

(An extra specification: no listed property covers it; statement in extras/X01.md and in
spec/extra/RoutingOps.tla.)

Pipeline (BUILDING.md):
  1. TLC checks spec/extra/Routing.tla exhaustively: the intended resolution algorithm
     (Devs = {}) obeys the monitor of RoutingOps for every world (controller classes on the
     channels /, /a, /a/b, registered or not) and every request of the bounded universe; each
     deviation of the pinned code (Devs = {"inject"}, {"defaults"}, {"unexposed"}) must be
     caught (teeth).  The counterexamples are replayed on the real code: the deviations the
     tree under test exhibits select the model variant used below.
  2. TLC dumps every environment history of small configurations (hist) together with the
     lines the model emits (out); each history is replayed on the real Dispatcher +
     Controller classes (generated from the model's own template table) behind the real HTTP
     component (harness/httpdouble.py: no sockets); real lines are compared with the model's.
  3. Seeded random larger worlds (more channels, random signatures and ways of (not) exposing,
     longer request sequences, trailing slashes, non-canonical spellings, escapes).
  4. All recorded traces are judged by TLC with RoutingTrace.tla (same monitor); corrupted
     copies of accepted traces must be rejected.
"""

import json
import os
import random
import shutil
import time
from concurrent.futures import ThreadPoolExecutor
from urllib.parse import quote, unquote

from .. import tlc, tlaval
from ..core import Ctx, use_repo, VERIF

SPEC = 'spec/extra'
PID = 'X01'
DEVS = ('inject', 'defaults', 'unexposed')
CHANSEQ = ([], ['a'], ['a', 'b'])
INTERNAL = 'prepare_unregister_complete'
QPAIRS = {'p1': [('p1', '1')], 'p2': [('p2', '2')], 'z': [('z', '3')], 'ze': [('z', '')]}
BPAIRS = {'p1': [('p1', '4')], 'z': [('z', '5')]}
LINE_KEYS = ('k', 'c', 'h', 'r', 'args', 'kw', 'st')


def line(k, c=0, h=0, r=0, args='', kw='', st=0):
    return {'k': k, 'c': c, 'h': h, 'r': r, 'args': args, 'kw': kw, 'st': st}


# --------------------------------------------------------------------------
# worlds: real controller classes generated from handler tables

def _plain(v):
    """tlaval value -> plain python (dict / list / str / int / bool)."""
    if isinstance(v, dict):
        return {k: _plain(x) for k, x in v.items()}
    if isinstance(v, (list, tuple)):
        return [_plain(x) for x in v]
    return v


def parse_templates(out):
    i = out.find('<<"TEMPLATES",')
    if i < 0:
        i = out.find('<< "TEMPLATES",')
    if i < 0:
        raise tlc.MachineryError('Routing.tla did not print its template table:\n' + out[-1500:])
    val, _ = tlaval.parse_prefix(out, i)
    table = _plain(val[1])
    if 'root' not in table or 'none' not in table:
        raise tlc.MachineryError('template table not understood: %r' % (table,))
    return table


def world_from_templates(table, tpls):
    """<<tpl of "/", of "/a", of "/a/b">> -> world description."""
    ctrls = []
    for chan, t in zip(CHANSEQ, tpls):
        tp = table[t]
        ctrls.append({'chan': list(chan), 'base': bool(tp['base']), 'present': t != 'none',
                      'hs': [dict(h) for h in tp['hs']]})
    return {'ctrls': ctrls}


def _signature(h):
    ps = ['self']
    named = ['p%d' % i for i in range(1, h['na'] + 1)]
    for i, p in enumerate(named):
        ps.append(p + ('=None' if i >= h['na'] - h['nd'] else ''))
    if h['var']:
        ps.append('*args')
    if h['kw']:
        ps.append('**kw')
    return ', '.join(ps), named


def class_source(ci, c):
    """Python source of the controller class of slot ci (1-based)."""
    src = ['class C%d(%s):' % (ci, 'BaseController' if c['base'] else 'Controller'),
           '    channel = %r' % ('/' + '/'.join(c['chan']))]
    for hi, h in enumerate(c['hs'], 1):
        how = h['how']
        if how == 'plain':
            src += ['    @handler(%r)' % h['name'],
                    '    def _on_%d(self, *args, **kw):' % hi,
                    '        return _rec(%d, %d, (), args[2:], kw)' % (ci, hi)]      # an event handler gets (request, response, ...)
            continue
        sig, named = _signature(h)
        if how == 'deco':
            src.append('    @expose(%r)' % h['name'])
            mname = '_m%d' % hi
        elif how == 'false':
            src.append('    @expose(False)')
            mname = h['name']
        else:                       # auto, under, pub: no decorator, the name says it all
            mname = h['name']
        if not mname.isidentifier():
            raise ValueError('method name %r' % mname)
        src += ['    def %s(%s):' % (mname, sig),
                '        return _rec(%d, %d, (%s), %s, %s)' % (
                    ci, hi, ''.join(p + ', ' for p in named), 'args' if h['var'] else '()', 'kw' if h['kw'] else '{}')]
    return '\n'.join(src) + '\n'


class App:
    """The real Dispatcher, HTTP and generated Controllers under a Manager that is stepped by hand."""

    def __init__(self, world):
        from circuits import handler
        from circuits.web import BaseController, Controller, expose
        from ..httpdouble import HttpHarness
        self.world = world
        self.lines = []
        self.reqs = []
        self.notes = []
        ns = {'Controller': Controller, 'BaseController': BaseController, 'expose': expose, 'handler': handler,
              '_rec': self._rec}
        self.ctrl = {}
        for ci, c in enumerate(world['ctrls'], 1):
            if not c.get('present', True):
                continue
            exec(class_source(ci, c), ns)
            self.ctrl[ci] = ns['C%d' % ci]()
        self.h = HttpHarness()
        self.dead = False
        for ci in sorted(self.ctrl):
            self.register(ci)

    def _rec(self, ci, hi, named, args, kw):
        seen = ['~' if v is None else unquote(str(v)) for v in named] + [unquote(str(v)) for v in args]
        kws = '&'.join('%s=%s' % (k, kw[k]) for k in sorted(kw))
        self.lines.append(line('run', c=ci, h=hi, args='/'.join(seen), kw=kws))
        return 'ran %d.%d' % (ci, hi)

    def _settle(self):
        from ..httpdouble import NotQuiescent
        try:
            self.h.settle()
        except NotQuiescent:
            self.dead = True
            self.notes.append('not-quiescent')

    def register(self, ci):
        self.ctrl[ci].register(self.h.server)
        self._settle()
        self.lines.append(line('reg', c=ci))

    def unregister(self, ci):
        self.ctrl[ci].unregister()
        self._settle()
        self.lines.append(line('unreg', c=ci))

    def request(self, rq):
        """rq: {'m', 'segs', 'q': [(k, v)], 'b': [(k, v)], 'ts', 'nc'}"""
        segs = list(rq['segs'])
        # as a client spells them: sub-delimiters like "+" literally (tests/web/test_expose.py), anything else escaped;
        # whether an escaped segment is matched / handed on decoded is left open by the statement, so no handler name
        # in any world needs an escape
        enc = [quote(s, safe='+') for s in segs]
        nc = rq.get('nc', '')
        if nc == 'dslash':
            enc.insert(len(enc) - 1, '')
        elif nc == 'dot':
            enc.insert(len(enc) - 1, '.')
        elif nc == 'pct':
            enc[-1] = '%%%02X' % ord(segs[-1][0]) + quote(segs[-1][1:], safe='+')
        target = '/' + '/'.join(enc)
        if rq.get('ts') and segs:
            target += '/'
        if rq['q']:
            target += '?' + '&'.join('%s=%s' % (quote(k, safe=''), quote(v, safe='')) for k, v in rq['q'])
        body = b''
        hdrs = ['Host: x', 'Connection: close']
        if rq['b']:
            body = '&'.join('%s=%s' % (quote(k, safe=''), quote(v, safe='')) for k, v in rq['b']).encode()
            hdrs += ['Content-Type: application/x-www-form-urlencoded', 'Content-Length: %d' % len(body)]
        elif rq['m'] in ('POST', 'PUT'):
            hdrs.append('Content-Length: 0')
        keys = sorted({k for k, _ in rq['q']} | {k for k, _ in rq['b']})
        # canonical spelling: no empty / dot segment and no escape at all (the HTTP component redirects some
        # targets that carry escapes, e.g. /c%20d/+q; that guard is not the subject here)
        self.reqs.append({'m': rq['m'], 'segs': segs, 'canon': nc == '' and enc == segs, 'keys': keys,
                          'q': [{'k': k, 'v': v} for k, v in rq['q']], 'b': [{'k': k, 'v': v} for k, v in rq['b']]})
        self.lines.append(line('req', r=len(self.reqs)))
        conn = self.h.connect()
        raw = ('%s %s HTTP/1.1\r\n%s\r\n\r\n' % (rq['m'], target, '\r\n'.join(hdrs))).encode() + body
        from ..httpdouble import NotQuiescent
        try:
            conn.feed(raw)
        except NotQuiescent:
            self.dead = True
            self.notes.append('not-quiescent')
        st = 0
        outb = conn.output
        if outb.startswith(b'HTTP/'):
            try:
                st = int(outb.split(b' ', 2)[1])
            except (ValueError, IndexError):
                st = 0
        self.lines.append(line('resp', st=st))
        del self.h.errors[:]
        return target

    def trace(self):
        return {'cfg': {'ctrls': [{'chan': c['chan'],
                                   'hs': [{k: h[k] for k in ('name', 'exp', 'na', 'nd', 'var', 'kw')} for h in c['hs']]}
                                  for c in self.world['ctrls']],
                        'reqs': self.reqs},
                'lines': self.lines}

    def close(self):
        self.h.close()


def run_script(world, script):
    """script: [('U', ci) | ('R', ci) | ('Q', rq)] -> (trace, notes)."""
    app = App(world)
    try:
        for st in script:
            if app.dead:
                break
            if st[0] == 'U':
                app.unregister(st[1])
            elif st[0] == 'R':
                app.register(st[1])
            else:
                app.request(st[1])
        return app.trace(), app.notes
    finally:
        app.close()


def realise(table, hist):
    """Model history -> (world, script)."""
    world = world_from_templates(table, hist[0]['segs'])
    script = []
    for e in hist[1:]:
        if e['op'] == 'U':
            script.append(('U', e['c']))
        elif e['op'] == 'R':
            script.append(('R', e['c']))
        else:
            script.append(('Q', {'m': e['m'], 'segs': list(e['segs']), 'q': list(QPAIRS.get(e['q'], [])),
                                 'b': list(BPAIRS.get(e['b'], [])), 'ts': bool(e['ts']), 'nc': e['nc']}))
    return world, script


def model_lines(mout):
    return [{k: ln[k] for k in LINE_KEYS} for ln in mout]


# --------------------------------------------------------------------------
# classification of a failure (witness for known findings) - never a verdict

def _binds(h, n, keys):
    if not (n <= h['na'] or h['var']):
        return False
    for k in keys:
        i = int(k[1:]) if k in ('p1', 'p2', 'p3') else 0
        if 1 <= i <= h['na']:
            if i <= n:
                return False
        elif not h['kw']:
            return False
    return all('p%d' % i in keys for i in range(n + 1, h['na'] - h['nd'] + 1))


def _cands(cfg, reg, rq):
    out = []
    segs = rq['segs']
    for i in range(len(segs), -1, -1):
        cs = [c for c in sorted(reg) if cfg['ctrls'][c - 1]['chan'] == segs[:i]]
        if not cs:
            continue
        c = cs[0]
        hs = cfg['ctrls'][c - 1]['hs']
        rest = segs[i:]

        def exp(nm):
            return [j for j, h in enumerate(hs, 1) if h['exp'] and h['name'] == nm]
        if exp(rq['m']):
            out.append((c, exp(rq['m'])[0], rest, 'method'))
        if rest and exp(rest[0]):
            out.append((c, exp(rest[0])[0], rest[1:], 'name'))
        if exp('index'):
            out.append((c, exp('index')[0], rest, 'index'))
    return out


def witness_of(world, tr, badline, clause):
    """Classify the failing request: `reason` names the input class (a segment that is the name of an
    event handler the documentation does not call exposed / a handler with defaults given fewer segments
    than it has parameters / other); for a run line also how the method that ran is (not) exposed and
    whether its arguments are the segments with the word "index" put in front."""
    cfg, lines = tr['cfg'], tr['lines']
    reg = set()
    cur = None
    for ln in lines[:badline - 1]:
        if ln['k'] == 'reg':
            reg.add(ln['c'])
        elif ln['k'] == 'unreg':
            reg.discard(ln['c'])
        elif ln['k'] == 'req':
            cur = ln['r']
    ln = lines[badline - 1]
    w = {}
    if cur is None:
        return {'reason': 'no_request'}
    rq = cfg['reqs'][cur - 1]
    raw = False
    for c in reg:
        cw = world['ctrls'][c - 1]
        ch = cw['chan']
        if rq['segs'][:len(ch)] == ch:
            nxt = rq['segs'][len(ch)] if len(rq['segs']) > len(ch) else None
            if nxt == INTERNAL or any(h['how'] == 'plain' and h['name'] in (nxt, 'index', rq['m']) for h in cw['hs']):
                raw = True
    cands = _cands(cfg, reg, rq)
    pick = None
    for cd in cands:
        h = cfg['ctrls'][cd[0] - 1]['hs'][cd[1] - 1]
        if cd[3] != 'method' and not h['var'] and len(cd[2]) > h['na']:
            continue
        pick = (cd, h)
        break
    reason = 'other'
    if raw:
        reason = 'raw_handler_name'
    elif pick is not None:
        (c, j, args, via), h = pick
        n = len(args)
        if via != 'method' and h['nd'] > 0 and n >= 1 and not (h['na'] == n or n <= h['nd']) and _binds(h, n, rq['keys']):
            reason = 'defaults_miscount'
    w['reason'] = reason
    if ln['k'] == 'run':
        hw = world['ctrls'][ln['c'] - 1]['hs'][ln['h'] - 1]
        w['how'] = hw['how']
        ch = world['ctrls'][ln['c'] - 1]['chan']
        rest = rq['segs'][len(ch):]
        w['shape'] = 'index_prepended' if (hw['name'] == 'index' and ln['args'].split('/')[:1] == ['index']
                                           and ln['args'].split('/')[1:len(rest) + 1] == rest) else 'other'
    return w


def without_request(tr, badline):
    """The trace without the lines of the request that failed (judged again: one finding must not hide another)."""
    lines = tr['lines']
    i = badline - 1
    while i >= 0 and lines[i]['k'] != 'req':
        i -= 1
    j = badline - 1
    while j < len(lines) and lines[j]['k'] != 'resp':
        j += 1
    if i < 0:
        return None
    rest = lines[:i] + lines[j + 1:]
    if not any(x['k'] == 'req' for x in rest):
        return None
    return {'cfg': tr['cfg'], 'lines': rest}


# --------------------------------------------------------------------------
# random larger worlds

R_CHANS = ([], ['a'], ['a', 'b'], ['b'], ['x.y'], ['index'], ['a', 'b', 'c'], ['GET'])
R_NAMES = ['index', 'a', 'b', 'c', 'f', 'x', 'GET', 'POST', 'PUT', 't.txt', 'x.y', 'ev', 'e', 'h', 'pub', 'a-b', '+q']
R_SEGS = ['a', 'b', 'c', 'f', 'x', 'index', 'GET', 'POST', 't.txt', 'x.y', 'ev', 'e', 'h', 'pub', '_p', '_m1', '_on_1', 'a-b', '+q',
          'zz', 'c d', 'é', '~', INTERNAL, 'redirect', 'stop', 'registered', 'uri', 'request', 'channel', '1']


def random_world(rnd):
    chans = [list(c) for c in rnd.sample(R_CHANS, rnd.randint(1, 4))]
    if rnd.random() < 0.8 and [] not in chans:
        chans[0] = []
    ctrls = []
    for ch in chans:
        base = rnd.random() < 0.25
        hs = []
        for name in rnd.sample(R_NAMES, rnd.randint(1, 5)):
            ident = name.isidentifier()
            hows = ['deco', 'deco', 'plain']
            if ident and not base:
                hows += ['auto'] * 6 + ['false']
            if ident and base:
                hows += ['pub']
            how = rnd.choice(hows)
            if rnd.random() < 0.08:
                how, name = 'under', '_p'
                if any(h['name'] == '_p' for h in hs):
                    continue
            if how == 'plain':
                na, nd, var, kw = 0, 0, True, True
            else:
                na = rnd.choice([0, 0, 1, 1, 2, 2, 3])
                nd = rnd.randint(0, na) if rnd.random() < 0.6 else 0
                var = rnd.random() < 0.25
                kw = rnd.random() < 0.25
            hs.append({'name': name, 'how': how, 'exp': how in ('auto', 'deco'),
                       'kind': 'expose' if how in ('auto', 'deco') else 'plain' if how == 'plain' else 'none',
                       'na': na, 'nd': nd, 'var': var, 'kw': kw})
        ctrls.append({'chan': ch, 'base': base, 'present': True, 'hs': hs})
    return {'ctrls': ctrls}


def random_script(rnd, world, nsteps):
    script = []
    n = len(world['ctrls'])
    reg = set(range(1, n + 1))
    vocab = sorted({s for c in world['ctrls'] for s in c['chan']} | {h['name'] for c in world['ctrls'] for h in c['hs']})
    for _ in range(nsteps):
        r = rnd.random()
        if r < 0.08 and reg:
            c = rnd.choice(sorted(reg))
            reg.discard(c)
            script.append(('U', c))
            continue
        if r < 0.14 and len(reg) < n:
            c = rnd.choice(sorted(set(range(1, n + 1)) - reg))
            reg.add(c)
            script.append(('R', c))
            continue
        segs = []
        if rnd.random() < 0.75:
            segs = list(rnd.choice(world['ctrls'])['chan'])
        for _ in range(rnd.choice([0, 1, 1, 1, 2, 2, 3, 4])):
            segs.append(rnd.choice(vocab) if rnd.random() < 0.6 else rnd.choice(R_SEGS))
        segs = segs[:6]
        m = rnd.choice(['GET', 'GET', 'GET', 'POST', 'PUT'])
        keys = ['p1', 'p2', 'p3', 'z', 'y']
        q = [(rnd.choice(keys), rnd.choice(['1', '2', 'v w', ''])) for _ in range(rnd.choice([0, 0, 0, 1, 1, 2]))]
        b = []
        if m in ('POST', 'PUT') and rnd.random() < 0.5:
            b = [(rnd.choice(keys), rnd.choice(['7', '8'])) for _ in range(rnd.choice([1, 1, 2]))]
            if len({k for k, _ in b}) < len(b):
                b = b[:1]
        nc = ''
        ts = rnd.random() < 0.2
        if segs and rnd.random() < 0.12:
            nc = rnd.choice(['dslash', 'dot', 'pct'])
            ts = False
            if nc == 'pct' and not (segs[-1][0].isalnum() and segs[-1][0].isascii()):
                nc = 'dslash'
        script.append(('Q', {'m': m, 'segs': segs, 'q': q, 'b': b, 'ts': ts, 'nc': nc}))
    return script


# --------------------------------------------------------------------------
# corrupted traces (binding demonstration)

def mutate_trace(rnd, tr):
    """Corrupt an accepted real trace so that it must be rejected; (trace, what) or None."""
    lines = tr['lines']
    runs = [i for i, ln in enumerate(lines) if ln['k'] == 'run']
    resps = [i for i, ln in enumerate(lines) if ln['k'] == 'resp']
    if not resps:
        return None
    out = [dict(ln) for ln in lines]
    hows = ['status200']
    if runs:
        hows += ['twice', 'args', 'status', 'norun', 'unexposed', 'unregistered']
    how = rnd.choice(hows)
    if how == 'status200':
        cand = [i for i in resps if lines[i]['st'] != 200]
        if not cand:
            return None
        out[rnd.choice(cand)]['st'] = 200
        return {'cfg': tr['cfg'], 'lines': out}, 'error answer -> 200'
    i = rnd.choice(runs)
    if how == 'twice':
        out.insert(i, dict(out[i]))
        return {'cfg': tr['cfg'], 'lines': out}, 'run line doubled'
    if how == 'args':
        out[i]['args'] = (out[i]['args'] + '/zz') if out[i]['args'] else 'zz/zz/zz/zz/zz/zz/zz'
        return {'cfg': tr['cfg'], 'lines': out}, 'argument added'
    if how == 'status':
        j = min(k for k in resps if k > i)
        out[j]['st'] = 404
        return {'cfg': tr['cfg'], 'lines': out}, '200 -> 404 after a run'
    if how == 'norun':
        del out[i]
        return {'cfg': tr['cfg'], 'lines': out}, 'run line dropped'
    if how == 'unexposed':
        hs = tr['cfg']['ctrls'][out[i]['c'] - 1]['hs']
        un = [j for j, h in enumerate(hs, 1) if not h['exp']]
        if not un:
            return None
        out[i]['h'] = rnd.choice(un)
        return {'cfg': tr['cfg'], 'lines': out}, 'run of an unexposed method'
    if how == 'unregistered':
        c = out[i]['c']
        out.insert(max(k for k in range(i) if out[k]['k'] == 'req'), line('unreg', c=c))
        return {'cfg': tr['cfg'], 'lines': out}, 'run in an unregistered controller'
    return None


# --------------------------------------------------------------------------

def _maximal(states):
    hists = {}
    for st in states:
        h = st['hist']
        hists[tlaval._hashable(h)] = (h, st.get('out'))
    keys = set(hists)
    prefixes = set()
    for k in keys:
        for i in range(len(k)):
            prefixes.add(k[:i])
    return [hists[k] for k in sorted(keys - prefixes, key=repr)]


def _with_devs(src, dst, present):
    with open(src) as f:
        text = f.read()
    if '  Devs = {}\n' not in text:
        raise tlc.MachineryError('no Devs line in %s' % src)
    with open(dst, 'w') as f:
        f.write(text.replace('  Devs = {}\n', '  Devs = {%s}\n' % ', '.join('"%s"' % d for d in present)))


def run_replay(path):
    rec = json.load(open(path))
    d = rec['detail']
    script = [(s[0], s[1]) for s in d['script']]
    for s in script:
        if s[0] == 'Q':
            s[1]['q'] = [tuple(x) for x in s[1]['q']]
            s[1]['b'] = [tuple(x) for x in s[1]['b']]
    tr, notes = run_script(d['world'], script)
    verdicts, _ = tlc.validate_traces(SPEC, 'RoutingTrace', 'RoutingTrace.cfg', [tr], shards=1)
    clause, ln = verdicts[0]
    for ci, c in enumerate(d['world']['ctrls'], 1):
        if c.get('present', True):
            print(class_source(ci, c))
    for i, r in enumerate(tr['cfg']['reqs'], 1):
        print('request %d: %s' % (i, r))
    for i, x in enumerate(tr['lines'], 1):
        print('%3d %s' % (i, x))
    if clause:
        print('VIOLATION property=%s replay=%s clause=%s line=%d' % (PID, path, clause, ln))
        return 1
    print('replay accepted: no clause of X01 fails on this tree')
    return 0


def run(tier, replay=None):
    use_repo()
    if replay:
        return run_replay(replay)
    ctx = Ctx(PID, tier)
    t0 = time.time()

    def tick(what):
        if os.environ.get('VERIF_TIMING'):
            print('[%6.1fs] %s' % (time.time() - t0, what))
    rnd = random.Random(ctx.seed * 7919 + 101)
    quick = tier == 'quick'
    sfx = '' if quick else '_thorough'
    jq = ('-Xmx3g', '-XX:ParallelGCThreads=2')
    # short-lived JVMs (deviation runs, dumps, trace validation): C1 only, they end before C2 pays off
    js = jq + (('-XX:TieredStopAtLevel=1',) if quick else ())
    to = 600 if quick else 2400

    # 1. exhaustive model checks + deviation generators, in parallel JVMs
    mc_cfgs = ['MC_Routing%s.cfg' % sfx, 'MC_Routing_dyn%s.cfg' % sfx]
    pool = ThreadPoolExecutor(max_workers=8)
    dev_futs = {d: pool.submit(tlc.run_tlc, SPEC, 'Routing', 'DEV_Routing_%s.cfg' % d, workers=1, jvm_opts=js, timeout=to)
                for d in DEVS}
    mc_futs = [pool.submit(tlc.model_check, SPEC, 'Routing', c, workers=6, jvm_opts=jq, timeout=to) for c in mc_cfgs]
    try:
        devs = {d: f.result() for d, f in dev_futs.items()}
        table = parse_templates(next(iter(devs.values())).out)
        tick('deviation runs done')

        # 1b. teeth + which deviations the tree under test has
        cex = []
        dev_clause = {}
        for d, r in devs.items():
            if r.violated != 'Conforms' or not r.error_trace:
                raise tlc.MachineryError('deviation %s of Routing.tla no longer violates the statement (%s): the model lost its teeth'
                                         % (d, r.violated))
            last = r.error_trace[-1][1]
            dev_clause[d] = last['bad']
            world, script = realise(table, last['hist'])
            tr, notes = run_script(world, script)
            cex.append((d, world, script, tr, model_lines(last['out'])))
        # a tree has the deviation iff it behaves on the counterexample line for line like the deviating model (TLC judges
        # these traces with all the others below: its verdict must then be the deviation's clause)
        present = sorted(d for d, _, _, tr, mout in cex if tr['lines'] == mout)
        tick('deviations present in the tree under test: %s' % present)

        # 2. every environment history of the small configurations, for the model variant that matches the tree
        hist_cfgs = ['one', 'kw', 'spell', 'dyn']
        wd = tlc.workdir('x01cfg')
        try:
            def do_hist(c):
                dst = os.path.join(wd, 'HIST_%s.cfg' % c)
                _with_devs(os.path.join(VERIF, SPEC, 'HIST_Routing_%s%s.cfg' % (c, sfx)), dst, present)
                res, states = tlc.dump_states(SPEC, 'Routing', dst, workers=2 if quick else 4, jvm_opts=js, timeout=to)
                return c, (res, _maximal(states))
            hists = dict(pool.map(do_hist, hist_cfgs))
        finally:
            shutil.rmtree(wd, ignore_errors=True)
        tick('history dumps done: ' + ', '.join('%s=%d states/%d maximal' % (c, h[0].distinct, len(h[1])) for c, h in hists.items()))
        mcs = [f.result() for f in mc_futs]
        tick('model checks done: ' + ', '.join('%d states/%d transitions/%.0fs' % (r.distinct, r.generated, r.wall_s) for r in mcs))
    finally:
        pool.shutdown(wait=True)

    # every action of the model is taken somewhere (TLC's -coverage is unusable on this module: it runs out of memory)
    ops = {e['op'] for c in hists for h, _ in hists[c][1] for e in h}
    if not {'W', 'U', 'R', 'Q'} <= ops:
        raise tlc.MachineryError('vacuous model: only the actions %s occur in the dumped histories' % sorted(ops))

    items = []        # (meta, world, trace)
    compare = {}
    for d, world, script, tr, mout in cex:
        items.append(({'origin': 'tlc-counterexample:' + d, 'script': script}, world, tr))
        if d in present:
            compare[len(items) - 1] = mout
    n_hist = 0
    for c in hist_cfgs:
        for h, mout in hists[c][1]:
            world, script = realise(table, h)
            tr, notes = run_script(world, script)
            items.append(({'origin': 'tlc-history:' + c, 'script': script, 'notes': notes}, world, tr))
            compare[len(items) - 1] = model_lines(mout)
            n_hist += 1
    tick('histories replayed: %d' % n_hist)

    # 3. seeded random larger worlds
    nworlds = 150 if quick else 3000
    for i in range(nworlds):
        world = random_world(rnd)
        for _ in range(2):
            script = random_script(rnd, world, rnd.randint(4, 12 if quick else 20))
            tr, notes = run_script(world, script)
            items.append(({'origin': 'random', 'script': script, 'notes': notes}, world, tr))
    tick('random worlds done: %d items' % len(items))

    # model lines vs real lines
    n_match = 0
    for idx, mout in compare.items():
        real = items[idx][2]['lines']
        if real == mout:
            n_match += 1
        else:
            k = next((j for j in range(min(len(real), len(mout))) if real[j] != mout[j]), min(len(real), len(mout)))
            ctx.note_drift('%s: line %d is %s on the real code, %s in the model (world %s, script %s)' % (
                items[idx][0]['origin'], k + 1, real[k] if k < len(real) else None, mout[k] if k < len(mout) else None,
                [c['hs'] and [h['name'] for h in c['hs']] for c in items[idx][1]['ctrls']], items[idx][0]['script']))

    # 4. TLC judges every recorded trace; a rejected trace is judged again without the request that failed
    shards = 4 if quick else 12
    verdicts, stats = tlc.validate_traces(SPEC, 'RoutingTrace', 'RoutingTrace.cfg', [it[2] for it in items],
                                          shards=shards, jvm_opts=js)
    tick('traces judged')
    for i, (d, _, _, _, _) in enumerate(cex):
        if (verdicts[i][0] == dev_clause[d]) != (d in present):
            raise tlc.MachineryError('deviation %s: the tree %s like the deviating model on the counterexample, but TLC says %r '
                                     'about its trace (the model says %s)' % (d, 'behaves' if d in present else 'does not behave',
                                                                               verdicts[i][0], dev_clause[d]))
    accepted = []
    nreq = 0
    again = []
    for (meta, world, tr), (clause, ln) in zip(items, verdicts):
        nq = len(tr['cfg']['reqs'])
        nreq += nq
        ran = any(x['k'] == 'run' for x in tr['lines'])
        ctx.count_case([world, meta['script']], ran,
                       sample={'origin': meta['origin'], 'requests': tr['cfg']['reqs'][:3], 'lines': tr['lines'][:8],
                               'verdict': clause or 'accepted'})
        if 'not-quiescent' in meta.get('notes', ()):
            ctx.violation('X01.no_response', {'reason': 'not_quiescent'},
                          {'world': world, 'script': meta['script'], 'trace': tr['lines']})
        elif clause:
            ctx.violation(clause, witness_of(world, tr, ln, clause),
                          {'world': world, 'script': meta['script'], 'trace': tr['lines'], 'line': ln, 'origin': meta['origin']})
            again.append((meta, world, tr, ln))
        else:
            accepted.append(tr)
    rounds = 0
    while again and rounds < (2 if quick else 8):
        rounds += 1
        batch = []
        for meta, world, tr, ln in again:
            t2 = without_request(tr, ln)
            if t2 is not None:
                batch.append((meta, world, t2))
        if not batch:
            break
        v2, st2 = tlc.validate_traces(SPEC, 'RoutingTrace', 'RoutingTrace.cfg', [b[2] for b in batch],
                                      shards=min(shards, 1 + len(batch) // 400), jvm_opts=js)
        stats['states'] += st2['states']
        again = []
        for (meta, world, tr), (clause, ln) in zip(batch, v2):
            if clause:
                ctx.violation(clause, witness_of(world, tr, ln, clause),
                              {'world': world, 'script': meta['script'], 'trace': tr['lines'], 'line': ln,
                               'origin': meta['origin'], 'note': 'lines of requests that failed earlier in this script are removed'})
                again.append((meta, world, tr, ln))
    tick('rejected traces judged again: %d rounds' % rounds)

    # 5. corrupted real traces must be rejected
    muts = []
    order = list(range(len(accepted)))
    rnd.shuffle(order)
    for i in order:
        if len(muts) >= (120 if quick else 600):
            break
        m = mutate_trace(rnd, accepted[i])
        if m:
            muts.append(m)
    if muts:
        mv, _ = tlc.validate_traces(SPEC, 'RoutingTrace', 'RoutingTrace.cfg', [m[0] for m in muts], shards=2 if quick else 4, jvm_opts=js)
        missed = [muts[i][1] for i, (c, _) in enumerate(mv) if not c]
        if missed:
            raise tlc.MachineryError('trace spec accepted %d corrupted traces, e.g. %s' % (len(missed), missed[0]))
    else:
        raise tlc.MachineryError('no accepted trace to corrupt')
    tick('corrupted traces rejected: %d' % len(muts))

    return ctx.finish(coverage={
        'states': sum(r.distinct for r in mcs), 'transitions': sum(r.generated for r in mcs),
        'traces_validated_against_impl': len(items),
        'requests_replayed': nreq,
        'model_histories_replayed': n_hist,
        'history_dump_states': sum(h[0].distinct for h in hists.values()),
        'model_line_exact_match': n_match, 'model_line_compared': len(compare),
        'trace_validation_states': stats['states'],
        'corrupted_traces_rejected': len(muts),
        'deviations_with_teeth': dev_clause,
        'deviations_present_in_tree': present,
        'rule': 'cases = (world = controller classes per channel, script of register / unregister / request steps); from every '
                'maximal environment history TLC dumps for three small configurations of Routing.tla, the counterexamples of '
                'the three deviation variants, plus seeded random worlds x 2 scripts; non-trivial = at least one handler '
                'body ran; distinct by hash of (world, script)',
        'exhaustive': False,
    }, assumptions=[
        'controllers have distinct channels; one exposed handler per name and controller; handlers return text',
        'requests enter through the real HTTP component fed with bytes (harness/httpdouble.py), no sockets; one request per connection',
        'controller classes are generated from the handler tables (exec of class source): real Python signatures, real expose/handler decorators',
        'JSONController/exposeJSON, the other dispatchers (Static, VirtualHosts, XMLRPC, JSONRPC, WebSockets) and multipart bodies are outside the model',
    ])
