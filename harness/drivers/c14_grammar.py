"""C14 - mutation grammar: input *classes* of HttpConn.tla -> concrete byte strings.

Every class of the model is realised by several concrete mutants built from
well-formed base requests.  A realisation is a `Msg`:

    cls    the model's class ("GoodKA", "GoodClose", "BadLine", "BadHeader", "BadCL",
           "BadChunk", "BadEscape", "Nul", "TlsHello", "Truncate", "Rest")
    sub    which mutant of the class (named after the parser branch it aims at)
    cls    ... "TlsCut" = a proper prefix of a TLS / SSLv2 client hello (wf "partial")
    wf     "good"     an unmodified base request, delivered completely
           "hostile"  syntactically a well-formed HTTP/1.x request (RFC 7230 grammar)
                      that is unusual / oversized / not canonical: the property does
                      not say how it must be answered
           "mal"      violates the RFC 7230 grammar or is not HTTP at all
           "badlen"   Content-Length is not a number / empty / has two different values: to be
                      refused with 4xx/5xx, in one piece and when only the header block has arrived
                      (negative values, "+11", "1_1" are dispatched by the code under test and left
                      open: wf "mal")
           "unsup"    a request of another major HTTP version (HTTP/2.0, HTTP/0.9): unsupported
                      input, to be refused with 4xx/5xx whatever leniency the parser has
           "partial"  a proper prefix of a base request (Truncate) - the rest may follow
    data   the bytes (delivered as one read event)
    rest   for Truncate: the remainder of the base request (class "Rest" delivers it)
    want   "METHOD target" of the request the message asks for when that is beyond doubt
           (unmodified base requests, their prefixes and remainders), else ""
    method "HEAD" when the message is a HEAD request (its response has no body)

The table SUBS is the grammar: class -> [(sub, wf, builder)].  Builders are pure
functions of (base request, seeded random.Random); nothing depends on time.
"""

import random
from collections import namedtuple

Msg = namedtuple('Msg', 'cls sub wf data rest base want method', defaults=('', 'GET'))

CRLF = b'\r\n'


class Base:
    """A well-formed request in pieces, so that mutations can address the parts."""

    def __init__(self, name, method, target, version, headers, body=b'', keeps=True):
        self.name = name
        self.method = method
        self.target = target
        self.version = version
        self.headers = list(headers)          # [(name, value)]
        self.body = body
        self.keeps = keeps                    # the connection stays open after the response

    def build(self, method=None, target=None, version=None, headers=None, body=None, line=None, rawheaders=None):
        m = self.method if method is None else method
        t = self.target if target is None else target
        v = self.version if version is None else version
        first = line if line is not None else b' '.join([m, t, v])
        if rawheaders is None:
            hs = self.headers if headers is None else headers
            rawheaders = b''.join(n + b': ' + val + CRLF for n, val in hs)
        return first + CRLF + rawheaders + CRLF + (self.body if body is None else body)

    @property
    def data(self):
        return self.build()

    def with_header(self, name, value, replace=True):
        hs = [(n, v) for n, v in self.headers if not (replace and n.lower() == name.lower())]
        return hs + [(name, value)]


H = (b'Host', b'verif.example')
CHUNKED_BODY = b'5\r\nhello\r\n6;ext=1\r\n world\r\n0\r\n\r\n'
CHUNKED_TRAILERS = b'5;ext="a b"\r\nhello\r\n6\r\n world\r\n0;last\r\nX-Trailer: one\r\nX-Other: two\r\n\r\n'

BASES = [
    Base('get11', b'GET', b'/get11?a=1&b=two', b'HTTP/1.1', [H]),
    Base('get11hdrs', b'GET', b'/get11hdrs', b'HTTP/1.1',
         [H, (b'User-Agent', b'verif/1.0 (c14)'), (b'Accept', b'text/html, */*;q=0.8'),
          (b'X-Folded', b'first\r\n\tsecond part'), (b'Cookie', b'sid=abc123; theme=dark'), (b'Accept-Language', b'en')]),
    Base('get10ka', b'GET', b'/get10ka', b'HTTP/1.0', [H, (b'Connection', b'keep-alive')]),
    Base('postcl', b'POST', b'/postcl', b'HTTP/1.1',
         [H, (b'Content-Type', b'text/plain'), (b'Content-Length', b'11')], b'hello world'),
    Base('postchunked', b'POST', b'/postchunked', b'HTTP/1.1',
         [H, (b'Content-Type', b'text/plain'), (b'Transfer-Encoding', b'chunked')], CHUNKED_BODY),
    Base('postchunkedtr', b'POST', b'/postchunkedtr', b'HTTP/1.1',
         [H, (b'Transfer-Encoding', b'chunked'), (b'Trailer', b'X-Trailer, X-Other')], CHUNKED_TRAILERS),
    Base('get11close', b'GET', b'/get11close', b'HTTP/1.1', [H, (b'Connection', b'close')], keeps=False),
    Base('get10', b'GET', b'/get10', b'HTTP/1.0', [], keeps=False),
    Base('postclclose', b'POST', b'/postclclose', b'HTTP/1.1',
         [H, (b'Connection', b'close'), (b'Content-Length', b'5')], b'12345', keeps=False),
]
BASE = {b.name: b for b in BASES}
KEEP_BASES = [b for b in BASES if b.keeps]
CLOSE_BASES = [b for b in BASES if not b.keeps]
BODY_BASES = [BASE['postcl'], BASE['postclclose']]
# HEAD requests (kept out of BASES: the mutants are not built from them)
HEAD_BASES = [
    Base('head11', b'HEAD', b'/head11', b'HTTP/1.1', [H]),
    Base('head10ka', b'HEAD', b'/head10ka?x=1', b'HTTP/1.0', [H, (b'Connection', b'keep-alive')]),
]
BASE.update({b.name: b for b in HEAD_BASES})


def want_of(b):
    return (b.method + b' ' + b.target).decode('ascii')


def _pick(rnd, seq):
    return seq[rnd.randrange(len(seq))]


# ---------------------------------------------------------------------------
# builders: (base, rnd) -> bytes

def _line(fn):
    return lambda b, r: b.build(line=fn(b, r))


def _hdr(fn, keep_host=True):
    """fn -> raw header line(s) inserted at a random position among the base's headers."""
    def build(b, r):
        lines = [n + b': ' + v + CRLF for n, v in b.headers]
        bad = fn(b, r)
        pos = r.randrange(len(lines) + 1) if lines else 0
        lines.insert(pos, bad)
        return b.build(rawheaders=b''.join(lines))
    return build


def _cl(values):
    """Content-Length header(s) replaced by `values` (body of the base kept)."""
    def build(b, r):
        hs = [(n, v) for n, v in b.headers if n.lower() != b'content-length']
        vals = values(r) if callable(values) else values
        return b.build(headers=hs + [(b'Content-Length', v) for v in vals])
    return build


def _chunks(fn):
    def build(b, r):
        return BASE['postchunked'].build(body=fn(r))
    return build


def _target(fn):
    return lambda b, r: b.build(target=fn(b, r))


def _tls_record(r, minor, hello_version=b'\x03\x03', with_crlf=False, with_esc=False):
    rand = bytes(r.randrange(256) for _ in range(32))
    if not with_esc:
        rand = rand.replace(b'\\', b'/')           # a backslash may start an escape the first-line decoder refuses
    if with_crlf:
        rand = rand[:10] + b'\r\n' + rand[12:22] + b'\r\n\r\n' + rand[26:]
        if with_esc:
            rand = rand[:4] + b'\\x' + rand[6:]
    else:
        rand = rand.replace(b'\r', b'\x11').replace(b'\n', b'\x12')
    sid = bytes(r.randrange(1, 256) for _ in range(32)).replace(b'\r', b'\x11').replace(b'\n', b'\x12').replace(b'\\', b'/')
    suites = b'\x13\x01\x13\x02\xc0\x2f\xc0\x30\x00\x9c\x00\x2f\x00\x35'
    ext = b'\x00\x00\x00\x12\x00\x10\x00\x00\x0dverif.example' + b'\x00\x2b\x00\x03\x02\x03\x04'
    body = hello_version + rand + bytes([len(sid)]) + sid + len(suites).to_bytes(2, 'big') + suites + b'\x01\x00' + \
        len(ext).to_bytes(2, 'big') + ext
    hs = b'\x01' + len(body).to_bytes(3, 'big') + body
    return b'\x16\x03' + bytes([minor]) + len(hs).to_bytes(2, 'big') + hs


def _sslv2_hello(r):
    chal = bytes(r.randrange(256) for _ in range(16)).replace(b'\r', b'\x11').replace(b'\n', b'\x12')
    specs = b'\x07\x00\xc0\x05\x00\x80\x03\x00\x80\x01\x00\x80'
    body = b'\x01\x00\x02' + len(specs).to_bytes(2, 'big') + b'\x00\x00' + len(chal).to_bytes(2, 'big') + specs + chal
    return bytes([0x80 | (len(body) >> 8), len(body) & 0xff]) + body


def _nul_at(part):
    def build(b, r):
        if part == 'method':
            return b.build(method=b.method[:1] + b'\x00' + b.method[1:])
        if part == 'target':
            return b.build(target=b.target[:1] + b'\x00' + b.target[1:])
        if part == 'version':
            return b.build(version=b'HTTP/1.\x001')
        if part == 'hname':
            return _hdr(lambda b_, r_: b'X-N\x00ul: 1\r\n')(b, r)
        if part == 'hvalue':
            return _hdr(lambda b_, r_: b'X-Nul: a\x00b\r\n')(b, r)
        if part == 'host':
            return b.build(headers=b.with_header(b'Host', b'verif\x00.example'))
        if part == 'body':
            return BASE['postcl'].build(body=b'hello\x00world')
        if part == 'leading':
            return b'\x00' * r.choice([1, 2, 7]) + b.data
        if part == 'only':
            return b'\x00' * r.choice([1, 4, 64, 5000])
        if part == 'onlycrlf':
            return b'\x00' * r.choice([1, 4, 64]) + CRLF + CRLF
        raise AssertionError(part)
    return build


def _any_base(r):
    return _pick(r, BASES)


SUBS = {
    'BadLine': [
        ('noversion', 'mal', _line(lambda b, r: b.method + b' ' + b.target)),
        ('methodonly', 'mal', _line(lambda b, r: b.method)),
        ('emptyline', 'mal', lambda b, r: CRLF + CRLF),
        ('method_at', 'mal', _line(lambda b, r: b'G@T ' + b.target + b' ' + b.version)),
        ('method_ctl', 'mal', _line(lambda b, r: b'GE\x7fT ' + b.target + b' ' + b.version)),
        ('method_paren', 'mal', _line(lambda b, r: b'GET(1) ' + b.target + b' ' + b.version)),
        ('method_lower', 'hostile', _line(lambda b, r: b.method.lower() + b' ' + b.target + b' ' + b.version)),
        ('method_long', 'hostile', _line(lambda b, r: b'M' * r.choice([21, 64, 5000]) + b' ' + b.target + b' ' + b.version)),
        ('method_unknown', 'hostile', _line(lambda b, r: b'BREW ' + b.target + b' ' + b.version)),
        ('spaces_extra', 'mal', _line(lambda b, r: b.method + b'  ' + b.target + b'  ' + b.version)),
        ('space_in_target', 'mal', _line(lambda b, r: b.method + b' /a b c ' + b.version)),
        ('tab_sep', 'mal', _line(lambda b, r: b.method + b'\t' + b.target + b'\t' + b.version)),
        ('leading_space', 'mal', _line(lambda b, r: b' ' + b.method + b' ' + b.target + b' ' + b.version)),
        ('target_long', 'hostile', _line(lambda b, r: b.method + b' /' + b'a' * r.choice([9000, 70000, 300000]) + b' ' + b.version)),
        ('version_x', 'mal', _line(lambda b, r: b.method + b' ' + b.target + b' HTTP/1.x')),
        ('version_nodot', 'mal', _line(lambda b, r: b.method + b' ' + b.target + b' HTTP/11')),
        ('version_name', 'mal', _line(lambda b, r: b.method + b' ' + b.target + b' HTPP/1.1')),
        ('version_2', 'unsup', _line(lambda b, r: b.method + b' ' + b.target + b' HTTP/2.0')),
        ('version_09', 'unsup', _line(lambda b, r: b.method + b' ' + b.target + b' HTTP/0.9')),
        ('version_12', 'hostile', _line(lambda b, r: b.method + b' ' + b.target + b' HTTP/1.2')),
        ('version_12_badheader', 'mal', lambda b, r: b.build(version=b'HTTP/1.2', rawheaders=b'Host: verif.example\r\nX-Foo\r\n')),
        ('version_2_badheader', 'mal', lambda b, r: b.build(version=b'HTTP/2.0', rawheaders=b'Host: verif.example\r\nX-Foo\r\n')),
        ('version_09_badheader', 'mal', lambda b, r: b.build(version=b'HTTP/0.9', rawheaders=b'Host: verif.example\r\nX-Foo\r\n')),
        ('version_3_nohost', 'unsup', lambda b, r: BASE['get11'].build(version=b'HTTP/3.0', headers=[(b'Accept', b'*/*')])),
        ('version_1_380_badheader', 'mal', lambda b, r: b.build(version=b'HTTP/1.380', rawheaders=b'Host: verif.example\r\nX-Foo\r\n')),
        ('version_big', 'unsup', _line(lambda b, r: b.method + b' ' + b.target + b' HTTP/' + b'9' * 40 + b'.1')),
        ('version_trailing', 'mal', _line(lambda b, r: b.method + b' ' + b.target + b' ' + b.version + b' extra')),
        ('fragment', 'mal', _line(lambda b, r: b.method + b' /page#frag ' + b.version)),
        ('leading_crlf', 'hostile', lambda b, r: CRLF + b.data),
        ('lf_only', 'hostile', lambda b, r: b.data.replace(CRLF, b'\n')),
        ('cr_only', 'mal', lambda b, r: b.data.replace(CRLF, b'\r')),
        ('asterisk', 'hostile', _line(lambda b, r: b'OPTIONS * ' + b.version)),
        ('absolute_form', 'hostile', _line(lambda b, r: b.method + b' http://verif.example' + b.target + b' ' + b.version)),
        ('authority_form', 'hostile', _line(lambda b, r: b'CONNECT verif.example:443 ' + b.version)),
        ('scheme_only', 'mal', _line(lambda b, r: b.method + b' http:// ' + b.version)),
        ('bad_ipv6', 'mal', _line(lambda b, r: b.method + b' http://[::1/x ' + b.version)),
        ('status_line', 'mal', _line(lambda b, r: b'HTTP/1.1 200 OK')),
        ('garbage_text', 'mal', lambda b, r: bytes(r.choice(b'abcdefghijklmnopqrstuvwxyz /.:') for _ in range(r.choice([5, 40, 400]))) + CRLF + CRLF),
        ('garbage_bin', 'mal', lambda b, r: bytes(r.choice([x for x in range(1, 256) if x not in (10, 13, 0x16) and x < 0x80])
                                                  for _ in range(r.choice([5, 40, 400]))) + CRLF + CRLF),
    ],
    'BadHeader': [
        ('nocolon', 'mal', _hdr(lambda b, r: b'X-Foo\r\n')),
        ('nocolon_first', 'mal', lambda b, r: b.build(rawheaders=b'X-Foo\r\n' + b''.join(n + b': ' + v + CRLF for n, v in b.headers))),
        ('name_space', 'mal', _hdr(lambda b, r: b'X Foo: 1\r\n')),
        ('name_paren', 'mal', _hdr(lambda b, r: b'X(Foo): 1\r\n')),
        ('name_ctl', 'mal', _hdr(lambda b, r: b'X\x01Foo: 1\r\n')),
        ('name_empty', 'mal', _hdr(lambda b, r: b': novalue\r\n')),
        ('name_space_before_colon', 'mal', _hdr(lambda b, r: b'X-Foo : 1\r\n')),
        ('name_nonascii', 'mal', _hdr(lambda b, r: b'X-F\xc3\xb6\xc3\xb6: 1\r\n')),
        ('fold_first', 'mal', lambda b, r: b.build(rawheaders=b' folded: 1\r\n' + b''.join(n + b': ' + v + CRLF for n, v in b.headers))),
        ('value_huge', 'hostile', _hdr(lambda b, r: b'X-Big: ' + b'v' * r.choice([9000, 70000, 300000]) + CRLF)),
        ('name_huge', 'hostile', _hdr(lambda b, r: b'X-' + b'n' * r.choice([9000, 70000]) + b': 1\r\n')),
        ('too_many', 'hostile', _hdr(lambda b, r: b''.join(b'X-H%d: %d\r\n' % (i, i) for i in range(r.choice([150, 2000]))))),
        ('bare_cr', 'mal', _hdr(lambda b, r: b'X-Cr: a\rb\r\n')),
        ('bare_lf', 'mal', _hdr(lambda b, r: b'X-Lf: a\nInjected: 1\r\n')),
        ('value_latin1', 'hostile', _hdr(lambda b, r: b'X-Latin: caf\xe9\r\n')),
        ('value_utf8', 'hostile', _hdr(lambda b, r: b'X-Utf8: caf\xc3\xa9 \xe2\x82\xac\r\n')),
        ('value_backslash_x', 'hostile', _hdr(lambda b, r: b'X-Esc: C:\\xampp\\new\r\n')),
        ('value_backslash_N', 'hostile', _hdr(lambda b, r: b'X-Esc: \\N{nonexistent character}\r\n')),
        ('value_backslash_u', 'hostile', _hdr(lambda b, r: b'X-Esc: \\u12 \\U0011ffff\r\n')),
        ('value_backslash_end', 'hostile', _hdr(lambda b, r: b'X-Esc: ends with \\\r\n')),
        ('host_badport', 'mal', lambda b, r: b.build(headers=b.with_header(b'Host', b'verif.example:http'))),
        ('host_emptyport', 'hostile', lambda b, r: b.build(headers=b.with_header(b'Host', b'verif.example:'))),
        ('host_hugeport', 'mal', lambda b, r: b.build(headers=b.with_header(b'Host', b'verif.example:' + b'9' * 30))),
        ('host_ipv6', 'hostile', lambda b, r: b.build(headers=b.with_header(b'Host', b'[::1]:8000'))),
        ('host_bad_ipv6', 'mal', lambda b, r: b.build(headers=b.with_header(b'Host', b'[::1'))),
        ('host_space', 'mal', lambda b, r: b.build(headers=b.with_header(b'Host', b'verif example'))),
        ('host_twice', 'mal', lambda b, r: b.build(headers=b.with_header(b'Host', b'other.example', replace=False))),
        ('host_empty', 'hostile', lambda b, r: b.build(headers=b.with_header(b'Host', b''))),
        ('host_missing_11', 'mal', lambda b, r: BASE['get11'].build(headers=[(b'Accept', b'*/*')])),
        ('host_slash', 'mal', lambda b, r: b.build(headers=b.with_header(b'Host', b'verif.example/../x'))),
        ('cookie_crlf_escape', 'hostile', _hdr(lambda b, r: b'Cookie: a="x\\x0d\\x0aC14-Injected: 1"\r\n')),
        ('cookie_crlf_escape_nohost', 'mal', lambda b, r: BASE['get11'].build(headers=[(b'Cookie', b'a="x\\r\\nC14-Injected: 1"; b=2')])),
        ('cookie_crlf_octal', 'hostile', _hdr(lambda b, r: b'Cookie: a="x\\015\\012C14-Injected: 1"\r\n')),
        ('cookie_euro_escape', 'hostile', _hdr(lambda b, r: b'Cookie: a="\\u20ac"\r\n')),
        ('cookie_euro_escape_nohost', 'mal', lambda b, r: BASE['get11'].build(headers=[(b'Cookie', b'sid="\\u0100\\u20ac"')])),
        ('cookie_utf8_raw', 'hostile', _hdr(lambda b, r: b'Cookie: a="\xe2\x82\xac"; b=\xc3\xa9\r\n')),
        ('cookie_latin1_raw', 'hostile', _hdr(lambda b, r: b'Cookie: a=caf\xe9\r\n')),
        ('cookie_nul_escape', 'hostile', _hdr(lambda b, r: b'Cookie: a="x\\x00y"; b="\\x7f"\r\n')),
        ('cookie_bad', 'hostile', _hdr(lambda b, r: b'Cookie: a b=c; =; ;;"\x01=\\\r\n')),
        ('cookie_illegal_key', 'hostile', _hdr(lambda b, r: b'Cookie: ke[y]=v; expires=x; $Version=1; path\r\n')),
        ('te_unknown', 'hostile', lambda b, r: BASE['postcl'].build(headers=BASE['postcl'].with_header(b'Transfer-Encoding', b'gzip, chunked'))),
        ('ce_gzip_garbage', 'hostile', lambda b, r: BASE['postcl'].build(headers=BASE['postcl'].with_header(b'Content-Encoding', b'gzip'))),
        ('ce_deflate_garbage', 'hostile', lambda b, r: BASE['postcl'].build(headers=BASE['postcl'].with_header(b'Content-Encoding', b'deflate'))),
        ('expect_100', 'hostile', lambda b, r: BASE['postcl'].build(headers=BASE['postcl'].with_header(b'Expect', b'100-continue'))),
        ('connection_garbage', 'hostile', lambda b, r: b.build(headers=b.with_header(b'Connection', b'close, keep-alive, ,\x7f'))),
        ('only_colon_lines', 'mal', lambda b, r: b.build(rawheaders=b':\r\n:\r\n')),
    ],
    'BadCL': [
        ('nonnumeric', 'badlen', _cl([b'abc'])),
        ('float', 'badlen', _cl([b'11.0'])),
        ('exp', 'badlen', _cl([b'1e1'])),
        ('hex', 'badlen', _cl([b'0xb'])),
        ('empty', 'badlen', _cl([b''])),
        ('plus', 'mal', _cl([b'+11'])),
        ('underscore', 'mal', _cl([b'1_1'])),
        ('unicode_digit', 'badlen', _cl([b'\xd9\xa1\xd9\xa1'])),
        ('spaces_inside', 'badlen', _cl([b'1 1'])),
        ('negative', 'mal', _cl([b'-5'])),
        ('negative_one', 'mal', _cl([b'-1'])),
        ('negative_huge', 'mal', _cl([b'-' + b'9' * 25])),
        ('huge', 'hostile', _cl([b'9' * 25])),
        ('too_small', 'hostile', _cl([b'3'])),
        ('dup_conflict', 'badlen', _cl([b'5', b'7'])),
        ('dup_conflict_rev', 'badlen', _cl([b'11', b'0'])),
        ('dup_same', 'hostile', _cl([b'11', b'11'])),
        ('list_conflict', 'badlen', _cl([b'11, 12'])),
        ('trailing_x', 'badlen', _cl([b'5x'])),
        ('dup_56', 'badlen', _cl([b'5', b'6'])),
        ('with_chunked', 'mal', lambda b, r: BASE['postchunked'].build(headers=BASE['postchunked'].with_header(b'Content-Length', b'4', replace=False))),
        ('on_get_nonnumeric', 'badlen', lambda b, r: BASE['get11'].build(headers=BASE['get11'].with_header(b'Content-Length', b'none'))),
        ('on_get_negative', 'mal', lambda b, r: BASE['get11'].build(headers=BASE['get11'].with_header(b'Content-Length', b'-0'))),
    ],
    'BadChunk': [
        ('size_nonhex', 'mal', _chunks(lambda r: b'zz\r\nhello\r\n0\r\n\r\n')),
        ('size_negative', 'mal', _chunks(lambda r: b'-5\r\nhello\r\n0\r\n\r\n')),
        ('size_empty', 'mal', _chunks(lambda r: b'\r\nhello\r\n0\r\n\r\n')),
        ('size_0x', 'mal', _chunks(lambda r: b'0x5\r\nhello\r\n0\r\n\r\n')),
        ('size_plus', 'mal', _chunks(lambda r: b'+5\r\nhello\r\n0\r\n\r\n')),
        ('size_huge', 'hostile', _chunks(lambda r: b'f' * 40 + b'\r\nhello\r\n0\r\n\r\n')),
        ('size_space', 'mal', _chunks(lambda r: b'5 5\r\nhello\r\n0\r\n\r\n')),
        ('second_bad', 'mal', _chunks(lambda r: b'5\r\nhello\r\nxyz\r\nworld\r\n0\r\n\r\n')),
        ('no_crlf_after_data', 'mal', _chunks(lambda r: b'5\r\nhelloXX6\r\n world\r\n0\r\n\r\n')),
        ('data_short', 'mal', _chunks(lambda r: b'9\r\nhello\r\n0\r\n\r\n')),
        ('data_long', 'mal', _chunks(lambda r: b'2\r\nhello\r\n0\r\n\r\n')),
        ('ext_garbage', 'mal', _chunks(lambda r: b'5;\x00\x01=\r\nhello\r\n0\r\n\r\n')),
        ('trailer_bad', 'mal', _chunks(lambda r: b'5\r\nhello\r\n0\r\nno colon here\r\n\r\n')),
        ('last_missing', 'mal', _chunks(lambda r: b'5\r\nhello\r\n')),
        ('lf_only', 'mal', _chunks(lambda r: b'5\nhello\n0\n\n')),
    ],
    'BadEscape': [
        ('pct_nonhex', 'mal', _target(lambda b, r: b'/%zz')),
        ('pct_alone', 'mal', _target(lambda b, r: b'/a%')),
        ('pct_short', 'mal', _target(lambda b, r: b'/a%f')),
        ('pct_query', 'mal', _target(lambda b, r: b'/?q=%g1&%=%')),
        ('pct_nul', 'hostile', _target(lambda b, r: b'/%00')),
        ('pct_bad_utf8', 'hostile', _target(lambda b, r: b'/%ff%fe')),
        ('pct_overlong', 'hostile', _target(lambda b, r: b'/%c0%af..%c0%af')),
        ('pct_dotdot', 'hostile', _target(lambda b, r: b'/%2e%2e/%2e%2e/etc/passwd')),
        ('pct_slash', 'hostile', _target(lambda b, r: b'/a%2fb')),
        ('pct_crlf', 'hostile', _target(lambda b, r: b'/a%0d%0aSet-Cookie:%20x=1')),
        ('dotdot', 'hostile', _target(lambda b, r: b'/../../etc/passwd')),
        ('backslash_x', 'mal', _target(lambda b, r: b'/\\x')),
        ('backslash_xg', 'mal', _target(lambda b, r: b'/\\xg1')),
        ('backslash_u', 'mal', _target(lambda b, r: b'/\\u12')),
        ('backslash_U', 'mal', _target(lambda b, r: b'/\\U00110000')),
        ('backslash_N', 'mal', _target(lambda b, r: b'/\\N{no such name}')),
        ('backslash_end', 'mal', _line(lambda b, r: b.method + b' / ' + b.version + b'\\')),
        ('backslash_ok_x41', 'mal', _target(lambda b, r: b'/\\x41\\u20ac')),
        ('backslash_crlf', 'mal', _target(lambda b, r: b'/\\r\\nX: 1')),
        ('backslash_space', 'mal', _target(lambda b, r: b'/a\\x20b')),
        ('backslash_surrogate', 'mal', _target(lambda b, r: b'/\\ud800')),
        ('raw_utf8', 'mal', _target(lambda b, r: b'/caf\xc3\xa9')),
        ('raw_latin1', 'mal', _target(lambda b, r: b'/\xff\xfe')),
    ],
    'Nul': [
        ('method', 'mal', _nul_at('method')),
        ('target', 'mal', _nul_at('target')),
        ('version', 'mal', _nul_at('version')),
        ('hname', 'mal', _nul_at('hname')),
        ('hvalue', 'mal', _nul_at('hvalue')),
        ('host', 'mal', _nul_at('host')),
        ('body', 'hostile', _nul_at('body')),
        ('leading', 'mal', _nul_at('leading')),
        ('only', 'mal', _nul_at('only')),
        ('onlycrlf', 'mal', _nul_at('onlycrlf')),
    ],
    'TlsHello': [
        ('tls10', 'mal', lambda b, r: _tls_record(r, 1, b'\x03\x01')),
        ('tls12', 'mal', lambda b, r: _tls_record(r, 1)),
        ('tls13', 'mal', lambda b, r: _tls_record(r, 3)),
        ('ssl30', 'mal', lambda b, r: _tls_record(r, 0, b'\x03\x00')),
        ('tls12_crlf', 'mal', lambda b, r: _tls_record(r, 1, with_crlf=True)),
        ('tls12_crlf_esc', 'mal', lambda b, r: _tls_record(r, 1, with_crlf=True, with_esc=True)),
        ('tls_split_2', 'mal', lambda b, r: _tls_record(r, 1)[:2]),
        ('sslv2', 'mal', lambda b, r: _sslv2_hello(r)),
        ('sslv2_short', 'mal', lambda b, r: _sslv2_hello(r)[:1]),
    ],
}

SMUGGLED = b'GET /admin HTTP/1.1\r\nHost: verif.example\r\n\r\n'


def badlen_splits(rnd):
    """Every bad-length mutant as (header block only, what follows): the bytes the message
    declares to be its body look like a request and arrive in a later read."""
    out = []
    for name, wf, fn in SUBS['BadCL']:
        if wf != 'badlen':
            continue
        data = fn(BASE['postcl'], rnd)
        cut = data.find(b'\r\n\r\n') + 4
        head = Msg('BadCL', name + ':head', 'badlen', data[:cut], b'', 'postcl')
        body = Msg('Fuzz', 'smuggled', 'hostile', SMUGGLED, b'', '')
        out.append((head, body))
    return out


def tls_bases():
    """Complete TLS / SSLv2 client hellos (fixed bytes) for the class "TlsCut"."""
    r = random.Random(20140)
    return [('sslv2', _sslv2_hello(r)), ('tls12', _tls_record(r, 1)), ('tls13', _tls_record(r, 3))]


def tls_truncations():
    """Every proper prefix of every hello of tls_bases(): (name, hello, offset)."""
    return [(n, d, off) for n, d in tls_bases() for off in range(1, len(d))]


BAD_CLASSES = ['BadLine', 'BadHeader', 'BadCL', 'BadChunk', 'BadEscape', 'Nul', 'TlsHello']
CLASSES = ['GoodKA', 'GoodClose', 'GoodHead'] + BAD_CLASSES + ['TlsCut', 'Truncate', 'Rest']


def n_subs(cls):
    if cls == 'GoodHead':
        return len(HEAD_BASES)
    if cls == 'GoodKA':
        return len(KEEP_BASES)
    if cls == 'GoodClose':
        return len(CLOSE_BASES)
    if cls in SUBS:
        return len(SUBS[cls])
    return 1


def realise(cls, rnd, sub=None, base=None, offset=None):
    """One concrete message of class `cls`.  `sub` (index or name) selects the
    mutant, else it is drawn from rnd; Truncate takes `offset` (else drawn)."""
    if cls == 'GoodKA':
        b = base or (KEEP_BASES[sub % len(KEEP_BASES)] if isinstance(sub, int) else _pick(rnd, KEEP_BASES))
        return Msg(cls, b.name, 'good', b.data, b'', b.name, want_of(b))
    if cls == 'GoodHead':
        b = base or (HEAD_BASES[sub % len(HEAD_BASES)] if isinstance(sub, int) else _pick(rnd, HEAD_BASES))
        return Msg(cls, b.name, 'good', b.data, b'', b.name, want_of(b), 'HEAD')
    if cls == 'GoodClose':
        b = base or (CLOSE_BASES[sub % len(CLOSE_BASES)] if isinstance(sub, int) else _pick(rnd, CLOSE_BASES))
        return Msg(cls, b.name, 'good', b.data, b'', b.name, want_of(b))
    if cls == 'Truncate':
        b = base or (BASES[sub % len(BASES)] if isinstance(sub, int) else _pick(rnd, BASES))
        d = b.data
        off = offset if offset is not None else rnd.randrange(1, len(d))
        return Msg(cls, '%s@%d' % (b.name, off), 'partial', d[:off], d[off:], b.name, want_of(b),
                   'HEAD' if b.method == b'HEAD' else 'GET')
    if cls == 'TlsCut':
        bases = tls_bases()
        n, d = base or (bases[sub % len(bases)] if isinstance(sub, int) else _pick(rnd, bases))
        # the first bytes are where the SSL detection of _on_read looks: cut there half of the time
        off = offset if offset is not None else (rnd.randrange(1, 4) if rnd.random() < 0.5 else rnd.randrange(1, len(d)))
        return Msg(cls, '%s@%d' % (n, off), 'partial', d[:off], d[off:], n)
    if cls == 'Rest':
        raise ValueError('Rest is realised from the preceding Truncate')
    table = SUBS[cls]
    if isinstance(sub, str):
        ent = [e for e in table if e[0] == sub][0]
    elif isinstance(sub, int):
        ent = table[sub % len(table)]
    else:
        ent = _pick(rnd, table)
    b = base or _any_base(rnd)
    name, wf, fn = ent
    data = fn(b, rnd)
    return Msg(cls, name, wf, data, b'', b.name, '', 'HEAD' if data[:5] == b'HEAD ' else 'GET')


def rest_of(trunc):
    """The class "Rest": the remainder of a truncated base request."""
    return Msg('Rest', trunc.sub, 'good', trunc.rest, b'', trunc.base, trunc.want, trunc.method)


def all_subs():
    """[(cls, sub name)] - every mutant of every bad class."""
    return [(cls, e[0]) for cls in BAD_CLASSES for e in SUBS[cls]]


def truncations():
    """Every (base, offset): 1 <= offset < len(base)."""
    return [(b, off) for b in BASES for off in range(1, len(b.data))]


def random_garbage(rnd):
    """Unstructured mutation of a base request (byte flips / inserts / deletions /
    duplication of a slice).  Which class the result belongs to cannot be told
    (it may even be well-formed), so it is filed under "Fuzz" with wf = "hostile":
    only the universally required clauses apply to it."""
    b = bytearray(_any_base(rnd).data)
    for _ in range(rnd.choice([1, 1, 2, 3, 8])):
        how = rnd.randrange(5)
        pos = rnd.randrange(len(b) + 1)
        if how == 0 and b:
            b[pos % len(b)] = rnd.randrange(256)
        elif how == 1:
            b[pos:pos] = bytes(rnd.randrange(256) for _ in range(rnd.choice([1, 2, 5])))
        elif how == 2 and b:
            del b[pos % len(b):pos % len(b) + rnd.choice([1, 2, 5])]
        elif how == 3 and b:
            s = pos % len(b)
            b[s:s] = b[s:s + rnd.choice([2, 10, 40])]
        else:
            b[pos:pos] = rnd.choice([b'\r\n', b'\x00', b'\\', b'%', b':', b' ', b'\r', b'\n', b'\\x', b'\xff'])
    return Msg('Fuzz', 'bytes', 'hostile', bytes(b), b'', '')
