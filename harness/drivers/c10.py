"""C10 - pollers report exactly the registered-and-ready descriptors; all three agree.

Pipeline (DESIGN 5/C10, design.d/C10.md):
  1. TLC checks spec/io/Poller.tla exhaustively (BasePoller bookkeeping +
     Select / fixed Poll / EPoll kernel registration + one iteration, against
     the C10 monitor of PollerOps and direct invariants); the defect generators
     "poll" (stale fileno -> object map) and "selectesc" (the EBADF of a closed
     int descriptor escapes from Select's preen) must violate C10.
  2. TLC dumps every environment history up to the bound (and simulates seeded
     deeper ones); each is replayed on the REAL Select, Poll and EPoll with
     real AF_UNIX socket pairs and the real kernel (descriptors registered as
     socket objects or, "addri"/"addwi", by plain number): after every operation one
     zero-timeout iteration (generate_events with time_left 0 through the event
     system), readiness measured on the raw descriptors right before.
  3. The three pollers' streams of one history form one trace; TLC judges all
     traces with spec/io/PollerTrace.tla (same monitor), including C10.disagree.
  4. The model's lines are compared with the real lines (drift), corrupted real
     traces must be rejected.
Nothing ever waits: every select/poll/iteration has timeout 0.
"""

import array
import fcntl
import json
import os
import random
import select
import socket
import sys
import termios

from .. import tlc
from ..core import Ctx, use_repo

SPEC = 'spec/io'
POLLERS = ['select', 'poll', 'epoll']
PNAME = {'select': 'select', 'poll': 'poll', 'pollfix': 'poll', 'epoll': 'epoll'}
CH = {1: 'c1', 2: 'c2', 3: 'c3', 4: 'c4'}
PEER = {1: 2, 2: 1, 3: 4, 4: 3}
EVNAME = {'_read': 'read', '_write': 'write', '_disconnect': 'disconnect', '_error': 'error'}
RANK = {'read': 1, 'write': 2, 'disconnect': 3, 'error': 4}
CHUNK = b'f' * 65536


def line(k, p='', o=0, ch='', a=0, b=0, c=0, d=0):
    return {'k': k, 'p': p, 'o': o, 'ch': ch, 'a': a, 'b': b, 'c': c, 'd': d}


# ---------------------------------------------------------------------------
# descriptor numbers: model number n <-> real descriptor BASE + n.  The pool's
# descriptors are placed on a reserved block so that "lowest free number" does
# not depend on what else the process has open; the number logged in the trace
# is the one measured on the socket object.

_BASE = None


def _is_free(fd):
    try:
        os.fstat(fd)
    except OSError:
        return True
    return False


def fd_base():
    global _BASE
    if _BASE is None:
        for base in range(300, 900, 8):
            if all(_is_free(base + i) for i in range(0, 6)):
                _BASE = base
                break
        else:
            raise tlc.MachineryError('no free block of descriptor numbers')
    return _BASE


def place(sock, target):
    """Move the socket's descriptor to number `target` (which must be free)."""
    fd = sock.detach()
    if fd != target:
        if not _is_free(target):
            os.close(fd)
            raise tlc.MachineryError('descriptor number %d is not free' % target)
        os.dup2(fd, target, inheritable=False)
        os.close(fd)
    s = socket.socket(fileno=target)
    s.setblocking(False)
    return s


class World:
    """One real poller under a root Manager, with one owner component per
    channel that records the readiness events delivered to it."""

    def __init__(self, pname):
        from circuits import BaseComponent, Manager, handler
        from circuits.core import pollers
        self.pname = pname
        self.base = fd_base()
        for n in range(1, 5):
            if not _is_free(self.base + n):
                raise tlc.MachineryError('descriptor %d leaked from an earlier replay' % (self.base + n))
        self.root = Manager()
        self.poller = {'select': pollers.Select, 'poll': pollers.Poll, 'epoll': pollers.EPoll}[pname]()
        self.poller.register(self.root)
        self.events = []
        self.socks = {}      # object -> socket object (kept after close)
        self.realfd = {}     # object -> its descriptor number (kept after close)
        self.byint = set()   # objects the environment registers by number (a plain int) ...
        self.byobj = set()   # ... / as socket objects
        self.num = {}        # object -> model number while open
        self.open = set()
        self.notes = []
        world = self

        class Owner(BaseComponent):
            @handler('_read', '_write', '_disconnect', '_error', priority=1000)
            def _on_ev(self, event, *args, **kwargs):
                world.events.append((EVNAME[event.name], args[0] if args else None, self.channel))

        class Stray(BaseComponent):
            channel = '*'

            @handler('_read', '_write', '_disconnect', '_error', 'exception', channel='*', priority=1001)
            def _on_any(self, event, *args, **kwargs):
                if event.name == 'exception':
                    world.notes.append('exception event: %r' % (args[1],) if len(args) > 1 else 'exception event')
                    world.events.append(('error', None, 'exception'))
                    return
                chans = event.channels
                if any(isinstance(c, str) and c in KNOWN for c in chans):
                    return
                ch = 'parent' if any(c is world.root for c in chans) else 'other'
                world.events.append((EVNAME[event.name], args[0] if args else None, ch))

        KNOWN = set(CH.values())
        self.owners = {o: Owner(channel=CH[o]).register(self.root) for o in CH}
        Stray().register(self.root)
        self.pump()
        self.events.clear()

    # -- event system -------------------------------------------------------
    def pump(self):
        n = 0
        while len(self.root):
            self.root.flush()
            n += 1
            if n > 64:
                raise tlc.MachineryError('event queue does not drain')

    def take(self):
        evs, self.events = self.events, []
        out = []
        for kind, fdobj, ch in evs:
            o = 0
            if isinstance(fdobj, int) and not isinstance(fdobj, bool):
                # a number stands for the descriptor registered by that number: the open one, else
                # the one closed last (the model never reuses the number of a dead int registration)
                cands = [k for k in self.byint if self.realfd.get(k) == fdobj]
                live = [k for k in cands if k in self.open]
                if live or cands:
                    o = (live or cands)[-1]
            else:
                for k, s in self.socks.items():
                    if s is fdobj:
                        o = k
            out.append((kind, o, ch))
        return out

    def handle(self, o):
        """What the environment hands to the poller for object o."""
        return self.realfd[o] if o in self.byint else self.socks.get(o)

    def iterate(self):
        """One zero-timeout iteration of the poller through the event system,
        the way Manager.tick() does it when running: (events before, events of
        the iteration)."""
        from circuits.core.events import generate_events
        self.pump()
        before = self.take()
        self.root.fire(generate_events(self.root._lock, 0), '*')
        self.pump()
        return before, self.take()

    # -- kernel side --------------------------------------------------------
    def open_pair(self, a, b):
        used = {self.num[o] for o in self.open}
        free = [n for n in range(1, 5) if n not in used]
        sa, sb = socket.socketpair()
        try:
            if max(sa.fileno(), sb.fileno()) >= self.base:
                raise tlc.MachineryError('process descriptor table reaches the reserved block')
            na, nb = free[0], free[1]
            self.socks[a] = place(sa, self.base + na)
            sa = None
            self.socks[b] = place(sb, self.base + nb)
            sb = None
        finally:
            for s in (sa, sb):
                if s is not None:
                    s.close()
        out = []
        for o, n in ((a, na), (b, nb)):
            self.num[o] = n
            self.realfd[o] = self.socks[o].fileno()
            self.open.add(o)
            out.append(line('open', o=o, a=self.socks[o].fileno() - self.base))
        return out

    def close_obj(self, o):
        self.socks[o].close()
        self.open.discard(o)
        self.num.pop(o, None)
        return [line('close', o=o)]

    def measure(self):
        """Readiness of every open object, measured on the raw descriptor:
        readable / writable (select), hung-up (POLLHUP|POLLERR on a fresh poll
        object), unread data (FIONREAD; does not consume a pending error)."""
        r = w = h = d = 0
        for o in sorted(self.open):
            fd = self.socks[o].fileno()
            rr, ww, _ = select.select([fd], [fd], [], 0)
            p = select.poll()
            p.register(fd, select.POLLIN | select.POLLOUT)
            fl = p.poll(0)
            fl = fl[0][1] if fl else 0
            if fl & select.POLLNVAL:
                raise tlc.MachineryError('open object %d has an invalid descriptor' % o)
            hup = bool(fl & (select.POLLHUP | select.POLLERR))
            if bool(rr) != bool(fl & (select.POLLIN | select.POLLHUP | select.POLLERR)) or \
                    bool(ww) != bool(fl & (select.POLLOUT | select.POLLERR)):
                raise tlc.MachineryError('select and poll disagree on the raw descriptor of object %d (flags %#x)' % (o, fl))
            bit = 1 << (o - 1)
            if rr:
                r |= bit
            if ww:
                w |= bit
            if hup:
                h |= bit
            buf = array.array('i', [0])
            fcntl.ioctl(fd, termios.FIONREAD, buf)
            if buf[0] > 0:
                if not rr:
                    raise tlc.MachineryError('object %d holds unread data but is not readable' % o)
                d |= bit
        return r, w, h, d

    # -- one environment operation -----------------------------------------
    def api(self, pre, name, o, *args):
        try:
            getattr(self.poller, name)(*args)
        except Exception as e:   # the call itself failed: reported as an error line of this poller
            self.notes.append('%s(%d) raised %r' % (name, o, e))
            pre.append(line('error', p=self.pname, o=o, ch='raised'))

    def step(self, h):
        """Apply operation h = [name, o]; run one iteration.  Returns a dict
        with the shared operation lines and this poller's lines."""
        name, o = h[0], h[1]
        ops, pre = [], []
        s = self.socks.get(o)      # kernel-side operations always go through the socket object
        if name in ('addri', 'addwi', 'addr', 'addw'):
            want = self.byint if name in ('addri', 'addwi') else self.byobj
            if o in (self.byint | self.byobj) - want:
                raise tlc.MachineryError('object %d changes between registration by number and as an object' % o)
            want.add(o)
        byint = 1 if o in self.byint else 0
        if name in ('addr', 'addri'):
            ops.append(line('addr', o=o, ch=CH[o], a=byint))
            self.api(pre, 'addReader', o, self.owners[o], self.handle(o))
        elif name in ('addw', 'addwi'):
            ops.append(line('addw', o=o, ch=CH[o], a=byint))
            self.api(pre, 'addWriter', o, self.owners[o], self.handle(o))
        elif name == 'remr':
            ops.append(line('remr', o=o))
            self.api(pre, 'removeReader', o, self.handle(o))
        elif name == 'remw':
            ops.append(line('remw', o=o))
            self.api(pre, 'removeWriter', o, self.handle(o))
        elif name == 'discard':
            ops.append(line('discard', o=o))
            self.api(pre, 'discard', o, self.handle(o))
        elif name == 'send':
            ops.append(line('send', o=o))
            s.send(b'x')
        elif name == 'drain':
            ops.append(line('drain', o=o))
            for _ in range(1000):
                try:
                    if not s.recv(1 << 20):
                        break
                except BlockingIOError:
                    break
                except ConnectionResetError:
                    continue
        elif name == 'fill':
            ops.append(line('fill', o=o))
            try:
                for _ in range(1000):
                    s.send(CHUNK)
            except BlockingIOError:
                pass
        elif name == 'close':
            ops += self.close_obj(o)
        elif name == 'dclose':
            ops.append(line('discard', o=o))
            self.api(pre, 'discard', o, self.handle(o))
            ops += self.close_obj(o)
        elif name == 'openb':
            ops += self.open_pair(3, 4)
        elif name == 'creopen':
            ops += self.close_obj(o)
            ops += self.open_pair(3, 4)
        else:
            raise tlc.MachineryError('unknown operation %r' % (h,))
        self.pump()
        for kind, eo, ch in sorted(self.take(), key=lambda e: (e[1], RANK[e[0]], e[2])):
            pre.append(line(kind, p=self.pname, o=eo, ch=ch))      # an event outside any iteration
        r, w, hm, dm = self.measure()
        before, evs = self.iterate()
        evs = sorted(before + evs, key=lambda e: (e[1], RANK[e[0]], e[2]))
        evl = [line(kind, p=self.pname, o=eo, ch=ch) for kind, eo, ch in evs]
        acks = []
        for eo in sorted({eo for kind, eo, ch in evs if kind == 'disconnect' and eo}):
            # what Client/Server do on _disconnect: discard the descriptor
            acks.append(line('discard', p=self.pname, o=eo))
            self.api(acks, 'discard', eo, self.handle(eo))
        return {'ops': ops, 'pre': pre, 'poll': line('poll', p=self.pname, a=r, b=w, c=hm, d=dm), 'evs': evl, 'acks': acks}

    def teardown(self):
        for o in list(self.open):
            try:
                self.socks[o].close()
            except OSError:
                pass
        self.open.clear()
        p = self.poller
        for fd in (p._ctrl_recv, p._ctrl_send):
            try:
                if isinstance(fd, int):
                    os.close(fd)
                else:
                    fd.close()
            except OSError:
                pass
        kp = getattr(p, '_poller', None)
        if kp is not None and hasattr(kp, 'close'):
            kp.close()


def replay_one(pname, hist):
    """Replay one history on one real poller -> (init lines, [step dict], notes)."""
    w = World(pname)
    try:
        init = w.open_pair(1, 2)
        steps = [w.step(h) for h in hist]
        return init, steps, w.notes
    finally:
        w.teardown()


def replay_history(hist, pollers=POLLERS):
    """Replay a history on the given pollers; combine into one trace."""
    runs = {p: replay_one(p, hist) for p in pollers}
    first = runs[pollers[0]]
    lines = list(first[0])
    notes = []
    for p in pollers:
        notes += ['%s: %s' % (p, n) for n in runs[p][2]]
        if runs[p][0] != first[0]:
            raise tlc.MachineryError('descriptor numbers differ between worlds: %r vs %r' % (runs[p][0], first[0]))
    for i in range(len(hist)):
        ops = first[1][i]['ops']
        masks = first[1][i]['poll']
        lines += ops
        for p in pollers:
            st = runs[p][1][i]
            if st['ops'] != ops:
                raise tlc.MachineryError('operation lines differ between worlds at step %d: %r vs %r' % (i, st['ops'], ops))
            if any(st['poll'][x] != masks[x] for x in 'abcd'):
                raise tlc.MachineryError('measured readiness differs between worlds at step %d of %r: %r vs %r'
                                         % (i, hist, st['poll'], masks))
            lines += st['pre'] + [st['poll']] + st['evs'] + [line('endpoll', p=p)] + st['acks']
        lines.append(line('endstep'))
    return lines, notes


def only(lines, pollers):
    return [ln for ln in lines if ln['p'] == '' or ln['p'] in pollers]


# ---------------------------------------------------------------------------
# TLC: judging a batch of traces as a prefix tree; reading a state dump

_ROOT_LINE = {'k': 'root', 'p': '', 'o': 0, 'ch': '', 'a': 0, 'b': 0, 'c': 0, 'd': 0}
_KEYS = ('k', 'p', 'o', 'ch', 'a', 'b', 'c', 'd')


def build_trie(traces, ids):
    """Prefix tree of the traces (lists of line dicts): list of nodes
    {ln, kids, term}; node numbering is 1-based for TLA+; identical traces
    share their terminal node (ids -> list of trace numbers per node)."""
    nodes = [{'ln': _ROOT_LINE, 'kids': [], 'term': 0}]
    index = [{}]
    owners = {}
    for tid, lines in zip(ids, traces):
        cur = 0
        for ln in lines:
            key = tuple(ln[k] for k in _KEYS)
            nxt = index[cur].get(key)
            if nxt is None:
                nodes.append({'ln': {k: ln[k] for k in _KEYS}, 'kids': [], 'term': 0})
                index.append({})
                nxt = len(nodes) - 1
                index[cur][key] = nxt
                nodes[cur]['kids'].append(nxt + 1)
            cur = nxt
        if cur == 0:
            raise tlc.MachineryError('empty trace')
        if nodes[cur]['term'] == 0:
            nodes[cur]['term'] = tid
        owners.setdefault(nodes[cur]['term'], []).append(tid)
    return nodes, owners


def validate(traces, shards=8, timeout=1200):
    """Judge traces with PollerTrace (prefix-tree batch).  Returns (verdicts,
    stats); verdicts[i] = (clause, line number), clause "" = accepted."""
    import shutil
    import time as _time
    from concurrent.futures import ThreadPoolExecutor
    n = len(traces)
    if n == 0:
        return [], {'states': 0, 'wall_s': 0.0, 'shards': 0}
    shards = max(1, min(shards, (n + 15) // 16))
    size = (n + shards - 1) // shards
    chunks = [list(range(i, min(n, i + size))) for i in range(0, n, size)]   # contiguous: neighbours share prefixes
    wd = tlc.workdir('tv')
    t0 = _time.time()
    try:
        def one(k):
            idxs = chunks[k]
            nodes, owners = build_trie([traces[i] for i in idxs], [i + 1 for i in idxs])
            path = os.path.join(wd, 'trie%d.json' % k)
            with open(path, 'w') as f:
                json.dump(nodes, f)
            res = tlc.run_tlc(SPEC, 'PollerTrace', 'PollerTrace.cfg', workers=1, timeout=timeout,
                              env={'TRACE_FILE': path}, jvm_opts=('-Xmx3g',))
            if res.violated:
                raise tlc.MachineryError('trace spec PollerTrace reported %s (it must be total):\n%s' % (res.violated, res.out[-3000:]))
            v = tlc._parse_verdicts(res.out)
            part = {}
            for rep, tids in owners.items():
                if rep not in v:
                    raise tlc.MachineryError('trace spec PollerTrace gave no verdict for trace %d:\n%s' % (rep, res.out[-3000:]))
                for t in tids:
                    part[t - 1] = v[rep]
            return res, part

        verdicts = [None] * n
        states = 0
        with ThreadPoolExecutor(max_workers=len(chunks)) as ex:
            for res, part in ex.map(one, range(len(chunks))):
                states += res.distinct
                for i, v in part.items():
                    verdicts[i] = v
        if any(v is None for v in verdicts):
            raise tlc.MachineryError('trace spec PollerTrace left traces without a verdict')
        return verdicts, {'states': states, 'wall_s': _time.time() - t0, 'shards': len(chunks)}
    finally:
        shutil.rmtree(wd, ignore_errors=True)


def dump_histories(cfg, timeout=900, workers=16):
    """Exhaustive TLC run with -dump (a violated invariant is a machinery
    error: the model is wrong); reads only kind, hist, out and bad of every
    state (the dump is large).
    -> (result, {(kind, hist): lines of the last step}, {(kind, hist): bad})"""
    import re
    import shutil
    wd = tlc.workdir('dump')
    dump = os.path.join(wd, 'states')
    try:
        res = tlc.run_tlc(SPEC, 'Poller', cfg, timeout=timeout, workers=workers, extra=['-dump', dump])
        if res.violated:
            raise tlc.MachineryError('model Poller (%s) violates %s:\n%s' % (cfg, res.violated, res.out[-3000:]))
        with open(dump + '.dump') as f:
            text = f.read()
        model, bads = {}, {}
        rx = re.compile(r'^/\\ (kind|hist|out|bad) = ', re.M)
        cur = {}
        for m in rx.finditer(text):
            val, _ = tlc.tlaval.parse_prefix(text, m.end())
            name = m.group(1)
            if name in cur:
                raise tlc.MachineryError('state dump not understood near offset %d' % m.start())
            cur[name] = val
            if len(cur) == 4:
                key = (cur['kind'], hkey(cur['hist']))
                model[key] = cur['out']
                if cur['bad']:
                    bads[key] = cur['bad']
                cur = {}
        if cur or len(model) != res.distinct:
            raise tlc.MachineryError('state dump not understood: %d states read, TLC reported %d' % (len(model), res.distinct))
        return res, model, bads
    finally:
        shutil.rmtree(wd, ignore_errors=True)


# ---------------------------------------------------------------------------

def witness_of(lines, badline, clause):
    """Classify a failure: which poller, which kind of line, and the state of
    the object concerned (open / closed, closed while still registered, its
    number meanwhile reused by another open descriptor)."""
    ln = lines[badline - 1]
    o = ln['o']
    p = ln['p']
    openset = {}
    reg = set()
    closed_registered = False
    discarded_after_close = False
    lastnum = {}
    for l in lines[:badline - 1]:
        k = l['k']
        if l['p'] not in ('', p):
            continue
        if k == 'open':
            openset[l['o']] = l['a']
            lastnum[l['o']] = l['a']
        elif k == 'close':
            openset.pop(l['o'], None)
            if l['o'] == o:
                closed_registered = bool(reg)
        elif k in ('addr', 'addw') and l['o'] == o:
            reg.add(k)
        elif k == 'remr' and l['o'] == o:
            reg.discard('addr')
        elif k == 'remw' and l['o'] == o:
            reg.discard('addw')
        elif k == 'discard' and l['o'] == o:
            reg.clear()
            if o not in openset:
                discarded_after_close = True
    w = {'poller': p or 'all', 'line': ln['k']}
    if ln['k'] == 'error':
        w['error'] = ln['ch']      # 'exception' = the poller's handler raised, 'raised' = an API call raised
    if ln['k'] in EVNAME.values():
        w['object'] = 'none' if o == 0 else ('open' if o in openset else 'closed')
        if o and o not in openset:
            w['closed_while_registered'] = closed_registered
            w['number_reused'] = lastnum.get(o) in openset.values()
            w['discarded_after_close'] = discarded_after_close
    return w


def judge(traces, shards):
    """TLC verdict per combined trace; a rejected trace is judged again without
    the offending poller's lines so that one poller's failure does not hide
    another's.  Returns (list of list of (clause, line, lines_judged)), stats)."""
    verdicts, stats = validate(traces, shards=shards)
    out = [[] for _ in traces]
    todo = []
    for i, (clause, ln) in enumerate(verdicts):
        if clause:
            out[i].append((clause, ln, traces[i]))
            p = traces[i][ln - 1]['p']
            present = {l['p'] for l in traces[i]} - {''}
            rest = [q for q in POLLERS if q != p and q in present]
            if p and rest:
                todo.append((i, rest))
    rounds = 0
    while todo and rounds < 2:
        rounds += 1
        sub = [only(traces[i], rest) for i, rest in todo]
        v2, s2 = validate(sub, shards=min(shards, 4))
        stats['states'] += s2['states']
        nxt = []
        for (i, rest), sl, (clause, ln) in zip(todo, sub, v2):
            if clause:
                out[i].append((clause, ln, sl))
                p = sl[ln - 1]['p']
                rest2 = [q for q in rest if q != p]
                if p and rest2:
                    nxt.append((i, rest2))
        todo = nxt
    return out, stats


def corrupt(rnd, lines):
    """Corrupt an accepted real trace so that it must be rejected: returns
    (lines, description, clauses one of which must be the verdict) or None."""
    first_close = min([i for i, ln in enumerate(lines) if ln['k'] == 'close'] + [len(lines)])
    evs = [i for i, ln in enumerate(lines) if ln['k'] in ('read', 'write')]
    calm = [i for i in evs if i < first_close]      # no hang-up, no fault before: no slack applies
    polls = [i for i, ln in enumerate(lines) if ln['k'] == 'poll']
    out = [dict(ln) for ln in lines]
    how = rnd.choice(['drop', 'retarget', 'ghost', 'dup', 'unready', 'split'])
    if how == 'split' and len({ln['p'] for ln in lines} - {''}) < 2:
        how = 'drop'          # a single poller cannot disagree with itself
    if how in ('drop', 'split') and not calm:
        how = 'retarget'
    if how in ('retarget', 'dup', 'unready') and not evs:
        how = 'ghost'
    if how == 'drop':
        i = rnd.choice(calm)
        del out[i]
        return out, 'dropped event line %d' % (i + 1), ('C10.missing',)
    if how == 'split':
        # one poller measured "not ready" and stayed silent, the others reported: each is exact, they disagree
        i = rnd.choice(calm)
        j = max(q for q in polls if q < i)
        key = 'a' if out[i]['k'] == 'read' else 'b'
        out[j][key] &= ~(1 << (out[i]['o'] - 1))
        out[j]['d'] &= ~(1 << (out[i]['o'] - 1))
        del out[i]
        return out, 'poller %s silent for a descriptor it measured not ready (line %d)' % (lines[i]['p'], i + 1), ('C10.disagree',)
    if how == 'retarget':
        i = rnd.choice(evs)
        out[i]['ch'] = 'c4' if out[i]['ch'] != 'c4' else 'c2'
        return out, 'event line %d addressed elsewhere' % (i + 1), ('C10.wrong_target',)
    if how == 'dup':
        i = rnd.choice(evs)
        out.insert(i, dict(out[i]))
        return out, 'event line %d twice' % (i + 1), ('C10.spurious',)
    if how == 'unready':
        i = rnd.choice(evs)
        j = max(q for q in polls if q < i)
        key = 'a' if out[i]['k'] == 'read' else 'b'
        out[j][key] &= ~(1 << (out[i]['o'] - 1))
        out[j]['d'] &= ~(1 << (out[i]['o'] - 1))
        return out, 'event line %d although measured not ready' % (i + 1), ('C10.spurious',)
    if not polls:
        return None
    j = rnd.choice(polls)
    out.insert(j + 1, line('read', p=out[j]['p'], o=4, ch='c4'))     # object 4 is never registered
    return out, 'read event for never-registered object after line %d' % (j + 1), ('C10.spurious', 'C10.ghost_fd')


def maximal(hists):
    keys = set(hists)
    prefixes = set()
    for k in keys:
        for i in range(len(k)):
            prefixes.add(k[:i])
    return sorted(keys - prefixes, key=repr)


def hkey(h):
    return tuple((x[0], x[1]) for x in h)


INIT_LINES = [line('open', o=1, a=1), line('open', o=2, a=2)]


def run_replay(path):
    rec = json.load(open(path))
    hist = [list(x) for x in rec['detail']['hist']]
    lines, notes = replay_history(hist, rec['detail'].get('pollers') or POLLERS)
    res, _ = judge([lines], 1)
    for i, ln in enumerate(lines, 1):
        print('%3d %s' % (i, json.dumps(ln, sort_keys=True)))
    for n in notes:
        print('note:', n)
    if res[0]:
        for clause, ln, judged in res[0]:
            print('VIOLATION property=C10 replay=%s clause=%s line=%d %s' % (path, clause, ln, json.dumps(judged[ln - 1], sort_keys=True)))
        return 1
    print('replay accepted: no clause of C10 fails on this tree')
    return 0


def run(tier, replay=None):
    use_repo()
    if replay:
        return run_replay(replay)
    ctx = Ctx('C10', tier)
    rnd = random.Random(ctx.seed * 7919 + 10)
    quick = tier == 'quick'
    nfd0 = len(os.listdir('/proc/self/fd'))
    phases = {}
    import time as _time      # reporting only: no verdict depends on it
    t_last = [_time.time()]

    def phase(name):
        now = _time.time()
        phases[name] = round(now - t_last[0], 1)
        t_last[0] = now
        if os.environ.get('VERIF_DEBUG'):
            print('C10 phase %-10s %6.1fs' % (name, phases[name]), file=sys.stderr)

    # 1. the property on the design: the complete reachable state space (no bound on the
    #    length of the history) of Select / pinned Poll / fixed Poll / EPoll with objects 1 and 3
    #    registrable, all invariants ("poll", the defect generator, is exempt from Conforms)
    suite = {}        # history -> origin; every history is replayed on all three pollers
    model = {}        # (kind, history) -> lines the model emits in the last step

    def add(h, origin):
        if h:
            suite.setdefault(h, origin)

    # The TLC runs are independent subprocesses: they are started together (each has its own
    # scratch directory) and their results are consumed in a fixed order.
    from concurrent.futures import ThreadPoolExecutor
    nsim, depth = (400, 9) if quick else (2000, 9)
    pool = ThreadPoolExecutor(max_workers=6)
    f_gen = pool.submit(tlc.run_tlc, SPEC, 'Poller', 'MC_Poller_stale.cfg', workers=1)   # one worker: the same
    f_gen2 = pool.submit(tlc.run_tlc, SPEC, 'Poller', 'MC_Poller_preen.cfg', workers=1)  # shortest counterexample every run
    f_hist = pool.submit(dump_histories, 'HIST_Poller.cfg' if quick else 'HIST_Poller_thorough.cfg')
    f_sim = pool.submit(tlc.simulate, SPEC, 'Poller', 'SIM_Poller.cfg' if quick else 'SIM_Poller_thorough.cfg',
                        nsim, depth, ctx.seed + 1)
    if quick:
        f_mc = pool.submit(tlc.model_check, SPEC, 'Poller', 'MC_Poller.cfg')
    else:
        f_mc = pool.submit(dump_histories, 'MC_Poller_cover.cfg', workers=1)
        f_mc2 = pool.submit(tlc.model_check, SPEC, 'Poller', 'MC_Poller_thorough.cfg')
    pool.shutdown(wait=False)

    cover_states = 0
    if quick:
        mc = f_mc.result()
        mc_states, mc_trans = mc.distinct, mc.generated
    else:
        # ... dumped (one worker: deterministic search order): every state carries the history by
        # which TLC first reached it (prefix-closed per algorithm) = a state cover of the model
        mc, cover, bads = f_mc.result()
        mc_states, mc_trans = mc.distinct, mc.generated
        cover_states = mc.distinct
        if not any(k[0] == 'poll' and b == 'C10.ghost_fd' for k, b in bads.items()) or any(k[0] != 'poll' for k in bads):   # noqa
            raise tlc.MachineryError('state dump: only the "poll" variant may and must reach C10.ghost_fd, got %r'
                                     % (sorted({(k[0], b) for k, b in bads.items()}),))
        model.update(cover)
        for h in maximal({k[1] for k in cover}):
            add(h, 'tlc-state-cover')
        # the same over objects 1, 2, 3 (both ends of a pair registered), fixed algorithms
        mc2 = f_mc2.result()
        mc_states += mc2.distinct
        mc_trans += mc2.generated
    phase('mc')
    # the defect generator: with the pinned Poll's stale map TLC must report C10 violated
    gen = f_gen.result()
    if gen.violated != 'ConformsAll' or not gen.error_trace:
        raise tlc.MachineryError('the "poll" variant of Poller.tla no longer violates C10 (got %r): the model lost its teeth' % gen.violated)
    gen_hist = hkey(gen.error_trace[-1][1]['hist'])
    gen_clause = gen.error_trace[-1][1].get('bad')
    # ... and with a Select whose preen lets the EBADF of a closed int descriptor escape
    gen2 = f_gen2.result()
    if gen2.violated != 'ConformsAll' or not gen2.error_trace:
        raise tlc.MachineryError('the "selectesc" variant of Poller.tla does not violate C10 (got %r): the model lost its teeth' % gen2.violated)
    gen2_hist = hkey(gen2.error_trace[-1][1]['hist'])
    gen2_clause = gen2.error_trace[-1][1].get('bad')
    phase('mc_stale')

    # 2. every environment history of <= 4 operations (no VIEW: one state per history), with the
    #    lines each algorithm emits
    res, model4, _ = f_hist.result()
    hist_states = res.distinct
    for k, v in model4.items():
        model.setdefault(k, v)
    # no dead action: every operation of the model occurs in the enumerated histories
    seen_ops = {x[0] for k in model4 for x in k[1]}
    for op in ('addr', 'addw', 'addri', 'addwi', 'remr', 'remw', 'discard', 'send', 'drain', 'fill', 'close', 'dclose',
               'openb', 'creopen'):
        if op not in seen_ops:
            raise tlc.MachineryError('vacuous model: operation %s never taken' % op)
    for h in maximal({k[1] for k in model4}):
        add(h, 'tlc-history')
    for g in (gen_hist, gen2_hist):
        add(g, 'tlc-counterexample')
        suite[g] = 'tlc-counterexample'
    phase('dump')

    def model_lines(kd, h):
        out = list(INIT_LINES)
        for i in range(1, len(h) + 1):
            part = model.get((kd, h[:i]))
            if part is None:
                return None
            out += part
        return out

    # which Poll algorithm does the tree under test follow?  (only selects the model lines the real
    # Poll is compared with; never a verdict)
    probe, _ = replay_history([list(x) for x in gen_hist], ['poll'])
    tree_variant = None
    for kd in ('poll', 'pollfix'):
        if model_lines(kd, gen_hist) == probe:
            tree_variant = kd

    #    seeded deeper behaviours of the same model
    _, behs = f_sim.result()
    for beh in behs:
        if not beh:
            continue
        h = hkey(beh[-1][1]['hist'])
        kd = beh[-1][1]['kind']
        for _, st in beh[1:]:
            model.setdefault((kd, hkey(st['hist'])), st['out'])
        add(h, 'tlc-simulation')
    phase('simulate')

    hists = sorted(suite, key=repr)
    cases = [(h, list(POLLERS), suite[h]) for h in hists]
    results = [replay_history([list(x) for x in h], ps) for h, ps, _ in cases]
    traces = [r[0] for r in results]
    phase('replay')

    # 3. TLC judges every trace
    verdicts, stats = judge(traces, shards=2 if quick else 8)
    phase('judge')
    accepted = []
    n_events = 0
    for (h, ps, org), (lines, notes), vs in zip(cases, results, verdicts):
        nev = sum(1 for ln in lines if ln['k'] in RANK)
        n_events += nev
        ctx.count_case(['hist', h, ps], nev > 0, sample={'hist': h, 'pollers': ps, 'origin': org, 'lines': len(lines),
                                                         'verdict': [v[0] for v in vs] or 'accepted'})
        if not vs:
            accepted.append(lines)
        for clause, ln, judged in vs:
            w = witness_of(judged, ln, clause)
            ctx.violation(clause, w, {'hist': [list(x) for x in h], 'pollers': ps, 'origin': org, 'line': ln,
                                      'failing_line': judged[ln - 1], 'trace': judged, 'notes': notes})

    # 4. conformance drift: the model's lines against the real ones, per algorithm
    cmp_n = cmp_ok = 0
    poll_matches = {'poll': 0, 'pollfix': 0}
    for (h, ps, org), (lines, notes) in zip(cases, results):
        for p in ps:
            real = only(lines, (p,))
            kinds = ([tree_variant] if tree_variant else ['poll', 'pollfix']) if p == 'poll' else [p]
            ml = {kd: model_lines(kd, h) for kd in kinds}
            ml = {kd: v for kd, v in ml.items() if v is not None}
            if not ml:
                continue          # this history was not enumerated for the algorithm the tree follows
            cmp_n += 1
            hit = [kd for kd, v in ml.items() if v == real]
            if hit:
                cmp_ok += 1
                if p == 'poll':
                    poll_matches[hit[0]] += 1
            else:
                ctx.note_drift('%s: real lines differ from the model\'s for history %s' % (p, list(h)))

    phase('compare')
    # 5. binding demonstration: corrupted real traces must be rejected
    muts = []
    corrupt_by_clause = {}
    rnd.shuffle(accepted)
    for lines in accepted:
        if len(muts) >= (80 if quick else 400):
            break
        m = corrupt(rnd, lines)
        if m:
            muts.append(m)
    if muts:
        mv, _ = validate([m[0] for m in muts], shards=1 if quick else 4)
        missed = [(muts[i][1], c) for i, (c, _) in enumerate(mv) if c not in muts[i][2]]
        if missed:
            raise tlc.MachineryError('trace spec mis-judged %d corrupted traces, e.g. %s -> %r' % (len(missed), missed[0][0], missed[0][1]))
        for m, (c, _) in zip(muts, mv):
            corrupt_by_clause[c] = corrupt_by_clause.get(c, 0) + 1

    phase('corrupt')
    nfd1 = len(os.listdir('/proc/self/fd'))
    if nfd1 > nfd0:
        raise tlc.MachineryError('descriptor leak in the harness: %d -> %d open descriptors' % (nfd0, nfd1))

    return ctx.finish(coverage={
        'states': mc_states, 'transitions': mc_trans,
        'traces_validated_against_impl': len(traces),
        'model_histories_replayed': len(hists), 'poller_replays': sum(len(c[1]) for c in cases),
        'state_cover_states': cover_states, 'history_dump_states': hist_states,
        'simulated_behaviours': len(behs),
        'events_observed': n_events,
        'model_line_exact_match': cmp_ok, 'model_line_compared': cmp_n,
        'poll_matches_variant': poll_matches, 'poll_tree_variant': tree_variant,
        'trace_validation_states': stats['states'], 'phase_seconds': phases,
        'corrupted_traces_rejected': len(muts), 'corrupted_traces_by_clause': corrupt_by_clause,
        'stale_variant_counterexample': {'violated': gen.violated, 'clause': gen_clause, 'hist': gen_hist},
        'preen_escape_variant_counterexample': {'violated': gen2.violated, 'clause': gen2_clause, 'hist': gen2_hist},
        'histories_with_int_descriptor': sum(1 for h in hists if any(x[0] in ('addri', 'addwi') for x in h)),
        'rule': 'cases = environment histories (registration as socket object or by plain number + kernel operations over 2 socket pairs): every maximal history '
                'of <= 4 operations TLC enumerates for Poller.tla (quick: objects 1, 3 registrable; thorough: 1, 2, 3), the '
                'counterexample of the stale-map variant, seeded TLC simulations of up to 8 operations, and (thorough) the '
                'first-discovery history of every state of the complete reachable state space; each replayed on the real Select, Poll and EPoll (one combined trace); '
                'non-trivial = at least one readiness event observed; distinct by hash of the history',
        'exhaustive': False,
    }, assumptions=[
        'kernel readiness is measured (select + poll on the raw descriptor right before each iteration), not predicted; '
        'AF_UNIX socket pairs: readiness is deterministic once measured',
        'descriptor numbers are placed on a reserved block with dup2 so that reuse is deterministic; the number in the trace is measured',
        'one owner component (channel) per descriptor; no operation other than discard on a closed descriptor; the number of '
        'a descriptor registered as a plain int is not reused while that registration is alive',
    ])
