"""C11 - stream writes in order, each byte once; close waits for the buffer.

Pipeline (DESIGN 5/C11):
  1. TLC checks spec/io/WriteBuf.tla exhaustively (the deque algorithm obeys
     the C11 monitor of WriteBufOps for every payload/outcome/close history).
  2. TLC dumps every environment history up to the bound (hist variable);
     each is replayed on the real Server, Client and File endpoints with
     scripted send()/write() outcomes (spec -> code).
  3. The recorded traces, plus seeded random longer ones, are judged by TLC
     with spec/io/WriteBufTrace.tla (code -> spec), which reuses the monitor.
"""

import os
import random
import sys

from .. import tlc
from ..core import Ctx, use_repo, VERIF
from ..doubles import FakeConn, FakeListener, ScriptedSend, Stream, make_poller_double

SPEC = 'spec/io'
TRANSIENT = ['EAGAIN', 'EWOULDBLOCK', 'EINTR', 'ENOBUFS']
FATAL = ['EPIPE', 'ECONNRESET']
# FileStr: File written with str payloads (multi-byte UTF-8); ServerAll: Server whose close request is the
# server-wide close() (what `stopped` fires); FileRW: File opened for reading too ('w+b'), whose reads hit end-of-file
ENDPOINTS = ['Server', 'Client', 'File', 'FileStr', 'ServerAll', 'FileRW']
FILES = ('File', 'FileStr', 'FileRW')


class Endpoint:
    """One real endpoint under a root Manager with a poller double."""

    def __init__(self, kind, seed):
        from circuits import Manager
        self.kind = kind
        self.log = []
        self.stream = Stream(seed)
        self.script = ScriptedSend(self.stream, self.log)
        self.root = Manager()
        self.poller = make_poller_double().register(self.root)
        self._signals = 0
        self.ignore = []
        self._patched = None
        getattr(self, '_setup_' + ('File' if kind in FILES else 'Server' if kind == 'ServerAll' else kind))()

    # -- observers ---------------------------------------------------------
    def _observer(self, names, channel):
        from circuits import BaseComponent, handler
        ep = self

        class Obs(BaseComponent):
            @handler(*names, channel=channel, priority=1000)
            def _on_sig(self, *a, **kw):
                if a and any(a[0] is x for x in ep.ignore):
                    return      # the listening socket's own disconnect (server-wide close) says nothing about the connection
                ep.log.append({'k': 'signal', 'a': 0, 'b': 0, 'r': ''})

        Obs().register(self.root)

    def settle(self):
        for _ in range(200):
            if not len(self.root) and not self.root._tasks:
                return
            self.root.tick()
        raise RuntimeError('endpoint does not settle')

    # -- Server ------------------------------------------------------------
    def _setup_Server(self):
        from circuits.core.pollers import _read
        from circuits.net.sockets import TCPServer
        lst = FakeListener()
        self.ignore.append(lst)
        self.comp = TCPServer(lst, channel='ep').register(self.root)
        self._observer(('error', 'disconnect'), 'ep')
        self.settle()
        self.sock = FakeConn(self.script)
        lst.pending.append(self.sock)
        self.root.fire(_read(lst), 'ep')
        self.settle()
        assert self.sock in self.comp._clients
        self.fd = self.sock

    # -- Client ------------------------------------------------------------
    def _setup_Client(self):
        from circuits.net.events import connect
        from circuits.net.sockets import TCPClient
        self.sock = FakeConn(self.script)
        self.comp = TCPClient(self.sock, channel='ep').register(self.root)
        self._observer(('error', 'disconnected'), 'ep')
        self.settle()
        self.root.fire(connect('127.0.0.1', 50000), 'ep')
        self.settle()
        assert self.comp.connected
        self.fd = self.sock

    # -- File --------------------------------------------------------------
    def _setup_File(self):
        import circuits.io.file as filemod
        from circuits.io.file import File
        os.makedirs(os.path.join(VERIF, '.work'), exist_ok=True)
        self.path = os.path.join(VERIF, '.work', 'c11-%d-%d.bin' % (os.getpid(), id(self)))
        fobj = open(self.path, 'w+b' if self.kind == 'FileRW' else 'wb')
        ep = self

        def fd_write(fd, data):
            return ep.script.do_send(data)

        self._patched = (filemod, filemod.fd_write)
        filemod.fd_write = fd_write
        self.comp = File(fobj, channel='ep').register(self.root)
        self._observer(('error', 'closed'), 'ep')
        if self.kind == 'FileRW':
            from circuits import BaseComponent, handler

            class Eof(BaseComponent):
                @handler('eof', channel='ep')
                def _on_eof(self, *a):
                    ep.log.append({'k': 'eof', 'a': 0, 'b': 0, 'r': ''})

            Eof().register(self.root)
        self.settle()
        self.fobj = fobj
        self.fd = fobj

    # -- driving -----------------------------------------------------------
    def write(self, n):
        from circuits.net.events import write
        if self.kind == 'FileStr':
            # text whose UTF-8 encoding has exactly n bytes, mixing 1-, 2- and 3-byte characters
            chars = []
            left = n
            while left > 0:
                c = self.stream.rnd.choice(['a', '\u00e9', '\u20ac'][:min(left, 3)])
                chars.append(c)
                left -= len(c.encode('utf-8'))
            data = ''.join(chars)
            self.stream.data += data.encode('utf-8')
        else:
            data = self.stream.payload(n)
        self.log.append({'k': 'write', 'a': n, 'b': 0, 'r': ''})
        if self.kind in ('Server', 'ServerAll'):
            self.root.fire(write(self.sock, data), 'ep')
        else:
            self.root.fire(write(data), 'ep')
        self.settle()

    def is_writing(self):
        return self.poller.isWriting(self.fd)

    def ready(self, outcome=None, spare=None):
        """one write-readiness event; `outcome` answers the endpoint's send(), `spare` would answer a
        second send() in the same event (an endpoint that sends once never consumes it)"""
        from circuits.core.pollers import _write
        if outcome is not None:
            self.script.next.append(outcome)
            if spare is not None:
                self.script.next.append(spare)
        self.root.fire(_write(self.fd), 'ep')
        self.settle()
        self._sync_close()
        self.script.next.clear()

    def read_eof(self):
        """one read-readiness event on a File opened for reading too: nothing was ever written to the real
        file (fd_write is the double), so the read finds end-of-file"""
        from circuits.core.pollers import _read
        self.root.fire(_read(self.fd), 'ep')
        self.settle()
        self._sync_close()

    def closereq(self):
        from circuits.net.events import close
        self.log.append({'k': 'closereq', 'a': 0, 'b': 0, 'r': ''})
        if self.kind == 'Server':
            self.root.fire(close(self.sock), 'ep')
        else:
            self.root.fire(close(), 'ep')
        self.settle()
        self._sync_close()

    def _sync_close(self):
        if self.kind in FILES and self.fobj.closed and not self.script.closed:
            self.script.closed = True
            self.log.append({'k': 'close', 'a': 0, 'b': 0, 'r': ''})

    def quiesce(self):
        n = 0
        while not self.script.closed and self.is_writing() and n < 5000:
            self.ready(None)
            n += 1
        self.log.append({'k': 'quiet', 'a': 1 if (self.is_writing() and not self.script.closed) else 0, 'b': 0, 'r': ''})

    def teardown(self):
        if self._patched:
            self._patched[0].fd_write = self._patched[1]
        try:
            if self.kind in FILES:
                if not self.fobj.closed:
                    self.fobj.close()
                os.unlink(self.path)
            else:
                if not self.script.closed:
                    self.script.closed = True
                    self.sock.close()
        except OSError:
            pass


def realise(hist, variant, scale, kind='Server', spare=0):
    """Model history -> concrete script, or None if the history does not apply
    to this endpoint kind.  hist items: ["W", n, 0] | ["R", kind, k] | ["C", "", 0]
    | ["Q", "", 0].  variant picks the errno for the j-th transient outcome;
    scale multiplies sizes.  "fatal" (endpoint closes) is EPIPE for Client and
    EPIPE/ECONNRESET for Server and File; "fatalkeep" (error signalled, endpoint
    stays open) is the Client's reaction to ECONNRESET."""
    out = []
    j = 0
    for h in hist:
        op = h[0]
        if op == 'W':
            out.append(('W', h[1] * scale))
        elif op == 'R':
            k = h[1]
            if k == 'accept':
                # spare: what a second send() in the same readiness event would get (1: refused
                # transiently, 2: nothing accepted); an endpoint that sends once per event ignores it
                sp = None if spare == 0 else (('transient', TRANSIENT[(variant + j) % len(TRANSIENT)]) if spare == 1 else ('accept', 0))
                out.append(('R', ('accept', h[2] * scale)) + ((sp,) if sp else ()))
            elif k == 'transient':
                out.append(('R', ('transient', TRANSIENT[(variant + j) % len(TRANSIENT)])))
                j += 1
            elif k == 'fatal':
                out.append(('R', ('fatal', FATAL[(variant + j) % len(FATAL)])))
                j += 1
            else:
                return None     # "fatalkeep": the pinned Client's reaction to ECONNRESET, a defect generator only
        elif op == 'C':
            out.append(('C',))
        elif op == 'E':
            if kind != 'FileRW':
                return None
            out.append(('E',))
    return out


def run_script(kind, script, seed=1):
    """Replay a concrete script on a real endpoint; return (trace lines, notes)."""
    ep = Endpoint(kind, seed)
    notes = []
    try:
        for step in script:
            if ep.script.closed:
                notes.append('closed-before-end')
                break
            if step[0] == 'W':
                ep.write(step[1])
            elif step[0] == 'R':
                if not ep.is_writing():
                    notes.append('not-writing-at-ready')
                    continue
                ep.ready(step[1], step[2] if len(step) > 2 else None)
            elif step[0] == 'C':
                ep.closereq()
            elif step[0] == 'E':
                if ep.kind == 'FileRW':
                    ep.read_eof()
        ep.quiesce()
        if ep.script.unscripted and any(s[0] == 'R' for s in script):
            pass
        return [{k: v for k, v in ln.items() if k != 'errno'} for ln in ep.log], notes, list(ep.log)
    finally:
        ep.teardown()


def witness_of(kind, full_log, badline, clause):
    """Classify a failure for known-finding matching: endpoint + the last
    non-accept send outcome at or before the failing line."""
    trig = 'none'
    for ln in full_log[:badline]:
        if ln.get('k') == 'send' and ln.get('r') in ('transient', 'fatal'):
            trig = ln.get('errno', ln['r'])
    return {'endpoint': kind, 'trigger': trig}


def random_script(rnd, maxlen, sizes):
    script = []
    closed = False
    pending = 0
    for _ in range(rnd.randint(1, maxlen)):
        r = rnd.random()
        if not closed and r < 0.35:
            n = rnd.choice(sizes)
            script.append(('W', n))
            pending += n
        elif r < 0.9:
            q = rnd.random()
            if q < 0.55:
                st = ('R', ('accept', rnd.choice([0, 1, 2, 5, 100, 4096, 70000, 1 << 20, 1 << 30])))
                if rnd.random() < 0.4:
                    st = st + (rnd.choice([('transient', rnd.choice(TRANSIENT)), ('accept', 0), ('fatal', rnd.choice(FATAL))]),)
                script.append(st)
            elif q < 0.92:
                script.append(('R', ('transient', rnd.choice(TRANSIENT))))
            else:
                script.append(('R', ('fatal', rnd.choice(FATAL))))
        elif not closed and rnd.random() < 0.7:
            script.append(('C',))
            closed = True
        else:
            script.append(('E',))        # only a FileRW endpoint reacts to it
    return script


def mutate_trace(rnd, lines):
    """Corrupt a recorded (accepted) trace so that it must be rejected; returns
    (lines, description) or None if this trace offers no such corruption."""
    sends = [i for i, ln in enumerate(lines) if ln['k'] == 'send' and ln['r'] == 'accept'
             and i + 1 < len(lines) and lines[i + 1]['k'] == 'acc' and lines[i + 1]['a'] > 0]
    if not sends or any(ln['k'] == 'send' and ln['r'] == 'fatal' for ln in lines):
        return None   # after a fatal error the monitor deliberately stops judging offsets
    i = rnd.choice(sends)
    out = [dict(ln) for ln in lines]
    how = rnd.choice(['drop_acc', 'shift_off'])
    if how == 'drop_acc':
        # the OS accepted bytes but the log loses them: next send repeats / quiet undrained
        later = [j for j in range(i + 2, len(out)) if out[j]['k'] in ('send', 'quiet', 'close')]
        if not later:
            return None
        out[i + 1]['a'] = 0
        return out, 'acc->0 at line %d' % (i + 2)
    out[i]['a'] += 1
    return out, 'send offset +1 at line %d' % (i + 1)


def _norm(lines):
    """Normal form for comparing the model's lines with the real ones: close and
    signal may come in either order and an error may be signalled by one or two
    events, so each adjacent run of them becomes a sorted set; whether the
    endpoint also closes after a fatal send is left open (Client keeps the
    socket on ECONNRESET)."""
    out = []
    run_ = set()
    after_fatal = False
    for ln in lines:
        k = ln['k']
        if k in ('close', 'signal'):
            if not (k == 'close' and after_fatal):
                run_.add(k)
            continue
        out.extend(sorted(run_))
        run_ = set()
        after_fatal = k == 'send' and ln['r'] == 'fatal'
        out.append((k, 0 if (k == 'send' and ln['b'] == 0) else ln['a'], ln['b'], ln['r']))  # an empty chunk has no offset
    out.extend(sorted(run_))
    return out


def run_replay(path):
    """./check C11 --replay <file>: re-run one recorded script on the real endpoint."""
    import json
    rec = json.load(open(path))
    d = rec['detail']
    script = [tuple(tuple(x) if isinstance(x, list) else x for x in st) for st in d['script']]
    lines, notes, full = run_script(d['endpoint'], script, seed=1)
    verdicts, _ = tlc.validate_traces(SPEC, 'WriteBufTrace', 'WriteBufTrace.cfg', [lines], shards=1)
    clause, line = verdicts[0]
    for i, ln in enumerate(full, 1):
        print('%3d %s' % (i, ln))
    if clause:
        print('VIOLATION property=C11 replay=%s clause=%s line=%d' % (path, clause, line))
        return 1
    print('replay accepted: no clause of C11 fails on this tree')
    return 0


def run(tier, replay=None):
    use_repo()
    if replay:
        return run_replay(replay)
    ctx = Ctx('C11', tier)
    rnd = random.Random(ctx.seed * 7919 + 11)
    quick = tier == 'quick'

    # 1. exhaustive model check (the property on the design)
    mc = tlc.model_check(SPEC, 'WriteBuf', 'MC_WriteBuf.cfg' if quick else 'MC_WriteBuf_thorough.cfg', coverage=True)
    for act in ('Write', 'Ready', 'CloseReq', 'ReadEof', 'Quiet'):
        if act in mc.coverage and mc.coverage[act][1] == 0:
            raise tlc.MachineryError('vacuous model: action %s never taken' % act)
    # the defect generator: the drop variant must violate the property in the model
    gen = tlc.run_tlc(SPEC, 'WriteBuf', 'MC_WriteBuf_drop.cfg')
    if not gen.violated:
        raise tlc.MachineryError('the "drop" variant of WriteBuf.tla no longer violates C11: the model lost its teeth')
    gen3 = tlc.run_tlc(SPEC, 'WriteBuf', 'MC_WriteBuf_fatalkeep.cfg')
    if not gen3.violated:
        raise tlc.MachineryError('the "fatalkeep" deviation of WriteBuf.tla no longer violates C11: the model lost its teeth')
    gen2 = tlc.run_tlc(SPEC, 'WriteBuf', 'MC_WriteBuf_eofdiscard.cfg')
    if not gen2.violated:
        raise tlc.MachineryError('the "eofdiscard" variant of WriteBuf.tla no longer violates C11: the model lost its teeth')

    # 2. every environment history of the model up to the bound (spec -> code)
    res, states = tlc.dump_states(SPEC, 'WriteBuf', 'HIST_WriteBuf.cfg' if quick else 'HIST_WriteBuf_thorough.cfg')
    hists = {}
    for st in states:
        h = st['hist']
        hists[tlc.tlaval._hashable(h)] = (h, st.get('out', None))
    # keep maximal histories (not a proper prefix of another)
    keys = set(hists)
    prefixes = set()
    for k in keys:
        for i in range(len(k)):
            prefixes.add(k[:i])
    maximal = [hists[k] for k in sorted(keys - prefixes, key=repr)]

    # the thorough dump has tens of thousands of maximal histories: all of them are checked by TLC in the model, a
    # seeded sample of them (every history of the quick bound included) is replayed on the real endpoints
    n_maximal = len(maximal)
    cap = 2500
    if len(maximal) > cap:
        short = [m for m in maximal if len(m[0]) <= 4]
        rest = [m for m in maximal if len(m[0]) > 4]
        rnd.shuffle(rest)
        maximal = short + rest[:max(0, cap - len(short))]
    traces = []      # (meta, lines, full_log)
    scales = [1] if quick else [1, 4096]
    n_model_match = 0
    n_model_cmp = 0
    for idx, (h, mout) in enumerate(maximal):
        for kind in ENDPOINTS:
            variants = [idx % 4] if quick else [0, 1, 2, 3]
            for variant in variants:
                for scale in scales:
                    if scale != 1 and variant != idx % 4:
                        continue
                    script = realise(h, variant, scale, kind, spare=(idx + variant) % 3)
                    if script is None:
                        continue
                    lines, notes, full = run_script(kind, script, seed=idx)
                    meta = {'endpoint': kind, 'script': script, 'origin': 'tlc-history', 'notes': notes}
                    traces.append((meta, lines, full))
                    if mout is not None and scale == 1:
                        n_model_cmp += 1
                        ml = _norm(mout)
                        rl = _norm(lines)
                        # a maximal history is cut by the bound: the real run goes on to
                        # quiescence, so the model's lines must be a prefix of the real ones
                        if rl[:len(ml)] == ml:
                            n_model_match += 1
                        else:
                            ctx.note_drift('%s trace differs from the model\'s lines for history %s' % (kind, h))

    # 3. random longer scripts (code -> spec)
    nrand = 300 if quick else 6000
    sizes = [0, 1, 3, 17, 4096, 70000] + ([3 << 20] if not quick else [])
    for i in range(nrand):
        kind = ENDPOINTS[i % len(ENDPOINTS)]
        script = random_script(rnd, 14 if quick else 30, sizes)
        lines, notes, full = run_script(kind, script, seed=1000 + i)
        traces.append(({'endpoint': kind, 'script': script, 'origin': 'random', 'notes': notes}, lines, full))

    verdicts, stats = tlc.validate_traces(SPEC, 'WriteBufTrace', 'WriteBufTrace.cfg', [t[1] for t in traces],
                                          shards=8 if quick else 16)
    accepted = []
    for (meta, lines, full), (clause, line) in zip(traces, verdicts):
        nontrivial = any(ln['k'] == 'send' for ln in lines)
        ctx.count_case([meta['endpoint'], meta['script']], nontrivial,
                       sample={'endpoint': meta['endpoint'], 'script': meta['script'], 'trace': lines[:12], 'verdict': clause or 'accepted'})
        if clause:
            w = witness_of(meta['endpoint'], full, line, clause)
            ctx.violation(clause, w, {'endpoint': meta['endpoint'], 'script': meta['script'], 'trace': lines, 'line': line})
        else:
            accepted.append(lines)

    # 4. binding demonstration: corrupted real traces must be rejected
    muts = []
    for lines in accepted:
        if len(muts) >= (60 if quick else 400):
            break
        m = mutate_trace(rnd, lines)
        if m:
            muts.append(m)
    if muts:
        mv, _ = tlc.validate_traces(SPEC, 'WriteBufTrace', 'WriteBufTrace.cfg', [m[0] for m in muts], shards=4)
        missed = [muts[i][1] for i, (c, _) in enumerate(mv) if not c]
        if missed:
            raise tlc.MachineryError('trace spec accepted %d corrupted traces, e.g. %s' % (len(missed), missed[0]))

    return ctx.finish(coverage={
        'states': mc.distinct, 'transitions': mc.generated,
        'traces_validated_against_impl': len(traces),
        'model_histories_replayed': len(maximal), 'model_histories_maximal': n_maximal,
        'history_dump_states': res.distinct,
        'model_line_exact_match': n_model_match, 'model_line_compared': n_model_cmp,
        'trace_validation_states': stats['states'],
        'corrupted_traces_rejected': len(muts),
        'drop_variant_counterexample': gen.violated,
        'rule': 'cases = (endpoint, concrete script); from every maximal environment history TLC dumps for WriteBuf.tla '
                '(errno variant rotated) x {Server, Client, File}, plus seeded random scripts; non-trivial = the endpoint '
                'handed at least one chunk to the OS; distinct by hash of (endpoint, script)',
        'exhaustive': False,
    }, assumptions=[
        'send()/os.write() outcomes are scripted by doubles; the kernel itself is not exercised',
        'payload byte equality is decided by the projection (offset lookup in the written stream), order/multiplicity by TLC',
    ])
