"""C05 - `complete` fires exactly once, after the whole causal closure has drained."""

from .. import kernelgen
from ..kernelcheck import run_kernel_check


def _h(comp, names, prio, script):
    return {'comp': comp, 'names': names, 'chan': None, 'prio': prio, 'script': script}


def fam_tree(maxops):
    """x0 (complete) -> x1, x2 ; x1 (complete, nested) -> x2 -> x3; a descendant cancelled / stopped / raising."""
    return {
        'comps': {'1': {'chan': 'a'}},
        'handlers': {
            '1': _h(1, ['x0'], 1, {'x0': [['fire', {'name': 'x1', 'flags': 4}], ['fire', {'name': 'x2'}]]}),
            '2': _h(1, ['x0'], 0, {'x0': [['fire', {'name': 'x3'}], ['cancel_last']]}),
            '3': _h(1, ['x1'], 0, {'x1': [['fire', {'name': 'x2'}], ['stop']]}),
            '4': _h(1, ['x1'], -1, {'x1': [['ret', 4]]}),
            '5': _h(1, ['x2'], 0, {'x2': [['fire', {'name': 'x3'}], ['raise']]}),
            '6': _h(1, ['x3'], 0, {'x3': [['ret', 6]]}),
            '7': _h(1, ['x0_complete', 'x1_complete'], 0, {}),
        },
        'ext': [{'name': 'x0', 'flags': 4}, {'name': 'x1', 'flags': 4}, {'name': 'x2', 'flags': 0}],
        'ops': ['fire', 'flush', 'cancel', 'rmh'], 'pre': [], 'maxops': maxops, 'firers': [1], 'flushers': [1], 'dyn': [2, 3, 5],
    }


def fam_gensteps(maxops):
    """events fired from later steps of generator handlers, nested completion requests"""
    return {
        'comps': {'1': {'chan': 'a'}},
        'handlers': {
            '1': _h(1, ['x0'], 0, {'x0': [['yield', None], ['fire', {'name': 'x1', 'flags': 4}], ['yield', None], ['ret', 1]]}),
            '2': _h(1, ['x1'], 0, {'x1': [['fire', {'name': 'x2'}]]}),
            '3': _h(1, ['x2'], 0, {'x2': [['yield', None], ['fire', {'name': 'x3'}], ['cancel_last'], ['ret', 2]]}),
            '4': _h(1, ['x3'], 0, {'x3': [['ret', 3]]}),
            '5': _h(1, ['x2'], -1, {'x2': [['yield', None], ['raise']]}),
            '6': _h(1, ['x0_complete', 'x1_complete'], 0, {}),
        },
        'ext': [{'name': 'x0', 'flags': 4}, {'name': 'x1', 'flags': 4}],
        'ops': ['fire', 'tick', 'cancel', 'rmh'], 'pre': [], 'maxops': maxops, 'firers': [1], 'flushers': [1], 'dyn': [3, 5],
    }


def fam_calls(maxops):
    """a completion-tracked event whose generator handler call()s twice; the second callee starts a chain
    that is still in flight when the caller finishes"""
    chain = {}
    names = ['y2', 'y3', 'y4', 'y5', 'y6']
    hs = {
        '1': _h(1, ['x0'], 0, {'x0': [['call', {'name': 'y1'}, None], ['call', {'name': 'y2'}, None], ['ret', 1]]}),
        '2': _h(1, ['y1'], 0, {'y1': [['ret', 2]]}),
    }
    for i, nm in enumerate(names):
        nxt = names[i + 1] if i + 1 < len(names) else None
        hs[str(3 + i)] = _h(1, [nm], 0, {nm: ([['fire', {'name': nxt}]] if nxt else [['ret', 9]])})
    hs[str(3 + len(names))] = _h(1, ['x0_complete'], 0, {})
    return {
        'comps': {'1': {'chan': 'a'}}, 'handlers': hs,
        'ext': [{'name': 'x0', 'flags': 4}, {'name': 'y2', 'flags': 4}],
        'ops': ['fire', 'tick'], 'pre': [], 'maxops': maxops, 'firers': [1], 'flushers': [1], 'dyn': [],
    }


def fam_callraise(maxops):
    """a completion-tracked event whose descendant is handled by a generator that raises in the step in which
    it is resumed from a call() / a wait(): the descendant must still finish and let the ancestor complete"""
    return {
        'comps': {'1': {'chan': 'a'}},
        'handlers': {
            '1': _h(1, ['x0'], 0, {'x0': [['fire', {'name': 'x1'}], ['fire', {'name': 'x2', 'flags': 4}]]}),
            '2': _h(1, ['x1'], 0, {'x1': [['call', {'name': 'x3'}, None], ['raise']]}),
            '3': _h(1, ['x2'], 0, {'x2': [['fire', {'name': 'x3'}], ['wait', {'name': 'x3'}, None], ['raise']]}),
            '4': _h(1, ['x3'], 0, {'x3': [['ret', 3]]}),
            '5': _h(1, ['x0_complete', 'x2_complete'], 0, {}),
        },
        'ext': [{'name': 'x0', 'flags': 4}, {'name': 'x1', 'flags': 4}],
        'ops': ['fire', 'tick'], 'pre': [], 'maxops': maxops, 'firers': [1], 'flushers': [1], 'dyn': [],
    }


RANDOM_OPTS = {
    'ncomp': 2, 'shapes': ['plain', 'class'], 'nhandlers': (3, 8), 'prios': [-1, 0, 0, 1],
    'kinds': ['named', 'named', 'named', 'catchall'], 'nnames': 4,
    'script_ops': ['ret', 'fire', 'fire', 'fire', 'raise', 'stop', 'cancel', 'yield', 'yield', 'exit'], 'flags': [0, 0, 4, 4, 5], 'maxfire': 2,
    'maxops_script': 5, 'targets': [None, '*'], 'p_script': 0.9,
    'hist_ops': ['fire', 'fire', 'flush', 'tick', 'cancel'], 'histlen': (2, 6), 'ext_names': 2, 'p_attach': 1.0,
    'p_feedback_ch': 0.3,
}


def exit_cases():
    """an event of a tracked closure has a generator handler and, after it, a handler that leaves with SystemExit or
    KeyboardInterrupt (on a manager that is stepped by hand these do not stop anything): the closure still drains and
    completes"""
    for how, pgen, flags in [(h, p, f) for h in (['exit', None], ['exit', 3], ['kbint'], ['raise']) for p in (1, -1) for f in (4, 5)]:
        prog = {'comps': {'1': {'chan': 'a'}},
                'handlers': {
                    '1': {'comp': 1, 'names': ['x0'], 'chan': None, 'prio': 0, 'script': {'x0': [['fire', {'name': 'x1', 'prio': 0, 'flags': 0, 'ch': None}]]}},
                    '2': {'comp': 1, 'names': ['x1'], 'chan': None, 'prio': pgen, 'script': {'x1': [['yield', None], ['fire', {'name': 'x2', 'prio': 0, 'flags': 0, 'ch': None}], ['ret', 4]]}},
                    '3': {'comp': 1, 'names': ['x1'], 'chan': None, 'prio': 0, 'script': {'x1': [how]}},
                    '4': {'comp': 1, 'names': ['x2'], 'chan': None, 'prio': 0, 'script': {'x2': [['ret', 2]]}}},
                'dyn': []}
        yield prog, [['fire', 1, {'name': 'x0', 'prio': 0, 'flags': flags, 'ch': None}]] + [['tick', 1]] * 8


def stopcall_cases():
    """an event of a tracked closure is fired by call() / awaited by wait() and a handler of it stops it (before or after
    other handlers ran) or it is cancelled before its dispatch: the caller is resumed and the closure completes"""
    for how, pstop, flags in [(h, p, f) for h in ('call', 'wait') for p in (2, 0, -1) for f in (4, 5)]:
        if how == 'call':
            caller = [['call', {'name': 'x1', 'prio': 0, 'flags': 0, 'ch': None}, None], ['ret', 4]]
        else:
            caller = [['fire', {'name': 'x1', 'prio': 0, 'flags': 0, 'ch': None}],
                      ['wait', {'name': 'x1', 'prio': 0, 'flags': 0, 'ch': None, 'byname': False}, None], ['ret', 4]]
        prog = {'comps': {'1': {'chan': 'a'}},
                'handlers': {
                    '1': {'comp': 1, 'names': ['x0'], 'chan': None, 'prio': 0, 'script': {'x0': caller}},
                    '2': {'comp': 1, 'names': ['x1'], 'chan': None, 'prio': pstop, 'script': {'x1': [['stop'], ['ret', 2]]}},
                    '3': {'comp': 1, 'names': ['x1'], 'chan': None, 'prio': 1, 'script': {'x1': [['ret', 3]]}},
                    '4': {'comp': 1, 'names': ['x1'], 'chan': None, 'prio': -2, 'script': {'x1': [['ret', 5]]}}},
                'dyn': []}
        yield prog, [['fire', 1, {'name': 'x0', 'prio': 0, 'flags': flags, 'ch': None}]] + [['tick', 1]] * 8


def gen_random(rnd, quick):
    yield from exit_cases()
    yield from stopcall_cases()
    for i in range(400 if quick else 8000):
        prog = kernelgen.gen_program(rnd, RANDOM_OPTS)
        yield prog, kernelgen.gen_history(rnd, RANDOM_OPTS, prog)


def _closure(lines, x):
    """closure of event x by origin, and per-event facts"""
    origin = {ln['e']: ln['o'] for ln in lines if ln['k'] == 'fire' and ln['y'] not in (1, 2, 3, 4, 5, 6)}
    clo = {x}
    changed = True
    while changed:
        changed = False
        for e, o in origin.items():
            if o in clo and e not in clo:
                clo.add(e)
                changed = True
    return clo


def witness(prog, lines, clause, line):
    ln = lines[line - 1]
    if ln['k'] == 'fire':
        x = ln['x']
    else:
        # quiescence clause: find an event that asked for completion and never got it
        asked = [l['e'] for l in lines if l['k'] == 'fire' and l['f'] & 4]
        got = {l['x'] for l in lines if l['k'] == 'fire' and l['y'] == 3}
        cand = [e for e in asked if e not in got]
        x = cand[0] if cand else 0
    clo = _closure(lines, x) if x else set()
    cancelled = any(l['k'] == 'disp' and l['f'] == 1 and l['e'] in clo for l in lines) or \
        any(l['k'] in ('op', 'api') and l['n'] == 'cancel' and (l['x'] in clo or l['e'] in clo) for l in lines)
    from_gen_step = any(l['k'] == 'fire' and l['e'] in clo and l['o'] and
                        any(s['k'] == 'step' and s['e'] == l['o'] and s['h'] == l['h'] and s['d'] >= 1 for s in lines[:lines.index(l)])
                        for l in lines)
    gens = any(l['k'] == 'ret' and l['f'] == 2 and l['e'] in clo for l in lines)
    return {'closure_has_cancelled_event': cancelled, 'closure_event_fired_from_generator': from_gen_step,
            'closure_has_generator_handler': gens}


def mutate(rnd, prog, lines):
    # move a complete notification to just after the dispatch of its event began
    comp = [i for i, ln in enumerate(lines) if ln['k'] == 'fire' and ln['y'] == 3]
    rnd.shuffle(comp)
    for i in comp:
        x = lines[i]['x']
        clo = _closure(lines, x)
        if len(clo) < 2:
            continue
        # insert before the dispatch-end of the last closure member
        dends = [j for j, ln in enumerate(lines[:i]) if ln['k'] == 'dend' and ln['e'] in clo]
        if not dends:
            continue
        j = dends[-1]
        out = [dict(ln) for ln in lines]
        moved = out.pop(i)
        out.insert(j, moved)
        return out, 'complete of e%d moved before the end of the dispatch of e%d' % (x, lines[j]['e'])
    return None


def run(tier, replay=None):
    quick = tier == 'quick'
    spec = {
        'own': ['C05'],
        'families': [
            {'name': 'tree', 'programs': [fam_tree(3 if quick else 4)], 'hist_programs': [fam_tree(2 if quick else 3)],
             'hist_cap_quick': 800},
            {'name': 'generator-steps', 'programs': [fam_gensteps(2 if quick else 3)], 'hist_programs': [fam_gensteps(2 if quick else 3)],
             'hist_cap_quick': 600},
            # (three external operations make tens of millions of states for the call families: two in both tiers)
            {'name': 'calls', 'programs': [fam_calls(2)], 'hist_programs': [fam_calls(2)],
             'hist_cap_quick': 300},
            {'name': 'call-then-raise', 'programs': [fam_callraise(2)], 'hist_programs': [fam_callraise(2)],
             'hist_cap_quick': 300},
        ],
        'teeth': [{'name': 'tree/CancelLeak', 'programs': [fam_tree(2)], 'variants': {'CancelLeak': True},
                   'expect': {'CompleteDelivered', 'ConformsC05'}},
                  {'name': 'generator-steps/StepUntracked', 'programs': [fam_gensteps(2)], 'variants': {'StepUntracked': True},
                   'expect': {'CompleteDelivered', 'ConformsC05'}},
                  {'name': 'generator-steps/GenErrorHang', 'programs': [fam_gensteps(2)], 'variants': {'GenErrorHang': True},
                   'expect': {'CompleteDelivered', 'ConformsC05', 'ConformsC04', 'NoTaskResidue'}}],
        'random': gen_random, 'witness': witness, 'mutators': mutate,
        'nontrivial': lambda p, ls: any(ln['k'] == 'fire' and ln['f'] & 4 for ln in ls),
        'rule': 'cases = (program, external history): every complete history TLC generates for the event-tree family (fan-out 2, depth 3, '
                'nested complete-requesting events, descendants cancelled / stopped / raising, handler removal) replayed on the real '
                'classes, plus seeded random programs that add generator handlers firing from later steps; non-trivial = some event '
                'requested completion; distinct by hash',
        'assumptions': ['causality (which handler segment fired an event) is the harness\'s own bookkeeping, not the code\'s cause/effects',
                        'events fired into another tree are not generated'],
    }
    return run_kernel_check('C05', tier, spec, replay)
