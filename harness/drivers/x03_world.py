"""X03 - the world the real circuits.core.workers.Worker is driven in.

A root Manager stepped by hand (`tick()`), the real Worker registered on it,
an observer component (logs `taken`, `success`, `failure`, `complete`,
`unregistered`), a caller component (a generator handler that does
`x = yield self.call(task(job, t, code=..), 'worker')`), a bystander component
(unregistered by the `O` step) and the pool:

  * 'fake'  - FakePool: `apply_async` queues the submission and returns a
              FakeResult; the callable runs when the driver says `exec(t)`, the
              result becomes ready when the driver says `publish(t)`; `close` /
              `join` / `terminate` behave as multiprocessing.pool.Pool's do
              (join runs what is queued, in order, and publishes it).  Every
              interleaving of submissions, executions, completions and ticks
              that TLC enumerates can be replayed exactly.
  * 'process' - Worker(process=True): the real multiprocessing.Pool, free-running; the
              children count the executions of each job in shared memory
  * 'real'  - the real multiprocessing.pool.ThreadPool the Worker created; the
              pool's `apply_async` / `close` / `join` are wrapped (instance
              attributes, nothing in /repo or the standard library is edited)
              so that submissions, polls and gets are logged; each job waits on
              a gate that the driver opens (`exec`), `publish` waits - bounded,
              a time-out is a machinery error, never a verdict - until the
              real AsyncResult is ready.  `gated=False`: the jobs run freely.

Nothing in /repo is edited: `circuits.core.workers.ThreadPool` is a module
global replaced from outside while the Worker is constructed (fake family).

A trace line is a flat record {k, t, v, r} (see spec/extra/WorkersOps.tla).
"""

import threading
import time

WAIT_S = 300.0          # bound on every wait for the real pools (machinery error when exceeded; the machine may be very busy)
SETTLE_TICKS = 40       # cap of the driver's settling loop (= SettleCap of Workers.tla)

# outcome classes of a job (the `v` of a fire line): what job(t, code=c) does
VAL, FALSY, NONE, RAISE = 1, 2, 3, 4
# further codes of an observed value
WRONG, MULTI, FOREIGN = 5, 6, 7

FALSY_VALUES = [0, '', (), 0.0, False]

import multiprocessing as _mp
_EXEC = _mp.Array('i', 64)     # process pools: how often job t has started (children inherit the mapping by fork)

_WORLD = None            # the World whose jobs are running (jobs are module-level functions: picklable, found by name)


class JobError(Exception):
    def __init__(self, t):
        Exception.__init__(self, t)      # args = (t,): survives pickling (process pools)
        self.t = t

    def __str__(self):
        return 'job %r failed' % (self.t,)


class NotDriven(Exception):
    """The harness cannot go on (a wait for the real pool timed out ...): machinery failure."""


def expected_value(t, code):
    if code == VAL:
        return ('v', t)
    if code == FALSY:
        return FALSY_VALUES[t % len(FALSY_VALUES)]
    return None


def job(t, code=0):
    """What a task runs in the pool.  Logs its execution (after its gate has been opened)."""
    w = _WORLD
    if w is not None:
        w.job_started(t)
    if code == RAISE:
        raise JobError(t)
    if code not in (VAL, FALSY, NONE):
        raise RuntimeError('job %r called with code %r' % (t, code))    # arguments garbled on the way
    return expected_value(t, code)


def code_of(t, code, obj, errors=False):
    """Classify an observed value of task t (fired with outcome class `code`)."""
    if isinstance(obj, list):
        return MULTI
    if errors or (isinstance(obj, tuple) and len(obj) == 3 and isinstance(obj[0], type) and issubclass(obj[0], BaseException)):
        exc = obj[1] if isinstance(obj, tuple) and len(obj) == 3 else obj
        if isinstance(exc, JobError) and exc.t == t:
            return RAISE
        return FOREIGN
    if obj is None:
        return NONE
    if code == VAL and obj == ('v', t):
        return VAL
    if code == FALSY:
        want = FALSY_VALUES[t % len(FALSY_VALUES)]
        if type(obj) is type(want) and obj == want:
            return FALSY
    return WRONG


# ---------------------------------------------------------------------------
# the deterministic pool

class FakeResult:
    def __init__(self, pool, t, f, args, kwds):
        self.pool = pool
        self.t = t
        self.f = f
        self.args = args
        self.kwds = kwds
        self.state = 'queued'        # queued | execd | ready | dropped
        self.ok = None
        self.val = None

    def ready(self):
        r = self.state == 'ready'
        self.pool.world.line('poll', self.t, 1 if r else 0)
        return r

    def successful(self):
        if self.state != 'ready':
            raise ValueError('%r not ready' % self)
        return self.ok

    def wait(self, timeout=None):
        if timeout is not None:
            # a bounded wait returns by itself: a poll (that costs the loop up to `timeout`)
            self.pool.world.line('poll', self.t, 1 if self.state == 'ready' else 0, 'wait')
            return
        self.pool.world.line('get', self.t, 1 if self.state == 'ready' else 0, 'wait')
        if self.state != 'ready':
            self.pool.finish(self)

    def get(self, timeout=None):
        self.pool.world.line('get', self.t, 1 if self.state == 'ready' else 0)
        if self.state != 'ready':
            # the real get() would block the loop until the pool has finished the job
            if timeout is not None and self.state == 'dropped':
                raise TimeoutError()
            self.pool.finish(self)
        if self.ok:
            return self.val
        raise self.val


class FakePool:
    def __init__(self, world, n):
        self.world = world
        self.n = n
        self.state = 'run'           # run | closed | terminated
        self.items = []              # every submission, in order

    # -- what Worker uses ------------------------------------------------------
    def apply_async(self, func, args=(), kwds={}, callback=None, error_callback=None):
        t = args[0] if args and isinstance(args[0], int) else 0
        if self.state != 'run':
            self.world.line('submit', t, 0, 'rejected')
            raise ValueError('Pool not running')
        self.world.line('submit', t)
        r = FakeResult(self, t, func, tuple(args), dict(kwds))
        self.items.append(r)
        return r

    def apply(self, func, args=(), kwds={}):
        return self.apply_async(func, args, kwds).get()

    def close(self):
        self.world.line('closed')
        if self.state == 'run':
            self.state = 'closed'

    def terminate(self):
        self.world.line('closed', 0, 0, 'terminate')
        self.state = 'terminated'
        for r in self.items:
            if r.state == 'queued':
                r.state = 'dropped'

    def join(self):
        if self.state == 'run':
            raise ValueError('Pool is still running')
        for r in self.items:
            if r.state in ('queued', 'execd') and self.state == 'closed':
                self.finish(r)
        self.world.line('joined')

    def __getattr__(self, name):
        raise NotDriven('the pool double has no %r' % name)

    # -- what the driver uses --------------------------------------------------
    def find(self, t, state):
        for r in self.items:
            if r.t == t and r.state == state:
                return r
        return None

    def execute(self, r):
        r.state = 'execd'
        try:
            r.val = r.f(*r.args, **r.kwds)
            r.ok = True
        except BaseException as e:      # noqa
            r.val = e
            r.ok = False

    def publish(self, r):
        r.state = 'ready'
        self.world.line('ready', r.t)

    def finish(self, r):
        if r.state == 'queued':
            self.execute(r)
        if r.state == 'execd':
            self.publish(r)

    def pending(self):
        return [r for r in self.items if r.state in ('queued', 'execd')]


# ---------------------------------------------------------------------------
# the real pool, observed

class RealResult:
    """Proxy of a real AsyncResult: logs polls and gets."""

    def __init__(self, world, t, res):
        self.world = world
        self.t = t
        self.res = res
        self.seen_ready = False      # a `ready` line has been logged

    def _note_ready(self):
        if not self.seen_ready:
            self.seen_ready = True
            self.world.sync_execs()
            self.world.line('ready', self.t)

    def ready(self):
        r = self.res.ready()
        if r:
            self._note_ready()       # first seen here: the pool finished some time ago
        self.world.line('poll', self.t, 1 if r else 0)
        return r

    def successful(self):
        return self.res.successful()

    def wait(self, timeout=None):
        r = self.res.ready()
        if r:
            self._note_ready()
        if timeout is not None:
            self.world.line('poll', self.t, 1 if r else 0, 'wait')
            self.res.wait(min(timeout, 0.001))
            return
        self.world.line('get', self.t, 1 if r else 0, 'wait')
        if not r:
            self.world.open_gate(self.t)
        self.res.wait(WAIT_S)

    def get(self, timeout=None):
        r = self.res.ready()
        if r:
            self._note_ready()
        self.world.line('get', self.t, 1 if r else 0)
        if not r:
            self.world.open_gate(self.t)      # the loop blocks here: let the job end
            self.res.wait(WAIT_S)
            if not self.res.ready():
                raise NotDriven('real pool: result of task %d not ready after %.0f s' % (self.t, WAIT_S))
            self._note_ready()
        return self.res.get()


# ---------------------------------------------------------------------------

class World:
    def __init__(self, pool='fake', workers=None, gated=True, complete=False):
        from circuits import BaseComponent, Manager, handler
        import circuits.core.workers as workers_mod
        global _WORLD
        self.kind = pool
        self.gated = gated
        self.complete = complete
        self.log = []
        self.lock = threading.Lock()
        self.events = {}             # t -> task event
        self.codes = {}              # t -> outcome class
        self.valstate = {}           # t -> what the last `value` line said
        self.gates = {}
        self.results = {}            # t -> [RealResult]
        self.exceptions = 0
        self.unsettled = False
        self.torn = False
        self.terminated = False
        _WORLD = self
        self.m = Manager()
        world = self

        if pool == 'fake':
            saved = workers_mod.ThreadPool
            workers_mod.ThreadPool = lambda n: FakePool(world, n)
            try:
                self.w = workers_mod.Worker(workers=workers).register(self.m)
            finally:
                workers_mod.ThreadPool = saved
            self.pool = self.w.pool
            if not isinstance(self.pool, FakePool):
                raise NotDriven('Worker did not take its pool from circuits.core.workers.ThreadPool')
        elif pool == 'process':
            self.gated = False
            self.execs_logged = {}
            with _EXEC.get_lock():
                for i in range(len(_EXEC)):
                    _EXEC[i] = 0
            self.w = workers_mod.Worker(process=True, workers=workers or 2).register(self.m)
            self.pool = self.w.pool
            self._wrap_real_pool()
        else:
            self.w = workers_mod.Worker(workers=workers).register(self.m)
            self.pool = self.w.pool
            self._wrap_real_pool()

        class Obs(BaseComponent):
            channel = 'worker'

            @handler('task', priority=100)
            def _on_task_seen(self, event, *args, **kwargs):
                t = world.tid(event)
                world.line('taken', t, 1 if world.w.root is world.m else 0)

            @handler('task_success')
            def _on_success(self, e, value):
                t = world.tid(e)
                world.line('success', t, code_of(t, world.codes.get(t, 0), value))

            @handler('task_failure')
            def _on_failure(self, e, err):
                t = world.tid(e)
                world.line('failure', t, code_of(t, world.codes.get(t, 0), err, True))

            @handler('task_complete')
            def _on_complete(self, e, value):
                world.line('complete', world.tid(e))

            @handler('unregistered', channel='*')
            def _on_unregistered(self, comp, parent):
                if comp is world.w:
                    world.line('unregistered', 0, 1)
                elif comp is world.bystander:
                    world.line('unregistered', 0, 0)

            @handler('exception', channel='*')
            def _on_exception(self, *args, **kwargs):
                world.exceptions += 1

        class App(BaseComponent):
            channel = 'app'

            @handler('go')
            def _on_go(self, t, code):
                e = world.new_task(t, code, 'call')
                x = yield self.call(e, 'worker')
                world.line('resume', t, code_of(t, code, x.value, x.errors), 'err' if x.errors else 'ok')

        class Bystander(BaseComponent):
            channel = 'by'

        self.obs = Obs().register(self.m)
        self.app = App().register(self.m)
        self.bystander = Bystander().register(self.m)
        real_tick = self.m.tick

        def tick(timeout=-1):
            world.line('tick')
            real_tick(timeout)
            world.scan_values()

        self.m.tick = tick
        # registration events of the four components
        for _ in range(4):
            real_tick()
        if len(self.m) or self.m._tasks:
            raise NotDriven('world does not settle after set-up')

    # -- log -------------------------------------------------------------------
    def line(self, k, t=0, v=0, r=''):
        ln = {'k': k, 't': t, 'v': v, 'r': r}
        with self.lock:
            self.log.append(ln)
        return ln

    def tid(self, event):
        a = event.args
        if len(a) >= 2 and isinstance(a[1], int):
            return a[1]
        return 0

    def job_started(self, t):
        if self.kind == 'process':
            # in a child process: the parent logs the exec lines when it sees the result (sync_execs)
            with _EXEC.get_lock():
                if 0 <= t < len(_EXEC):
                    _EXEC[t] += 1
            return
        if self.kind == 'real' and self.gated:
            g = self.gates.get(t)
            if g is not None and not g.wait(WAIT_S):
                return          # abandoned run
        self.line('exec', t)

    def sync_execs(self):
        """process pools: log the executions the children have counted since the last look"""
        if self.kind != 'process':
            return
        with _EXEC.get_lock():
            counts = list(_EXEC)
        for t, c in enumerate(counts):
            while self.execs_logged.get(t, 0) < c:
                self.execs_logged[t] = self.execs_logged.get(t, 0) + 1
                self.line('exec', t)

    def scan_values(self):
        for t in sorted(self.events):
            v = getattr(self.events[t], 'value', None)
            if v is None or not hasattr(v, 'result'):
                continue
            raw = v.getValue(False) if hasattr(v, 'getValue') else None
            if not v.result:
                continue
            key = (len(raw) if isinstance(raw, list) else -1, bool(v.errors))
            if self.valstate.get(t) == key:
                continue
            self.valstate[t] = key
            c = code_of(t, self.codes[t], v.value, v.errors)
            self.line('value', t, c, 'multi' if c == MULTI else ('err' if v.errors else 'ok'))

    # -- steps -----------------------------------------------------------------
    def new_task(self, t, code, mode):
        from circuits import task
        e = task(job, t, code=code)
        if self.complete:
            e.complete = True
        self.events[t] = e
        self.codes[t] = code
        if self.kind == 'real' and self.gated:
            self.gates[t] = threading.Event()
        self.line('fire', t, code, mode)
        return e

    def fire(self, t, mode, code):
        from circuits import Event
        if mode == 'call':
            go = Event.create('go', t, code)
            self.m.fire(go, 'app')
        else:
            e = self.new_task(t, code, 'fire')
            self.m.fire(e, 'worker')

    def tick(self):
        self.m.tick()

    def stop(self):
        self.line('stop')
        self.m._running = True       # a manager that has been started (run() itself is not used: it sleeps)
        self.m.stop()
        self.line('stopped')

    def unregister(self):
        self.line('unreg')
        self.w.unregister()

    def unregister_other(self):
        self.line('ounreg')
        self.bystander.unregister()

    # pool steps
    def exec(self, t):
        if self.kind == 'fake':
            r = self.pool.find(t, 'queued')
            if r is None:
                return False
            self.pool.execute(r)
            return True
        n = self._count('exec', t)
        if self.terminated or n >= len(self.results.get(t, [])):
            return False             # nothing of t waits in the pool (a terminated pool starts nothing any more)
        self.open_gate(t)
        self._wait(lambda: self._count('exec', t) > n, 'job %d to start' % t)
        return True

    def publish(self, t):
        if self.kind == 'fake':
            r = self.pool.find(t, 'execd')
            if r is None:
                return False
            self.pool.publish(r)
            return True
        if self.terminated or self._count('exec', t) == 0 or all(rr.seen_ready for rr in self.results.get(t, [])):
            return False
        for rr in self.results.get(t, []):
            self._wait(rr.res.ready, 'result of task %d' % t)
            rr._note_ready()
        return True

    def drain(self):
        """The pool finishes everything it has been given (submission order)."""
        if self.kind == 'fake':
            for r in self.pool.pending():
                if self.pool.state == 'terminated':
                    break
                self.pool.finish(r)
            return
        for t in sorted(self.results):
            self.open_gate(t)
        if self.terminated:
            time.sleep(0.02)
        for t in sorted(self.results):
            for rr in self.results[t]:
                if not self.terminated:
                    self._wait(rr.res.ready, 'result of task %d' % t)
        for t in sorted(self.results):
            for rr in self.results[t]:
                if rr.res.ready():
                    rr._note_ready()

    def stable(self):
        if len(self.m) or self.m._tasks:
            return False
        if self.kind == 'fake':
            return not (self.pool.pending() and self.pool.state != 'terminated')
        return self.terminated or all(rr.seen_ready for rs in self.results.values() for rr in rs)

    def quiesce(self, cap=SETTLE_TICKS):
        n = 0
        while True:
            self.drain()
            if self.stable():
                break
            if n >= cap:
                self.unsettled = True
                break
            self.tick()
            n += 1
        self.sync_execs()
        running = self.pool_running()
        self.line('quiet', 0, 1 if running else 0, 'unsettled' if self.unsettled else '')

    def run_until_announced(self):
        """Free-running real pool: tick, with tiny sleeps, until every task fired so far has been announced
        and every caller resumed (bounded: a time-out is a machinery error)."""
        end = time.monotonic() + WAIT_S

        def owed():
            with self.lock:
                noted = {ln['t'] for ln in self.log if ln['k'] in ('success', 'failure')}
                resumed = {ln['t'] for ln in self.log if ln['k'] == 'resume'}
                fired = [(ln['t'], ln['r']) for ln in self.log if ln['k'] == 'fire']
            return any(t not in noted or (m == 'call' and t not in resumed) for t, m in fired)

        n = 0
        idle = 0
        while owed() or len(self.m) or self.m._tasks:
            if self.terminated and n > 200:
                return
            if time.monotonic() > end:
                raise NotDriven('free-running pool: tasks not announced after %.0f s' % WAIT_S)
            before = len(self.log)
            self.tick()
            n += 1
            # nothing moves any more although the pool has finished everything: whatever is still owed will
            # never come (the monitor says so at quiescence); do not wait for the clock
            pool_done = all(rr.res.ready() for rs in self.results.values() for rr in rs)
            if pool_done and not len(self.m) and not self.m._tasks and len(self.log) == before + 1:
                idle += 1
                if idle >= 5:
                    return
            else:
                idle = 0
            if n > 3:
                time.sleep(0.0003)

    def pool_running(self):
        if self.kind == 'fake':
            return self.pool.state == 'run'
        return getattr(self.pool, '_state', None) in ('RUN', 0)

    # -- real pool -------------------------------------------------------------
    def _count(self, k, t):
        with self.lock:
            return sum(1 for ln in self.log if ln['k'] == k and ln['t'] == t)

    def _wait(self, cond, what):
        end = time.monotonic() + WAIT_S
        d = 0.0002
        while not cond():
            if time.monotonic() > end:
                raise NotDriven('real pool: waited %.0f s for %s' % (WAIT_S, what))
            time.sleep(d)
            d = min(d * 2, 0.01)

    def open_gate(self, t):
        g = self.gates.get(t)
        if g is not None:
            g.set()

    def _wrap_real_pool(self):
        pool = self.pool
        world = self
        real_apply_async = pool.apply_async
        real_close = pool.close
        real_join = pool.join
        real_terminate = pool.terminate

        def apply_async(func, args=(), kwds={}, callback=None, error_callback=None):
            t = args[0] if args and isinstance(args[0], int) else 0
            # logged before the pool gets the job: a pool thread may start it at once
            ln = world.line('submit', t)
            try:
                res = real_apply_async(func, args, kwds, callback, error_callback)
            except ValueError:
                ln['r'] = 'rejected'
                raise
            rr = RealResult(world, t, res)
            world.results.setdefault(t, []).append(rr)
            return rr

        def close():
            world.line('closed')
            real_close()

        def terminate():
            world.line('closed', 0, 0, 'terminate')
            world.terminated = True         # what has not run yet never will: nothing to wait for any more
            real_terminate()

        def join():
            # the loop blocks in join(): every job must be able to end
            for t in list(world.gates):
                world.open_gate(t)
            real_join()
            for t in sorted(world.results):
                for rr in world.results[t]:
                    if rr.res.ready():
                        rr._note_ready()
            world.line('joined')

        pool.apply_async = apply_async
        pool.close = close
        pool.join = join
        pool.terminate = terminate
        self._real_terminate = real_terminate
        self._real_join = real_join

    def teardown(self):
        global _WORLD
        if self.torn:
            return
        self.torn = True
        if self.kind in ('real', 'process'):
            for t in list(self.gates):
                self.open_gate(t)
            try:
                self._real_terminate()
                self._real_join()
            except Exception:        # noqa
                pass
        if _WORLD is self:
            _WORLD = None
