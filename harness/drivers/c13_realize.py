"""C13 - realisation of message layouts as bytes, and what the witness of a
rejected trace is made of.

The TLA+ side (spec/web/HttpFraming*.tla) works on layouts:
    {line, hdrs: [n..], body: none|cl|chunked|close, cl, chunks: [{sz, ext}..], trailers: [n..]}
This module builds concrete HTTP messages *and* derives their layout from the
bytes it produced (`compose`), so the numbers TLC sees are by construction the
numbers of the bytes the real code sees.  For the layouts of the TLA+ grammar
(which carry tags: ltag/htag/btag/ver) `from_grammar` composes the message the
tags describe and checks that the derived layout equals the grammar's numbers.

Body data, header values and chunk extensions never contain CR or LF (the
model's table of CRLF offsets relies on it).
"""

import random

CRLF = b'\r\n'

LAYOUT_KEYS = ('line', 'hdrs', 'body', 'cl', 'chunks', 'trailers')


class RealiseError(Exception):
    pass


def _hexdigits(n):
    return len('%x' % n)


def compose(first_line, headers, body):
    """first_line: bytes without CRLF; headers: list of header lines (bytes, no
    CRLF; a continuation line starts with SP/HT); body: ('none',) | ('cl', data)
    | ('close', data) | ('chunked', [(data, ext)], [trailer lines]).
    The framing header (Content-Length / Transfer-Encoding) must already be in
    `headers`.  Returns (bytes, layout)."""
    out = [first_line, CRLF]
    for h in headers:
        out += [h, CRLF]
    out.append(CRLF)
    lay = {'line': len(first_line), 'hdrs': [len(h) for h in headers], 'body': body[0], 'cl': 0,
           'chunks': [], 'trailers': []}
    kind = body[0]
    if kind in ('cl', 'close'):
        out.append(body[1])
        lay['cl'] = len(body[1])
    elif kind == 'chunked':
        for data, ext in body[1]:
            if not data:
                raise RealiseError('a data chunk cannot be empty')
            out += [b'%x' % len(data), ext, CRLF, data, CRLF]
            lay['chunks'].append({'sz': len(data), 'ext': len(ext)})
        out += [b'0', CRLF]
        for t in body[2]:
            out += [t, CRLF]
            lay['trailers'].append(len(t))
        out.append(CRLF)
    elif kind != 'none':
        raise RealiseError(kind)
    data = b''.join(out)
    if total(lay) != len(data):
        raise RealiseError('layout arithmetic disagrees with the bytes: %r' % (lay,))
    return data, lay


# -- layout arithmetic (mirror of HttpFramingOps; used for classification only) --

def lines_len(ls):
    return sum(n + 2 for n in ls)


def chunk_len(c):
    return _hexdigits(c['sz']) + c['ext'] + 2 + c['sz'] + 2


def line_end(lay):
    return lay['line'] + 2


def hdr_end(lay):
    return line_end(lay) + lines_len(lay['hdrs']) + 2


def last_size_end(lay):
    return hdr_end(lay) + sum(chunk_len(c) for c in lay['chunks']) + 3


def total(lay):
    b = lay['body']
    if b == 'none':
        n = 0
    elif b in ('cl', 'close'):
        n = lay['cl']
    else:
        n = sum(chunk_len(c) for c in lay['chunks']) + 3 + lines_len(lay['trailers']) + 2
    return hdr_end(lay) + n


def region(lay, off):
    """Name of the place of a cut between byte off-1 and byte off."""
    if off <= 0:
        return 'start'
    T = total(lay)
    if off >= T:
        return 'end'
    ln = lay['line']
    if off < ln:
        return 'first_line'
    if off == ln:
        return 'before_first_line_crlf'
    if off == ln + 1:
        return 'inside_first_line_crlf'
    p = ln + 2
    if off == p:
        return 'after_first_line'
    for n in lay['hdrs']:
        if off < p + n:
            return 'header_line'
        if off == p + n:
            return 'before_header_crlf'
        if off == p + n + 1:
            return 'inside_header_crlf'
        p += n + 2
        if off == p:
            return 'after_header_line' if off != hdr_end(lay) - 2 else 'before_terminator'
    he = hdr_end(lay)
    if off == he - 1:
        return 'inside_terminator'
    if off == he:
        return 'body_start'
    if lay['body'] in ('cl', 'close'):
        return 'body_data'
    p = he
    for c in lay['chunks']:
        d = _hexdigits(c['sz'])
        if off < p + d + c['ext']:
            return 'chunk_size_line'
        if off == p + d + c['ext']:
            return 'before_chunk_size_crlf'
        if off == p + d + c['ext'] + 1:
            return 'inside_chunk_size_crlf'
        q = p + d + c['ext'] + 2
        if off == q:
            return 'chunk_data_start'
        if off < q + c['sz']:
            return 'chunk_data'
        if off == q + c['sz']:
            return 'between_chunk_data_and_crlf'
        if off == q + c['sz'] + 1:
            return 'inside_chunk_data_crlf'
        p = q + c['sz'] + 2
        if off == p:
            return 'after_chunk'
    lse = last_size_end(lay)
    if off == lse - 2:
        return 'before_last_chunk_crlf'
    if off == lse - 1:
        return 'inside_last_chunk_crlf'
    if off == lse:
        return 'after_last_chunk_size_line'
    if off == T - 1:
        return 'inside_final_crlf'
    return 'trailers'


def triggers(side, lay, cuts):
    """Which weak spots of the framing code the delivery (layout + cut offsets
    already delivered) touches, as a dict of booleans - the classifying keys
    of a witness (known findings are matched on them):
      empty_header_block  the blank line follows the first line at once and a body follows
      first_line_crlf_cut a read ended between the CR and the LF that end the first line
      bodiless_status     (client) 204 / 304 response
      until_close         the body is delimited by the closing of the connection
      last_chunk_cut      a read ended behind the size line of the last chunk, before the end
      te_not_lowercase    chunked body announced with a spelling other than the lower-case token
                          (`Transfer-Encoding: Chunked`)"""
    cuts = set(cuts)
    return {
        'empty_header_block': (not lay['hdrs']) and total(lay) > hdr_end(lay),
        'first_line_crlf_cut': lay['line'] + 1 in cuts,
        'bodiless_status': side == 'client' and lay.get('status') in (204, 304),
        'until_close': lay['body'] == 'close',
        'last_chunk_cut': lay['body'] == 'chunked' and any(last_size_end(lay) <= c < total(lay) for c in cuts),
        'te_not_lowercase': lay['body'] == 'chunked' and not lay.get('telower', True),
    }


# -- the grammar of spec/web/HttpFraming.tla ---------------------------------

REQ_LINE = {'short': (b'GET', b'/'), 'long': (b'POST', b'/abc/def'), 'shortq': (b'GET', b'/?a=1'),
            'longq': (b'POST', b'/abc/def?x=1&y=2')}
REQ_HDRS = {
    'none': [],
    'host': [b'Host: example.org'],
    'several': [b'Host: example.org', b'Accept: */*', b'X-Tag: a', b'X-Tag: b'],
    'cont': [b'Host: example.org', b'X-Long: part one', b' part two'],
    'hostka': [b'Host: example.org', b'Connection: keep-alive'],
}
RESP_LINE = {'200': b'200 OK', '404': b'404 Not Found', '204': b'204 No Content', '304': b'304 Not Modified'}
RESP_HDRS = {
    'none': [],
    'server': [b'Server: x/1.0'],
    'several': [b'Server: x/1.0', b'Content-Type: text/plain', b'X-Tag: a', b'X-Tag: b'],
    'cont': [b'Server: x/1.0', b'X-Long: part one', b' part two'],
}
BODIES = {
    'none': ('none',),
    'cl0': ('cl', b''),
    'cl5': ('cl', b'hello'),
    'ch3': ('chunked', [(b'abc', b'')], []),
    'ch32x': ('chunked', [(b'abc', b';x=1'), (b'de', b'')], []),
    'ch3t': ('chunked', [(b'abc', b'')], [b'X-Sum: 1']),
    'ch32xt': ('chunked', [(b'abc', b';x=1'), (b'de', b'')], [b'X-Sum: 1', b'X-Other: ab']),
    'close5': ('close', b'hello'),
    'close0': ('close', b''),
}


def framing_header(body):
    if body[0] == 'cl':
        return [b'Content-Length: %d' % len(body[1])]
    if body[0] == 'chunked':
        return [b'Transfer-Encoding: chunked']
    return []


CONSULTED = (b'content-length', b'transfer-encoding', b'connection')     # header fields the framing code looks at


def spell(headers, how):
    """Respell header lines in one of the ways RFC 7230 makes equivalent (mirror
    of SpTag in HttpFraming.tla): 'lower' / 'upper' field names (upper: also the
    chunked / keep-alive tokens), 'mixed' = Capitalised tokens, 'ows' = optional
    whitespace (HT before, SP behind the value) on the consulted fields."""
    if how == 'canon':
        return list(headers)
    out = []
    for h in headers:
        if h[:1] in (b' ', b'\t') or b':' not in h:
            out.append(h)
            continue
        name, value = h.split(b':', 1)
        consulted = name.lower() in CONSULTED
        token = consulted and name.lower() != b'content-length'
        if how == 'lower':
            name = name.lower()
        elif how == 'upper':
            name = name.upper()
            if token:
                value = value.upper()
        elif how == 'mixed':
            if token:
                value = b' ' + b'-'.join(w.capitalize() for w in value.strip().split(b'-'))
        elif how == 'ows':
            if consulted:
                value = b' \t' + value.strip() + b' '
        else:
            raise RealiseError(how)
        out.append(name + b':' + value)
    return out


def te_lower(headers):
    """True unless a Transfer-Encoding field spells its coding other than `chunked`."""
    for h in headers:
        if b':' in h and h.split(b':', 1)[0].strip().lower() == b'transfer-encoding':
            return h.split(b':', 1)[1].strip() == b'chunked'
    return True


def from_grammar(g):
    """g: a layout record of the TLA+ grammar (as parsed from TLC's output).
    Returns (bytes, layout) with layout = g's numbers + status/ver/ka + tags."""
    ver = b'HTTP/1.%d' % (g['ver'] - 10)
    body = BODIES[g['btag']]
    if g['kind'] == 'req':
        method, target = REQ_LINE[g['ltag']]
        first = method + b' ' + target + b' ' + ver
        headers = list(REQ_HDRS[g['htag']])
    else:
        first = ver + b' ' + RESP_LINE[g['ltag']]
        headers = list(RESP_HDRS[g['htag']])
    headers += framing_header(body)
    headers = spell(headers, g['stag'])
    data, lay = compose(first, headers, body)
    tag = '%s/%s/%s/%d/%s' % (g['ltag'], g['htag'], g['btag'], g['ver'], g['stag'])
    for k in LAYOUT_KEYS:
        if lay[k] != g[k]:
            raise RealiseError('grammar layout %s: %s is %r in the bytes, %r in HttpFraming.tla' % (tag, k, lay[k], g[k]))
    if te_lower(headers) != bool(g['telower']) and g['body'] == 'chunked':
        raise RealiseError('grammar layout %s: telower is %r in HttpFraming.tla' % (tag, g['telower']))
    lay.update(status=g['status'], ver=g['ver'], ka=bool(g['ka']), telower=te_lower(headers), tag=tag)
    return data, lay


# -- seeded random layouts ------------------------------------------------------

_TOKEN = 'abcdefghijklmnopqrstuvwxyzABCDEFGHIJKLMNOPQRSTUVWXYZ0123456789'
SPELLINGS = ['canon', 'canon', 'canon', 'lower', 'upper', 'mixed', 'ows']


def _tok(rnd, lo, hi):
    return ''.join(rnd.choice(_TOKEN) for _ in range(rnd.randint(lo, hi))).encode()


def _data(rnd, n):
    # printable, never CR/LF; long runs are cheap to build
    if n <= 64:
        return bytes(rnd.choice(b'abcdefghijklmnopqrstuvwxyz0123456789 ,;:=') for _ in range(n))
    unit = bytes(rnd.choice(b'abcdefghijklmnopqrstuvwxyz0123456789') for _ in range(61))
    return (unit * (n // 61 + 1))[:n]


def _random_headers(rnd, base):
    hs = list(base)
    for _ in range(rnd.randint(0, 4)):
        name = b'X-' + _tok(rnd, 1, 8)
        hs.append(name + b': ' + _data(rnd, rnd.randint(0, 30)).strip())
        if rnd.random() < 0.3:
            hs.append(rnd.choice([b' ', b'\t']) + _tok(rnd, 1, 12))      # continuation line
        if rnd.random() < 0.2:
            hs.append(name + b': ' + _tok(rnd, 1, 5))                    # repeated field
    return hs


def _random_body(rnd, kinds):
    k = rnd.choice(kinds)
    if k == 'none':
        return ('none',)
    if k in ('cl', 'close'):
        n = rnd.choice([0, 1, 2, 5, 17, 100, 1000, 5000, 70000]) if rnd.random() < 0.8 else rnd.randint(0, 300)
        return (k, _data(rnd, n))
    chunks = []
    for _ in range(rnd.randint(1, 4)):
        n = rnd.choice([1, 2, 9, 15, 16, 17, 255, 256, 300, 4096]) if rnd.random() < 0.7 else rnd.randint(1, 40)
        ext = b'' if rnd.random() < 0.6 else b';' + _tok(rnd, 1, 4) + (b'=' + _tok(rnd, 1, 4) if rnd.random() < 0.7 else b'')
        chunks.append((_data(rnd, n), ext))
    trailers = [b'X-' + _tok(rnd, 1, 6) + b': ' + _tok(rnd, 0, 9) for _ in range(rnd.choice([0, 0, 1, 2]))]
    return ('chunked', chunks, trailers)


def random_request(rnd, keepalive):
    """A well-formed request; keepalive: the connection must stay open after it."""
    ver = 11 if (keepalive and rnd.random() < 0.8) or (not keepalive and rnd.random() < 0.5) else 10
    method = rnd.choice([b'GET', b'POST', b'PUT', b'DELETE', b'OPTIONS', b'PATCH'])
    path = b'/' + b'/'.join(_tok(rnd, 1, 6) for _ in range(rnd.randint(0, 3)))
    if rnd.random() < 0.5:
        path += b'?' + b'&'.join(_tok(rnd, 1, 4) + b'=' + _tok(rnd, 0, 5) for _ in range(rnd.randint(1, 3)))
    first = method + b' ' + path + b' HTTP/1.%d' % (ver - 10)
    base = [b'Host: ' + _tok(rnd, 1, 10) + b'.example'] if ver == 11 or rnd.random() < 0.5 else []
    headers = _random_headers(rnd, base)
    if ver == 10 and keepalive:
        headers.append(b'Connection: keep-alive')
    elif ver == 11 and not keepalive:
        headers.append(b'Connection: close')
    body = _random_body(rnd, ['none', 'none', 'cl', 'cl', 'chunked', 'chunked'])
    fh = framing_header(body)
    pos = rnd.randint(0, len(headers))
    while pos < len(headers) and headers[pos][:1] in (b' ', b'\t'):     # never between a field and its continuation
        pos += 1
    headers[pos:pos] = fh
    headers = spell(headers, rnd.choice(SPELLINGS))
    data, lay = compose(first, headers, body)
    lay.update(status=0, ver=ver, ka=keepalive, telower=te_lower(headers), tag='random')
    return data, lay


def random_response(rnd, keepalive):
    ver = 11 if rnd.random() < 0.8 else 10
    status, reason = rnd.choice([(200, b'OK'), (201, b'Created'), (404, b'Not Found'), (500, b'Internal Server Error'),
                                 (204, b'No Content'), (304, b'Not Modified'), (301, b'Moved Permanently')])
    first = b'HTTP/1.%d %d %s' % (ver - 10, status, reason)
    headers = _random_headers(rnd, [b'Server: x/1.0'] if rnd.random() < 0.8 else [])
    if status in (204, 304):
        body = ('none',)
    else:
        kinds = ['cl', 'cl'] + (['chunked', 'chunked'] if ver == 11 else []) + ([] if keepalive else ['close'])
        body = _random_body(rnd, kinds)
    fh = framing_header(body)
    pos = rnd.randint(0, len(headers))
    while pos < len(headers) and headers[pos][:1] in (b' ', b'\t'):
        pos += 1
    headers[pos:pos] = fh
    headers = spell(headers, rnd.choice(SPELLINGS))
    data, lay = compose(first, headers, body)
    lay.update(status=status, ver=ver, ka=(body[0] != 'close'), telower=te_lower(headers), tag='random')
    return data, lay


def boundaries(lay):
    """Structural offsets (mirror of HttpFramingOps.Boundaries), for random cuts."""
    out = {lay['line'], line_end(lay), hdr_end(lay) - 2, hdr_end(lay), total(lay)}
    p = line_end(lay)
    for n in lay['hdrs']:
        out |= {p + n, p + n + 2}
        p += n + 2
    if lay['body'] == 'chunked':
        p = hdr_end(lay)
        for c in lay['chunks']:
            d = _hexdigits(c['sz'])
            out |= {p + d, p + d + c['ext'], p + d + c['ext'] + 2, p + d + c['ext'] + 2 + c['sz'], p + chunk_len(c)}
            p += chunk_len(c)
        lse = last_size_end(lay)
        out |= {lse - 2, lse, total(lay) - 2}
        p = lse
        for n in lay['trailers']:
            out |= {p + n, p + n + 2}
            p += n + 2
    return sorted(out)


def random_cuts(rnd, lay):
    """A seeded cut sequence for one message: a mix of cuts next to structural
    boundaries, uniform cuts and runs of byte-at-a-time delivery."""
    T = total(lay)
    if T <= 1:
        return []
    bs = boundaries(lay)
    cuts = set()
    mode = rnd.random()
    if mode < 0.1:
        return []
    if mode < 0.2 and T <= 400:
        return list(range(1, T))
    for _ in range(rnd.randint(1, 6)):
        r = rnd.random()
        if r < 0.6:
            cuts.add(rnd.choice(bs) + rnd.randint(-2, 2))
        elif r < 0.85:
            cuts.add(rnd.randint(1, T - 1))
        else:
            a = rnd.choice(bs) + rnd.randint(-3, 0)
            cuts |= set(range(a, a + rnd.randint(2, 8)))
    return sorted(c for c in cuts if 1 <= c < T)


def rng(seed):
    return random.Random(seed)
