"""C20 - authentication, session binding and gateway trust are sound.

Three finite specifications under spec/auth, each with its monitor (*Ops), its
generative model and its trace specification:

  Auth      (configuration, credential class) -> decision; `Authenticated <=> Verifies`
  Sessions  request histories (2 addresses x 2 agents, cookie = assigned id |
            forged | none) against a store; SessionBound
  VHost     trusted_gateways x remote x X-Forwarded-Host x Host; GatewayTrust

Pipeline (per part):
  1. TLC checks the model exhaustively (intended algorithm conforms; the variant
     that models the pinned defect must violate: teeth).
  2. TLC dumps every case / environment history (spec -> code); each is
     realised (c20_realize: real headers, MD5 digests, cookies) and replayed
     on the real code of $VERIF_REPO (c20_exec); the decision is logged.
  3. The model's predicted line is compared with the real one (drift notes).
  4. TLC judges every recorded trace with the trace specification, which
     reuses the monitor (code -> spec).  Rejected -> ctx.violation.
  5. Corrupted accepted traces must be rejected (self-test of the binding).
"""

import json
import multiprocessing
import os
import random
import re
import shutil
import time
from concurrent.futures import ThreadPoolExecutor

from .. import tlc
from ..core import Ctx, use_repo

SPEC = 'spec/auth'
CFG_KEYS = ('api', 'enc', 'tbl', 'm')
CRED_KEYS = ('sch', 'form', 'user', 'sec', 'realm', 'pres', 'extra', 'qop', 'qf', 'hm')
VH_KEYS = ('trusted', 'remote', 'rpre', 'rpost', 'xfh', 'host')
XNAMES = ('xff', 'xfflist', 'xrealip', 'forwarded', 'via', 'clientip', 'xclientip')
STACK_APIS = ('idiomb', 'idiomd', 'filterb', 'filterd')


# ---------------------------------------------------------------------------
# reading TLC's state dump quickly (the generic parser is too slow for 10^5..10^6 states)

_TOK = re.compile(r'"([^"]*)"|(-?\d+)|(TRUE|FALSE)')


def _tokens(text):
    out = []
    for s, i, b in _TOK.findall(text):
        if b:
            out.append(b == 'TRUE')
        elif i:
            out.append(int(i))
        else:
            out.append(s)
    return out


def check_and_dump_auth(cfg, workers):
    """Exhaustive check of Auth.tla with `cfg` (its invariants must hold: a
    violation of the *model* is a machinery error) and, from the same run, the
    dump of every state = every case (one check) and every two-check history.
    -> (TlcResult, [(case tuple, pred pinned, pred repaired)],
                   [(case tuple, domain of the second check, pred pinned, pred repaired)])"""
    wd = tlc.workdir('c20dump')
    try:
        res = tlc.run_tlc(SPEC, 'Auth', cfg, workers=workers, coverage=True,
                          extra=['-dump', os.path.join(wd, 'st')], timeout=3000)
        if res.violated:
            raise tlc.MachineryError('model %s/Auth (%s) violates %s:\n%s' % (SPEC, cfg, res.violated, res.out[-3000:]))
        cases = []
        twos = []
        ninit = 0
        with open(os.path.join(wd, 'st.dump')) as f:
            text = f.read()
    finally:
        shutil.rmtree(wd, ignore_errors=True)
    for block in text.split('\nState '):
        if '/\\ c = ' not in block:
            continue
        parts = {}
        for seg in block.split('\n/\\ ')[1:]:
            name, _, val = seg.partition(' = ')
            parts[name.strip()] = val
        c = _tokens(parts['c'])
        if not c:
            ninit += 1      # an initial state
            continue
        p = _tokens(parts['pred'])
        if len(c) != 14 or len(p) != 6:
            raise tlc.MachineryError('cannot read dumped Auth state: %r' % block[:300])
        d2 = _tokens(parts['d2'])[0]
        if d2 == '':
            cases.append((tuple(c), tuple(p[:3]), tuple(p[3:])))
        else:
            p2 = _tokens(parts['pred2'])
            if len(p2) != 6:
                raise tlc.MachineryError('cannot read dumped Auth state: %r' % block[:300])
            twos.append((tuple(c), d2, tuple(p2[:3]), tuple(p2[3:])))
    del text
    if len(cases) + len(twos) + ninit != res.distinct or not cases:
        raise tlc.MachineryError('Auth dump: %d cases + %d two-check histories + %d initial states read, TLC reported %d states'
                                 % (len(cases), len(twos), ninit, res.distinct))
    if len(set(c for c, _, _ in cases)) != len(cases) or len(set((c, d) for c, d, _, _ in twos)) != len(twos):
        raise tlc.MachineryError('Auth dump: duplicate cases')
    return res, cases, twos


# ---------------------------------------------------------------------------
# Auth replay (worker processes)

def _case_dicts(c):
    return dict(zip(CFG_KEYS, c[:4])), dict(zip(CRED_KEYS, c[4:]))


def _auth_worker(task):
    """task: list of case tuples sharing (api, enc, tbl) -> list of (ret, login, auth)"""
    from . import c20_exec as X
    out = []
    stack = None
    for c in task:
        cfg, cred = _case_dicts(c)
        if cfg['api'] in STACK_APIS:
            if stack is None:
                stack = X.Stack(cfg['api'], cfg['enc'], cfg['tbl'])
            out.append(X.run_auth_stack(stack, cfg, cred))
        else:
            out.append(X.run_auth_fn(cfg, cred))
    return out


def replay_auth(pool, cases, chunk=1500):
    groups = {}
    for idx, (c, _, _) in enumerate(cases):
        groups.setdefault(c[:3], []).append(idx)
    tasks, where = [], []
    for key in sorted(groups):
        idxs = groups[key]
        for i in range(0, len(idxs), chunk):
            part = idxs[i:i + chunk]
            tasks.append([cases[j][0] for j in part])
            where.append(part)
    results = [None] * len(cases)
    for part, res in zip(where, pool.map(_auth_worker, tasks)):
        for j, r in zip(part, res):
            results[j] = r
    return results


def auth_line(c, obs, step=1, dom='same'):
    cfg, cred = _case_dicts(c)
    ln = {'step': step, 'dom': dom}
    ln.update(cfg)
    ln.update(cred)
    ln['ret'], ln['login'], ln['auth'] = obs[0], obs[1], bool(obs[2])
    return ln


def auth_witness(ln):
    """Classifies a failing decision: which scheme/class of input, how the
    header parses, what came back."""
    parse = 'na'
    if ln['sch'] == 'digest':
        ok = ln['pres'] == 31 and ((ln['qop'] == 'none') == (ln['qf'] == 'neither')) and \
            (ln['qop'] == 'none' or ln['qf'] == 'both')
        parse = 'ok' if ok else 'incomplete'
    return {'part': 'auth', 'step': ln['step'], 'dom': ln['dom'],
            'api': ln['api'], 'enc': ln['enc'], 'sch': ln['sch'], 'form': ln['form'],
            'user': ln['user'], 'sec': ln['sec'], 'realm': ln['realm'], 'hm': ln['hm'], 'parse': parse,
            'ret': ln['ret'], 'login': ln['login']}


# ---------------------------------------------------------------------------
# Sessions

_REC = re.compile(r'\[([^\[\]]*)\]')
_KV = re.compile(r'(\w+) \|-> (?:"([^"]*)"|(-?\d+)|(TRUE|FALSE))')


def _records(text):
    out = []
    for body in _REC.findall(text):
        rec = {}
        for k, s_, i, b_ in _KV.findall(body):
            rec[k] = (b_ == 'TRUE') if b_ else (int(i) if i else s_)
        out.append(rec)
    return out


def dump_session_histories(cfg, workers):
    """-> (TlcResult, [(hist, model lines)]) for the maximal histories"""
    wd = tlc.workdir('c20dump')
    try:
        res = tlc.run_tlc(SPEC, 'Sessions', cfg, workers=workers, extra=['-dump', os.path.join(wd, 'st')], timeout=1800)
        if res.violated:
            raise tlc.MachineryError('Sessions.tla (%s) violates %s' % (cfg, res.violated))
        with open(os.path.join(wd, 'st.dump')) as f:
            text = f.read()
    finally:
        shutil.rmtree(wd, ignore_errors=True)
    hists = {}
    for block in text.split('\nState '):
        if '/\\ hist = ' not in block:
            continue
        parts = {}
        for seg in block.split('\n/\\ ')[1:]:
            name, _, val = seg.partition(' = ')
            parts[name.strip()] = val
        toks = _tokens(parts['hist'])
        if len(toks) % 7:
            raise tlc.MachineryError('cannot read dumped Sessions history: %r' % parts['hist'][:200])
        h = tuple(tuple(toks[i:i + 7]) for i in range(0, len(toks), 7))
        hists[h] = _records(parts['out'])
        if len(hists[h]) != len(h):
            raise tlc.MachineryError('cannot read dumped Sessions lines: %r' % parts['out'][:300])
    if len(hists) != res.distinct:
        raise tlc.MachineryError('Sessions dump: %d histories read, TLC reported %d states' % (len(hists), res.distinct))
    keys = set(hists)
    prefixes = set()
    for k in keys:
        for i in range(len(k)):
            prefixes.add(k[:i])
    return res, [(k, hists[k]) for k in sorted(keys - prefixes, key=repr)]


def hist_to_script(h):
    """model history <<ip, agent, kind, arg, op, header, address named>> -> [[ip, agent, ck, op, [header, address]], ...]"""
    out = []
    for ip, agent, kind, arg, op, xh, xa in h:
        ck = [kind, arg] if kind in ('issued', 'transplant') else [kind]
        out.append([ip, agent, ck, op, [xh, xa]])
    return out


def run_session_script(script, failed=None):
    """Replay on a fresh real Sessions component -> trace lines.  A request on
    which the handler raises yields no line (nothing was bound or returned)."""
    from . import c20_exec as X
    world = X.SessionWorld()
    lines = []
    for ip, agent, ck, op, xh in script:
        if ck[0] in ('issued', 'transplant') and ck[1] > len(world.sids):
            break
        ln = world.request(ip, agent, ck, op, xh)
        if ln is not None:
            lines.append(ln)
    if failed is not None:
        failed.extend(world.failed)
    return lines


def random_session_script(rnd, n):
    """Longer histories; cookie references are drawn among the ids that will
    exist (an unresolvable reference ends the replay early)."""
    script = []
    upper = 0
    for _ in range(n):
        ip = rnd.choice(['a1', 'a2'])
        agent = rnd.choice(['u1', 'u2'])
        r = rnd.random()
        if upper and r < 0.5:
            ck = ['issued', rnd.randint(1, upper)]
        elif upper and r < 0.65:
            ck = ['transplant', rnd.randint(1, upper)]
        elif r < 0.75:
            ck = ['selfmade']
        elif r < 0.85:
            ck = ['garbage']
        else:
            ck = ['none']
        xh = ['none', 'none']
        if rnd.random() < 0.3:
            xh = [rnd.choice(XNAMES), rnd.choice(['a1', 'a2'])]
        script.append([ip, agent, ck, rnd.choice(['r', 'w', 'w', 'x']), xh])
        upper += 1      # at most one new id per request
    return script


def session_witness(lines, badline):
    ln = lines[badline - 1]
    owner = None
    for prev in lines[:badline - 1]:
        if prev['sid'] == ln['sid']:
            owner = (prev['ip'], prev['agent'])
            break
    same = 'na' if owner is None else ('same' if owner == (ln['ip'], ln['agent']) else
                                         'ip' if owner[1] == ln['agent'] else
                                         'agent' if owner[0] == ln['ip'] else 'both')
    overlap = owner is not None and {owner, (ln['ip'], ln['agent'])} == {('a1', 'du1'), ('a1d', 'u1')}
    names = 'na' if ln['xh'] == 'none' else ('owner' if owner and owner[0] == ln['xa'] else 'other')
    return {'part': 'sessions', 'cookie': ln['fk'], 'differs': same, 'presented_bound_id': ln['ck'] == ln['sid'],
            'header': ln['xh'], 'header_names': names, 'texts_overlap': overlap}


# ---------------------------------------------------------------------------
# replay of one recorded case

def run_replay(path):
    from . import c20_exec as X
    from . import c20_realize as R
    rec = json.load(open(path))
    d = rec['detail']
    part = d['part']
    if part == 'auth':
        c = tuple(d['case'])
        cfg, cred = _case_dicts(c)
        print('Authorization: %r' % R.authorization(cfg, cred))
        if d.get('dom'):
            o1, o2 = X.run_auth_fn2(cfg, cred, d['dom'])
            print('second check on the same request object, domain %r' % d['dom'])
            lines = [auth_line(c, o1), auth_line(c, o2, 2, d['dom'])]
        else:
            lines = [auth_line(c, _auth_worker([c])[0])]
        mod = 'AuthTrace'
    elif part == 'sessions':
        lines = run_session_script(d['script'])
        mod = 'SessionsTrace'
    else:
        lines = [X.run_vhost(d['case'])]
        mod = 'VHostTrace'
    verdicts, _ = tlc.validate_traces(SPEC, mod, mod + '.cfg', [lines], shards=1)
    clause, line = verdicts[0]
    for i, ln in enumerate(lines, 1):
        print('%3d %s' % (i, ln))
    if clause:
        print('VIOLATION property=C20 replay=%s clause=%s line=%d' % (path, clause, line))
        return 1
    print('replay accepted: no clause of C20 fails on this tree')
    return 0


# ---------------------------------------------------------------------------

def run(tier, replay=None):
    use_repo()
    if replay:
        return run_replay(replay)
    from . import c20_exec as X
    from . import c20_realize as R
    ctx = Ctx('C20', tier)
    quick = tier == 'quick'
    rnd = random.Random(ctx.seed * 7919 + 20)
    ncpu = min(8, os.cpu_count() or 4)
    # worker processes are forked before any thread exists
    pool = multiprocessing.get_context('fork').Pool(ncpu)
    ex = ThreadPoolExecutor(max_workers=12)
    try:
        return _run(ctx, quick, rnd, pool, ex, X, R)
    finally:
        ex.shutdown(wait=False, cancel_futures=True)
        pool.terminate()
        pool.join()


def _run(ctx, quick, rnd, pool, ex, X, R):
    sweeps = [('quick', 'MC_Auth.cfg')] if quick else \
        [('wide', 'MC_Auth_wide.cfg'), ('stack', 'MC_Auth_stack.cfg'), ('conf', 'MC_Auth_conf.cfg')]
    W = 4
    jobs = {}
    # 1. model checking (+ case dumps), all parts at once
    for name, mc in sweeps:
        jobs['auth_' + name] = ex.submit(check_and_dump_auth, mc, W)
    jobs['auth_pinned'] = ex.submit(tlc.run_tlc, SPEC, 'Auth', 'MC_Auth_pinned.cfg', workers=W)
    jobs['auth_reuse'] = ex.submit(tlc.run_tlc, SPEC, 'Auth', 'MC_Auth_reuse.cfg', workers=W)
    # (no -coverage here: it slows this model down by an order of magnitude; vacuity of the
    # histories is checked on the dumped histories below)
    jobs['sess_mc'] = ex.submit(tlc.model_check, SPEC, 'Sessions', 'MC_Sessions.cfg' if quick else 'MC_Sessions_thorough.cfg',
                                workers=W if quick else 8, timeout=3000)
    jobs['sess_nofp'] = ex.submit(tlc.run_tlc, SPEC, 'Sessions', 'MC_Sessions_nofp.cfg', workers=2)
    jobs['sess_xff'] = ex.submit(tlc.run_tlc, SPEC, 'Sessions', 'MC_Sessions_xffprint.cfg', workers=2)
    jobs['sess_hist'] = ex.submit(dump_session_histories, 'HIST_Sessions.cfg' if quick else 'HIST_Sessions_thorough.cfg', W)
    jobs['sess_cat'] = ex.submit(tlc.run_tlc, SPEC, 'Sessions', 'MC_Sessions_catprint.cfg', workers=1)
    jobs['sess_hist_cat'] = ex.submit(dump_session_histories, 'HIST_Sessions_cat.cfg', 2)
    jobs['sess_hist_hdr'] = ex.submit(dump_session_histories, 'HIST_Sessions_hdr.cfg' if quick else 'HIST_Sessions_hdr_thorough.cfg', W)
    jobs['vh_mc'] = ex.submit(tlc.dump_states, SPEC, 'VHost', 'MC_VHost.cfg', workers=2)      # checks the invariants too
    jobs['vh_disc'] = ex.submit(tlc.run_tlc, SPEC, 'VHost', 'MC_VHost_discarded.cfg', workers=1)
    jobs['vh_suffix'] = ex.submit(tlc.run_tlc, SPEC, 'VHost', 'MC_VHost_suffixtrust.cfg', workers=1)
    jobs['vh_nohost'] = ex.submit(tlc.run_tlc, SPEC, 'VHost', 'MC_VHost_nohostfallback.cfg', workers=1)

    states = transitions = 0
    cov = {}
    phase = {}
    t_phase = [time.time()]

    def mark(name):
        now = time.time()
        phase[name] = round(now - t_phase[0], 1)
        t_phase[0] = now

    # ------------------------------------------------------------------ VHost
    vh_mc, vh_states = jobs['vh_mc'].result()
    states += vh_mc.distinct
    transitions += vh_mc.generated
    if not jobs['vh_disc'].result().violated:
        raise tlc.MachineryError('the "discarded" variant of VHost.tla no longer violates C20: the model lost its teeth')
    if not jobs['vh_nohost'].result().violated:
        raise tlc.MachineryError('the "nohostfallback" variant of VHost.tla no longer violates C20: the model lost its teeth')
    if not jobs['vh_suffix'].result().violated:
        raise tlc.MachineryError('the "suffixtrust" variant of VHost.tla no longer violates C20: the model lost its teeth')
    pred_kept = {tuple(st['c']): st['out'][0] for st in vh_states if st['c']}
    if len(pred_kept) != vh_mc.distinct - 1:
        raise tlc.MachineryError('VHost dump has %d cases, model has %d states' % (len(pred_kept), vh_mc.distinct))
    vh_cases = sorted(pred_kept)
    vh_lines = []
    for c in vh_cases:
        case = dict(zip(VH_KEYS, c))
        vh_lines.append(X.run_vhost(case))
    # is a configured list consulted at all? (classifies the failure): some header that would change
    # the routing, sent from outside a configured list, was ignored
    consulted = any(not ln['infl'] and ln['trusted'] != 'none' and ln['remote'] == 'other' and
                    (ln['xfh'] in ('mapped', 'list') or (ln['xfh'] == 'unmapped' and ln['host'] == 'mapped'))
                    for ln in vh_lines)
    vh_verdicts, vh_stats = tlc.validate_traces(SPEC, 'VHostTrace', 'VHostTrace.cfg', [[ln] for ln in vh_lines], shards=1)
    vh_ok = []
    n_vh_match = 0
    for c, ln, (clause, _) in zip(vh_cases, vh_lines, vh_verdicts):
        case = dict(zip(VH_KEYS, c))
        ctx.count_case(['vhost', c], ln['xfh'] not in ('absent', 'empty'),
                       sample={'part': 'vhost', 'case': case, 'line': ln, 'verdict': clause or 'accepted'} if c == vh_cases[len(vh_cases) // 2] else None)
        if clause:
            rel = {('', ''): 'exact', ('v6', ''): 'v6mapped', ('1', ''): 'gateway_is_suffix', ('', '0'): 'gateway_is_prefix',
                   ('1', '0'): 'gateway_is_substring', ('v6', '0'): 'gateway_is_substring'}[(ln['rpre'], ln['rpost'])]
            ctx.violation(clause, {'part': 'vhost', 'trusted': ln['trusted'], 'remote': ln['remote'], 'address': rel,
                                   'xfh': ln['xfh'], 'host': ln['host'], 'list_consulted': consulted}, {'part': 'vhost', 'case': case, 'line': ln})
        else:
            vh_ok.append(ln)
        if ln == pred_kept[c]:
            n_vh_match += 1
        elif not clause:
            ctx.note_drift('VirtualHosts routes %s to %s (influenced=%s); the model says %s' % (case, ln['path'], ln['infl'], pred_kept[c]['path']))
    mark('vhost')
    cov['vhost_cases'] = len(vh_cases)
    cov['vhost_model_line_match'] = n_vh_match

    # ------------------------------------------------------------------ Auth
    pinned = jobs['auth_pinned'].result()
    if not pinned.violated:
        raise tlc.MachineryError('the pinned variant of Auth.tla no longer violates C20: the model lost its teeth')
    if not jobs['auth_reuse'].result().violated:
        raise tlc.MachineryError('the "reuse" variant of Auth.tla (a second check trusts request.login) no longer violates C20')
    all_traces = []      # (case tuple, domain of the second check or None, lines)
    n_auth_cases = n_two = 0
    n_match_pinned = n_match_fixed = 0

    def compare(c, dom, o, pp, pf):
        nonlocal n_match_pinned, n_match_fixed
        if o == pp:
            n_match_pinned += 1
        if o == pf:
            n_match_fixed += 1
        if o != pp and o != pf:
            ctx.note_drift('auth case %s%s decided %s; the model says %s (pinned algorithm) / %s (repaired)'
                           % (list(c), '' if dom is None else ' then a second check for domain %r' % dom, list(o), list(pp), list(pf)))

    for name, mc in sweeps:
        mcres, cases, twos = jobs['auth_' + name].result()
        acts = ['CaseNone', 'CaseNoSpace', 'CaseUnknown', 'CaseBasic', 'CaseDigest']
        if name != 'stack':
            acts.append('Recheck')      # the stack sweep has no function-level api: no second check there
        for act in acts:
            if mcres.coverage.get(act, (0, 0))[1] == 0:
                raise tlc.MachineryError('vacuous model: action %s of Auth.tla never taken (%s)' % (act, mc))
        states += mcres.distinct
        transitions += mcres.generated
        n_auth_cases += len(cases)
        n_two += len(twos)
        mark('auth_tlc_' + name)
        results = replay_auth(pool, cases)
        for (c, pp, pf), obs in zip(cases, results):
            ln = auth_line(c, obs)
            all_traces.append((c, None, [ln]))
            compare(c, None, (ln['ret'], ln['login'], ln['auth']), pp, pf)
        # two consecutive checks on one request object
        for c, dom, pp2, pf2 in twos:
            cfg, cred = _case_dicts(c)
            o1, o2 = X.run_auth_fn2(cfg, cred, dom)
            l1, l2 = auth_line(c, o1), auth_line(c, o2, 2, dom)
            all_traces.append((c, dom, [l1, l2]))
            compare(c, dom, (l2['ret'], l2['login'], l2['auth']), pp2, pf2)
        mark('auth_replay_' + name)
        del cases, results, twos
    a_verdicts, a_stats = tlc.validate_traces(SPEC, 'AuthTrace', 'AuthTrace.cfg', [t[2] for t in all_traces],
                                              shards=6 if quick else 16, timeout=2400)
    mark('auth_validate')
    auth_ok = []
    sampled = set()
    for (c, dom, lines), (clause, badline) in zip(all_traces, a_verdicts):
        ln = lines[(badline or len(lines)) - 1]
        sample = None
        kind = 'two' if dom is not None else 'one'
        if kind not in sampled and (clause or (ln['auth'] and ln['sch'] == 'digest') or (dom not in (None, 'same') and lines[0]['auth'])):
            sampled.add(kind)
            cfg, cred = _case_dicts(c)
            sample = {'part': 'auth', 'case': list(c), 'second_check_domain': dom, 'authorization': R.authorization(cfg, cred),
                      'trace': lines, 'verdict': clause or 'accepted'}
        ctx.count_case(['auth', c, dom], ln['sch'] != 'none', sample=sample)
        if clause:
            cfg, cred = _case_dicts(c)
            ctx.violation(clause, auth_witness(ln), {'part': 'auth', 'case': list(c), 'dom': dom,
                                                     'authorization': R.authorization(cfg, cred), 'trace': lines, 'line': badline})
        else:
            auth_ok.extend(lines)
    mark('auth_verdicts')
    cov['auth_cases'] = n_auth_cases
    cov['auth_two_check_histories'] = n_two
    cov['auth_decisions_as_pinned_model'] = n_match_pinned
    cov['auth_decisions_as_repaired_model'] = n_match_fixed

    # ------------------------------------------------------------------ Sessions
    sess_mc = jobs['sess_mc'].result()
    states += sess_mc.distinct
    transitions += sess_mc.generated
    if not jobs['sess_nofp'].result().violated:
        raise tlc.MachineryError('the "nofp" variant of Sessions.tla no longer violates C20: the model lost its teeth')
    if not jobs['sess_xff'].result().violated:
        raise tlc.MachineryError('the "xffprint" variant of Sessions.tla no longer violates C20: the model lost its teeth')
    mark('sess_mc_wait')
    sres, maximal = jobs['sess_hist'].result()
    # histories in which one request carries a further client-controlled header
    hres, with_hdr = jobs['sess_hist_hdr'].result()
    with_hdr = [(h, mout) for h, mout in with_hdr if any(st[5] != 'none' for st in h)]
    if not XNAMES or {st[5] for h, _ in with_hdr for st in h} - {'none'} < (set(XNAMES) if quick else {'xff', 'xfflist', 'xrealip'}):
        raise tlc.MachineryError('vacuous Sessions header histories')
    # histories among clients whose address/agent texts overlap (a1 + du1 = a1d + u1 as bare text)
    if not jobs['sess_cat'].result().violated:
        raise tlc.MachineryError('the "catprint" variant of Sessions.tla no longer violates C20: the model lost its teeth')
    cres, with_cat = jobs['sess_hist_cat'].result()
    maximal = maximal + with_hdr + with_cat
    kinds_seen = set()
    s_failed = []
    straces = []      # (script, lines, origin)
    n_s_cmp = n_s_match = 0
    for h, mout in maximal:
        script = hist_to_script(h)
        for st in script:
            kinds_seen.add(st[2][0])
            kinds_seen.add('op:' + st[3])
        lines = run_session_script(script, s_failed)
        straces.append((script, lines, 'tlc-history', mout))
    need = {'none', 'issued', 'selfmade', 'transplant', 'op:r', 'op:w'}
    if not need <= kinds_seen:
        raise tlc.MachineryError('vacuous Sessions histories: never seen %s' % sorted(need - kinds_seen))
    nrand = 400 if quick else 20000
    for i in range(nrand):
        script = random_session_script(rnd, rnd.randint(3, 6 if quick else 9))
        straces.append((script, run_session_script(script, s_failed), 'random', None))
    if s_failed:
        ctx.note_drift('Sessions.request raised on %d requests, e.g. %s' % (len(s_failed), s_failed[0]))
    s_verdicts, s_stats = tlc.validate_traces(SPEC, 'SessionsTrace', 'SessionsTrace.cfg', [t[1] for t in straces],
                                              shards=3 if quick else 12, timeout=2400)
    sess_ok = []
    for k, ((script, lines, origin, mout), (clause, line)) in enumerate(zip(straces, s_verdicts)):
        if mout is not None:
            # the model's lines against the real ones (a rejected trace is reported as a violation, not as drift)
            n_s_cmp += 1
            if [dict(m) for m in mout] == lines:
                n_s_match += 1
            elif not clause:
                ctx.note_drift('session history %s: real lines %s, model lines %s' % (script, lines, mout))
        nontrivial = sum(1 for st in script if st[2][0] != 'none') >= 1 and len(lines) >= 2
        ctx.count_case(['sessions', script], nontrivial,
                       sample={'part': 'sessions', 'script': script, 'trace': lines, 'verdict': clause or 'accepted'} if k == len(straces) // 3 else None)
        if clause:
            ctx.violation(clause, session_witness(lines, line), {'part': 'sessions', 'script': script, 'trace': lines, 'line': line})
        else:
            sess_ok.append(lines)
    mark('sess_replay_validate')
    cov['session_histories_from_tlc'] = len(maximal)
    cov['session_histories_with_client_header'] = len(with_hdr)
    cov['session_histories_overlapping_texts'] = len(with_cat)
    cov['session_histories_random'] = nrand
    cov['session_model_line_exact_match'] = n_s_match
    cov['session_model_line_compared'] = n_s_cmp

    # ------------------------------------------------------------------ self-test of the binding
    muts = {'AuthTrace': [], 'SessionsTrace': [], 'VHostTrace': []}
    cand = [ln for ln in auth_ok if ln['sch'] != 'none']
    cand = rnd.sample(cand, min(len(cand), 3000))
    for ln in cand:
        if len(muts['AuthTrace']) >= (60 if quick else 300):
            break
        m = dict(ln)
        if ln['auth']:
            # an accepted authentication is only acceptable for a verifying class: spoil the class
            if ln['sch'] == 'digest':
                m['realm'] = 'wrong'
            else:
                m['sec'] = 'wrong'
            muts['AuthTrace'].append(([m], 'authenticated line relabelled as wrong %s' % ('realm' if ln['sch'] == 'digest' else 'secret')))
        elif not (ln['user'] == 'known' and ln['sec'] == 'right'):
            m['auth'] = True
            muts['AuthTrace'].append(([m], 'refused unverifiable class relabelled as authenticated'))
    cand = [t for t in sess_ok if any(ln['data'] > 0 for ln in t)]
    rnd.shuffle(cand)
    for t in cand[:60 if quick else 300]:
        i = next(j for j, ln in enumerate(t) if ln['data'] > 0)
        m = [dict(ln) for ln in t]
        if rnd.random() < 0.5:
            m[i]['ip'] = 'a2' if m[i]['ip'] == 'a1' else 'a1'
            what = 'reader address changed at line %d' % (i + 1)
        else:
            m[i]['ck'] = 0
            what = 'cookie removed from a reading request at line %d' % (i + 1)
        muts['SessionsTrace'].append((m, what))
    for ln in vh_ok:
        if len(muts['VHostTrace']) < 60 and ln['trusted'] != 'none' and not ln['infl'] and ln['remote'] == 'other':
            m = dict(ln)
            m['infl'] = True
            muts['VHostTrace'].append(([m], 'refused header relabelled as honoured'))
    n_muts = 0

    def judge(mod):
        return mod, tlc.validate_traces(SPEC, mod, mod + '.cfg', [m[0] for m in muts[mod]], shards=1)[0]

    for mod, mv in ex.map(judge, [m for m in muts if muts[m]]):
        lst = muts[mod]
        missed = [lst[i][1] for i, (cl, _) in enumerate(mv) if not cl]
        if missed:
            raise tlc.MachineryError('%s accepted %d corrupted traces, e.g. %s' % (mod, len(missed), missed[0]))
        n_muts += len(lst)
    if not (muts['AuthTrace'] and muts['SessionsTrace'] and muts['VHostTrace']) and not ctx.violations:
        raise tlc.MachineryError('self-test found nothing to corrupt: %s' % {k: len(v) for k, v in muts.items()})
    mark('selftest')
    cov['phase_s'] = phase

    ntraces = len(all_traces) + len(straces) + len(vh_lines)
    cov.update({
        'states': states, 'transitions': transitions,
        'traces_validated_against_impl': ntraces,
        'trace_validation_states': a_stats['states'] + s_stats['states'] + vh_stats['states'],
        'corrupted_traces_rejected': n_muts,
        'pinned_variant_counterexample': pinned.violated,
        'session_history_dump_states': sres.distinct + hres.distinct + cres.distinct,
        'rule': 'auth: one case per (api, encrypt/table form, method) x credential class, every state TLC dumps for Auth.tla '
                '(a state is one check on a fresh request object, or that check followed by a second one on the same object '
                'for an independent realm/table domain), '
                'realised as a real Authorization header and decided by the real code; non-trivial = carries an Authorization header. '
                'sessions: every maximal environment history TLC dumps for Sessions.tla plus seeded random longer ones; '
                'non-trivial = at least two requests and one cookie. vhost: every state of VHost.tla; non-trivial = a non-empty '
                'X-Forwarded-Host. distinct by hash of the case',
        'exhaustive': True,
        'explanation': 'exhaustive over the finite case spaces of the three models at this tier\'s constants '
                       '(auth: full product of the class sets in the cfg; vhost: full table; sessions: all histories up to the '
                       'dump bound, invariants up to MaxReq of the MC cfg); the seeded random session histories are extra',
    })
    return ctx.finish(coverage=cov, assumptions=[
        'MD5/SHA1/base64 arithmetic is done by the realisation function (hashlib) and by the code; TLC compares classes and decisions',
        'a credential class is represented by one concrete header (fixed user names, passwords, nonce); byte-level variation inside a class is not explored',
        'the HTTP stack is driven through the real HTTP/Dispatcher/Controller components with a socket double (no kernel sockets)',
        'Verdict "open" (AuthOps): valid credential of the other scheme than the resource asks for, qop=auth-int, unknown algorithm token on a correct MD5 digest',
        'trusted_gateways not given (None) is treated as "not configured": either routing is accepted',
    ])
