"""C04 - handler results, success/failure/exception feedback and error isolation."""

from .. import kernelgen
from ..kernelcheck import run_kernel_check


def _h(comp, names, prio, script):
    return {'comp': comp, 'names': names, 'chan': None, 'prio': prio, 'script': script}


def fam_values(maxops):
    """x0 has handlers returning a value, None, raising; x1 is fired from a handler; all flag combinations."""
    ext = []
    for fl in (0, 1, 2, 3, 8, 11):
        ext.append({'name': 'x0', 'flags': fl})
    ext.append({'name': 'x1', 'flags': 3})
    return {
        'comps': {'1': {'chan': 'a'}, '2': {'chan': 'a'}},
        'handlers': {
            '1': _h(1, ['x0'], 2, {'x0': [['ret', 1000]]}),          # 1000 stands for the falsy result 0
            '2': _h(2, ['x0'], 1, {'x0': [['fire', {'name': 'x1', 'flags': 3}], ['raise']]}),
            '3': _h(1, ['x0', 'x1'], 0, {'x0': [], 'x1': [['ret', 3]]}),
            '4': _h(2, ['x0', 'x1'], -1, {'x0': [['ret', 4]], 'x1': [['raise']]}),
            '5': _h(1, ['x0_success', 'x0_failure', 'x1_success', 'x1_failure', 'exception'], 0, {}),
        },
        'ext': ext,
        'ops': ['fire', 'flush', 'rmh'], 'pre': [['reg', 2, 1]], 'maxops': 1 + maxops, 'firers': [1], 'flushers': [1], 'dyn': [2, 4],
    }


def fam_gen(maxops):
    """generator handlers next to plain ones: values yielded over several ticks, a raise in a later step"""
    return {
        'comps': {'1': {'chan': 'a'}},
        'handlers': {
            '1': _h(1, ['x0'], 2, {'x0': [['ret', 1]]}),
            '2': _h(1, ['x0'], 1, {'x0': [['raise']]}),
            '3': _h(1, ['x0'], 0, {'x0': [['yield', 2], ['yield', None], ['ret', 3]]}),
            '4': _h(1, ['x0'], -1, {'x0': [['yield', None], ['fire', {'name': 'x1', 'flags': 1}], ['raise']]}),
            '5': _h(1, ['x1'], 0, {'x1': [['yield', 4]]}),
            '6': _h(1, ['x0_success', 'x0_failure', 'x1_success', 'exception'], 0, {}),
        },
        'ext': [{'name': 'x0', 'flags': 1}, {'name': 'x0', 'flags': 3}, {'name': 'x0', 'flags': 8}],
        'ops': ['fire', 'tick', 'rmh'], 'pre': [], 'maxops': maxops, 'firers': [1], 'flushers': [1], 'dyn': [2, 4],
    }


RANDOM_OPTS = {
    'ncomp': 3, 'shapes': ['plain', 'class'], 'nhandlers': (2, 7), 'prios': [-1, 0, 0, 1],
    'kinds': ['named', 'named', 'named', 'catchall'], 'nnames': 3,
    # call/wait: events that are waited on
    'script_ops': ['ret', 'ret', 'fire', 'raise', 'yield', 'yield', 'call', 'wait'], 'flags': [0, 1, 2, 3, 8, 9, 11], 'maxfire': 2,
    'maxops_script': 4, 'targets': [None, '*'], 'p_script': 0.9,
    'hist_ops': ['fire', 'fire', 'flush', 'tick'], 'histlen': (2, 6), 'ext_names': 2, 'p_attach': 1.0,
    'p_raise_base': 0.3, 'p_noevent': 0.15, 'p_feedback_ch': 0.3,
    # 77: a result that is itself a list
    'more_values': [77, 77],
}


def list_cases():
    """a handler result that is itself a list, alone, before and after other results, from plain and generator handlers"""
    for order, gen in [(o, g) for o in ((77,), (77, 3), (3, 77), (77, 77), (77, 3, 4), (3, 77, 4)) for g in (False, True)]:
        handlers = {}
        for i, v in enumerate(order, 1):
            script = [['yield', v]] if gen else [['ret', v]]
            handlers[str(i)] = _h(1, ['x0'], 3 - i, {'x0': script})
        prog = {'comps': {'1': {'chan': 'a'}}, 'handlers': handlers, 'dyn': []}
        yield prog, [['fire', 1, {'name': 'x0', 'prio': 0, 'flags': 1, 'ch': None}]] + [['tick', 1]] * 4


def gen_random(rnd, quick):
    yield from list_cases()
    for i in range(400 if quick else 8000):
        prog = kernelgen.gen_program(rnd, RANDOM_OPTS)
        yield prog, kernelgen.gen_history(rnd, RANDOM_OPTS, prog)


def witness(prog, lines, clause, line):
    """classification: which handler kinds the affected event had"""
    e = lines[line - 1]['x'] if lines[line - 1]['k'] == 'fire' else lines[line - 1]['e']
    gens = sum(1 for ln in lines if ln['k'] == 'ret' and ln['e'] == e and ln['f'] == 2)
    raised_plain = sum(1 for ln in lines if ln['k'] == 'ret' and ln['e'] == e and ln['f'] == 1)
    raised_gen = sum(1 for ln in lines if ln['k'] == 'gend' and ln['e'] == e and ln['f'] == 1)
    return {'generator_handlers': min(gens, 1), 'plain_handler_raised': min(raised_plain, 1),
            'generator_raised': min(raised_gen, 1)}


def mutate(rnd, prog, lines):
    out = [dict(ln) for ln in lines]
    rets = [i for i, ln in enumerate(lines) if ln['k'] == 'ret' and ln['f'] == 0 and ln['v'] > 0]
    vends = {ln['e'] for ln in lines if ln['k'] == 'vend'}
    rets = [i for i in rets if lines[i]['e'] in vends]
    if rets:
        i = rnd.choice(rets)
        out[i]['v'] += 1
        return out, 'return value of h%d for e%d changed' % (lines[i]['h'], lines[i]['e'])
    return None


def run(tier, replay=None):
    quick = tier == 'quick'
    spec = {
        'own': ['C04'],
        'families': [
            {'name': 'values', 'programs': [fam_values(2 if quick else 3)], 'hist_programs': [fam_values(2 if quick else 3)],
             'hist_cap_quick': 800},
            {'name': 'generators', 'programs': [fam_gen(2 if quick else 3)], 'hist_programs': [fam_gen(2 if quick else 3)],
             'hist_cap_quick': 600},
        ],
        'teeth': [{'name': 'generators/SuccessNoErr', 'programs': [fam_gen(2)], 'variants': {'SuccessNoErr': True},
                   'expect': {'ConformsC04'}}],
        'random': gen_random, 'witness': witness, 'mutators': mutate,
        'rule': 'cases = (program, external history): every complete history TLC generates for the value/feedback family (handlers '
                'returning values / None / raising, nested fire, all success/failure/notify flag combinations, handler removal) '
                'replayed on the real classes, plus seeded random programs that add generator handlers (yield k values, raise at step j); '
                'non-trivial = at least one handler invoked; distinct by hash',
        'assumptions': ['values are small integers, the error triple is projected to -1; nested Value objects are not generated'],
    }
    return run_kernel_check('C04', tier, spec, replay)
