"""C07 - component tree stays a consistent forest under register/unregister."""

from .. import kernelgen
from ..kernelcheck import run_kernel_check


def _h(comp, names, prio, script=None, chan=None):
    return {'comp': comp, 'names': names, 'chan': chan, 'prio': prio, 'script': script or {}}


def fam_forest(maxops, ncomp=4):
    comps = {str(c): {'chan': 'a'} for c in range(1, ncomp + 1)}
    handlers = {}
    for c in range(1, ncomp + 1):
        handlers[str(c)] = _h(c, ['x0'], ncomp - c, {'x0': [['ret', c]]})
    handlers[str(ncomp + 1)] = _h(1, [], 3, chan='*')      # a global observer on component 1
    return {
        'comps': comps, 'handlers': handlers,
        'ext': [{'name': 'x0'}],
        'ops': ['fire', 'flush', 'reg', 'unreg'], 'pre': [], 'maxops': maxops,
        'firers': list(range(1, ncomp + 1)), 'flushers': list(range(1, ncomp + 1)), 'dyn': [],
    }


def fam_detach_after_leave(extra):
    """c (with child d) dispatches as a root, is registered under r, d leaves, c is unregistered again and
    dispatches as a root: the long-unregistered d must receive nothing from its former tree"""
    return {
        'comps': {'1': {'chan': 'a'}, '2': {'chan': 'a'}, '3': {'chan': 'a'}},
        'handlers': {
            '1': _h(1, ['x0'], 2, {'x0': [['ret', 1]]}),
            '2': _h(2, ['x0'], 1, {'x0': [['ret', 2]]}),
            '3': _h(3, ['x0'], 0, {'x0': [['ret', 3]]}),
        },
        'ext': [{'name': 'x0'}],
        'ops': ['fire', 'flush', 'reg', 'unreg'],
        'pre': [['reg', 3, 2], ['fire', 2, 1], ['flush', 2], ['reg', 2, 1], ['flush', 1], ['unreg', 3], ['flush', 1], ['flush', 1],
                ['unreg', 2], ['flush', 1], ['flush', 1]],
        'maxops': 11 + extra, 'firers': [2], 'flushers': [1, 2], 'dyn': [],
    }


RANDOM_OPTS = {
    'ncomp': 5, 'shapes': ['plain', 'class'], 'nhandlers': (3, 8), 'prios': [-1, 0, 1, 2],
    'kinds': ['named', 'named', 'catchall', 'global'], 'nnames': 2,
    'script_ops': ['ret', 'fire'], 'flags': [0], 'maxfire': 1, 'targets': [None, '*'], 'p_script': 0.6,
    'hist_ops': ['fire', 'flush', 'tick', 'tick', 'reg', 'reg', 'unreg', 'unreg'], 'histlen': (4, 14), 'ext_names': 2,
    'p_attach': 0.6,
}


def gen_random(rnd, quick):
    for i in range(300 if quick else 6000):
        prog = kernelgen.gen_program(rnd, RANDOM_OPTS)
        yield prog, kernelgen.gen_history(rnd, RANDOM_OPTS, prog)


def witness(prog, lines, clause, line):
    pend_before = sum(1 for ln in lines[:line] if ln['k'] in ('api', 'op') and ln['n'] == 'unreg')
    return {'unregisters_before': min(pend_before, 3)}


def mutate(rnd, prog, lines):
    projs = [i for i, ln in enumerate(lines) if ln['k'] == 'proj' and i > len(prog['comps'])]
    if not projs:
        return None
    i = rnd.choice(projs)
    out = [dict(ln) for ln in lines]
    if rnd.random() < 0.5:
        out[i]['x'] = out[i]['x'] % len(prog['comps']) + 1
        return out, 'parent of component %d misreported' % lines[i]['c']
    out[i]['y'] = out[i]['y'] % len(prog['comps']) + 1
    return out, 'root of component %d misreported' % lines[i]['c']


def run(tier, replay=None):
    quick = tier == 'quick'
    spec = {
        'own': ['C07'],
        'families': [
            {'name': 'forest3', 'programs': [fam_forest(4 if quick else 5, 3)], 'hist_programs': [fam_forest(3 if quick else 4, 3)],
             'hist_cap_quick': 1000},
            {'name': 'forest4', 'programs': [fam_forest(3 if quick else 4, 4)], 'hist_programs': []},
            {'name': 'detach-after-leave', 'programs': [fam_detach_after_leave(2)], 'hist_programs': [fam_detach_after_leave(2)]},
        ],
        'teeth': [],
        'random': gen_random, 'witness': witness, 'mutators': mutate,
        'nontrivial': lambda p, ls: any(ln['k'] == 'api' and ln['n'] in ('reg', 'unreg') for ln in ls),
        'rule': 'cases = (program, external history): every complete history of register/unregister/fire/flush TLC generates for pools of 3 '
                'and 4 components replayed on the real classes (structure projected after the run and compared with the model), plus '
                'seeded random histories over 5 components with nested subtrees, re-registration elsewhere and several unregisters '
                'before a tick (register only on fully detached components, as the property quantifies); non-trivial = at least one '
                'register/unregister; distinct by hash',
        'assumptions': ['an unregistration that never completes (child unregistered after its parent, before any tick) is a liveness matter '
                        'outside the statement and is not flagged'],
    }
    return run_kernel_check('C07', tier, spec, replay)
