"""C19 - Node: remote events run once and return their result; peers cannot harm the loop.

Pipeline (DESIGN 5/C19):
  1. TLC checks spec/proto/NodeRpc.tla exhaustively in four focused
     configurations (cuts, firewalls, hostile grammar, payload classes): the
     intended algorithm (Dev = {}) obeys the C19 monitor of NodeRpcOps for every
     history in the bound; with each deviation of the pinned implementation
     (Dev = {"discard"}, {"metakeys"}, ...) TLC must find a violation, and the
     counterexample history is replayed on the real code.
  2. TLC dumps every environment history up to a bound (hist variable); each is
     replayed on two real circuits.node Protocol components wired back to back
     (c19_world.World), recording trace lines; the model's emitted lines are
     compared with the real ones (spec -> code).
  3. The recorded traces, plus enumerated hostile packets and seeded random
     longer scenarios (byte-level cuts, hostile packets in both directions),
     are judged by TLC with spec/proto/NodeRpcTrace.tla (code -> spec).
"""

import json
import os
import random
from concurrent.futures import ThreadPoolExecutor

from .. import tlc
from ..core import Ctx, use_repo

SPEC = 'spec/proto'
MC_CFGS = ['cuts', 'three', 'nr', 'fw', 'hostile', 'pay', 'struct']
DEVS = {            # deviation -> configuration in which TLC must find the violation
    'discard': 'cuts', 'metakeys': 'hostile', 'chanunhash': 'hostile',
    'tilde': 'pay', 'valuekey': 'pay', 'errsilent': 'pay', 'namesniff': 'struct', 'bracecount': 'struct', 'truthyonly': 'struct',
}
ACTIONS = ['Send', 'Read', 'Reply', 'Hostile', 'Quiet', 'Execute', 'Reject', 'Deliver', 'HDispatch', 'HValue', 'HChan', 'Probe']
HOSTILE_CLASSES = ['trunc', 'types', 'missing', 'oversize', 'delim', 'chanlist', 'vforge', 'vtypes', 'utf8']
META_KEYS = ['cause', 'effects', 'cause+effects', 'complete_channels', 'success_channels', 'value', 'handler',
             'channels', 'waitingHandlers', 'cancelled', 'stopped', 'name', 'alert_done', 'success', 'failure',
             'complete', 'notify', 'parent', 'args', 'kwargs', 'child', 'node_call_id', 'node_sock', 'foo', '_foo']


# --------------------------------------------------------------------------
# model history -> script

def realise(hist):
    """hist items: [op, s1, s2, s3, n1, n2] -> (fw, script)."""
    fw = '--'
    script = []
    for h in hist:
        op = h[0]
        if op == 'C':
            fw = h[1]
        elif op == 'S':
            script.append(('S', h[1], h[2], h[3], 0, h[4]))
        elif op == 'R':
            script.append(('R', h[4], h[5]))
        elif op == 'P':
            script.append(('P', h[4], h[5], h[1] == 'err'))
        elif op == 'H':
            script.append(('H', h[1], h[2]))
        elif op == 'Q':
            script.append(('Q',))
    return fw, script


def run_script(fw, script, seed, variant=0, huge=False, model=False, nconn=1, server=False):
    from .c19_world import World
    w = World(fw, seed, nconn, server)
    w.huge = huge
    sc = []
    for st in script:
        if st[0] == 'H' and len(st) < 5:
            # a forged value packet of a model history always targets the waiting id (as the model says)
            st = (st[0], st[1], st[2], st[3] if len(st) > 3 else 1, 0 if (model and st[1] == 'vforge') else variant)
        sc.append(st)
    w.run(sc)
    return w


# --------------------------------------------------------------------------
# comparison of the model's lines with the real ones

ENV = ('cfg', 'send', 'read', 'release', 'hostile', 'quiet')


def _groups(tuples):
    out = []
    for t in tuples:
        if t[0] in ENV and not (t[0] == 'quiet'):
            out.append([t])
        elif t[0] == 'quiet':
            # the quiet step is probe, probe, quiet: pull the two probes into it
            g = [t]
            while out and out[-1] and out[-1][-1][0] == 'probe' and len(g) < 3:
                g.insert(0, out[-1].pop())
            out.append(g)
        else:
            out[-1].append(t)
    return [[g[0]] + sorted(g[1:], key=repr) if g and g[0][0] != 'probe' else sorted(g, key=repr) for g in out if g]


def norm_model(lines):
    res = []
    for ln in lines:
        k = ln['k']
        if k == 'cfg':
            res.append((k, ln['a'], ln['b']))
        elif k == 'send':
            res.append((k, ln['id'], ln['b'], ln['c'], ln['s']))
        elif k in ('wr', 'read', 'escape'):
            res.append((k, ln['id']))
        elif k == 'exec':
            res.append((k, ln['id'], 1 if ln['a'] == ln['id'] else 0))
        elif k == 'release':
            res.append((k, ln['id'], ln['a'], ln['b']))
        elif k == 'deliver':
            res.append((k, ln['id'], ln['a'] if not ln['b'] else 0, ln['b']))
        elif k == 'hostile':
            res.append((k, ln['id'], ln['a'], ln['s']))
        elif k == 'hattr':
            res.append((k, ln['id'], ln['a'], ln['b'], ln['s']))
        elif k == 'probe':
            res.append((k, ln['id'], ln['a']))
        else:
            res.append((k,))
    return _groups(res)


def norm_real(world, upto=None):
    res = []
    lines = world.log if upto is None else world.log[:upto]
    for ln in lines:
        k = ln['k']
        if k == 'exec':
            s = world.sends.get(ln['id'])
            res.append((k, ln['id'], 1 if s and s['proj'] == ln['a'] else 0))
        elif k == 'cfg':
            res.append((k, ln['a'], ln['b']))
        elif k == 'send':
            res.append((k, ln['id'], ln['b'], ln['c'], ln['s']))
        elif k in ('wr', 'read', 'escape'):
            res.append((k, ln['id']))
        elif k == 'release':
            res.append((k, ln['id'], ln['a'], ln['b']))
        elif k == 'deliver':
            res.append((k, ln['id'], ln['a'] if not ln['b'] else 0, ln['b']))
        elif k == 'hostile':
            res.append((k, ln['id'], ln['a'], ln['s']))
        elif k == 'hattr':
            res.append((k, ln['id'], ln['a'], ln['b'], ln['s']))
        elif k == 'probe':
            res.append((k, ln['id'], ln['a']))
        else:
            res.append((k,))
    return _groups(res)


# --------------------------------------------------------------------------
# random scenarios (code -> spec): byte-level cuts, both directions hostile

def random_script(rnd, quick):
    fw = rnd.choice(['--', '--', 'S-', '-R', 'SR'])
    script = []
    nsend = 0
    outstanding = []
    hostile_ok = rnd.random() < 0.45
    cutty = rnd.random() < 0.6
    for _ in range(rnd.randint(2, 10 if quick else 24)):
        r = rnd.random()
        if r < 0.35 and nsend < (4 if quick else 8):
            size = 'b' if rnd.random() < 0.2 else 's'
            pay = rnd.choice(['plain'] * 6 + ['tilde', 'valkey', 'wirekey', 'brace', 'struct', 'struct'])
            fwk = rnd.choice(['ok'] * 4 + ['sblk', 'rblk'])
            script.append(('S', size, pay, fwk, 0, 1 if rnd.random() < 0.25 else 0))
            nsend += 1
            outstanding.append(nsend)
        elif r < 0.7:
            d = rnd.choice([0, 0, 1])
            if cutty and rnd.random() < 0.7:
                script.append(('Rb', d, rnd.choice([1, 2, 3, 4, 5, 7, 50, 100, 150, 185, 186, 187, 188, 189, 190, 400, 1000, 4093, 4094, 4095, 4096])))
            else:
                script.append(('Rb', d, 4096))
        elif r < 0.85 and outstanding:
            sid = rnd.choice(outstanding)
            outstanding.remove(sid)
            script.append(('P', sid, rnd.choice([1, 1, 2, 3, 4, 5, 6, 6]), rnd.random() < 0.1))
        elif hostile_ok:
            q = rnd.random()
            if q < 0.25:
                script.append(('H', 'vmeta', rnd.choice(META_KEYS), 1, rnd.randint(0, 11)))
            elif q < 0.55:
                script.append(('H', 'meta', rnd.choice(META_KEYS), rnd.choice([1, 1, 0]), rnd.randint(0, 11)))
            else:
                script.append(('H', rnd.choice(HOSTILE_CLASSES), '', rnd.choice([1, 1, 0]), rnd.randint(0, 11)))
    return fw, script


def mutate_trace(rnd, lines):
    """Corrupt an accepted real trace so that the monitor must reject it."""
    out = [dict(ln) for ln in lines]
    execs = [i for i, ln in enumerate(out) if ln['k'] == 'exec']
    delivers = [i for i, ln in enumerate(out) if ln['k'] == 'deliver' and ln['a'] > 0]
    probes = [i for i, ln in enumerate(out) if ln['k'] == 'probe']
    hostile = any(ln['k'] == 'hostile' for ln in out)
    ops = []
    if execs:
        ops += ['dup_exec', 'fidelity']
        if not hostile:
            ops += ['drop_exec']
    if delivers and not hostile:
        ops += ['wrong_value', 'errflag', 'drop_deliver', 'swap_value']
    if probes:
        ops += ['probe_dead', 'escape']
    if not ops:
        return None
    how = rnd.choice(ops)
    if how == 'dup_exec':
        i = rnd.choice(execs)
        out.insert(i + 1, dict(out[i]))
    elif how == 'fidelity':
        out[rnd.choice(execs)]['a'] += 1000
    elif how == 'drop_exec':
        i = rnd.choice(execs)
        sid = out[i]['id']
        out = [ln for j, ln in enumerate(out) if not (ln['id'] == sid and ln['k'] in ('exec', 'release', 'deliver'))]
    elif how == 'wrong_value':
        out[rnd.choice(delivers)]['a'] = -1
    elif how == 'swap_value':
        i = rnd.choice(delivers)
        out[i]['a'] = 3 - out[i]['a']
    elif how == 'errflag':
        out[rnd.choice(delivers)]['b'] = 1
    elif how == 'drop_deliver':
        del out[rnd.choice(delivers)]
    elif how == 'probe_dead':
        out[rnd.choice(probes)]['a'] = 0
    elif how == 'escape':
        i = rnd.choice(probes)
        out.insert(i, {'k': 'escape', 'id': 0, 'a': 0, 'b': 0, 'c': 0, 's': 'X'})
    return out, how


def _suspicious(ln):
    """lines whose verdict does not influence the monitor's state: they can be
    neutralised to let the monitor reach the later lines"""
    return (ln['k'] == 'hattr' and ln['a'] == 1) or ln['k'] == 'escape' or (ln['k'] == 'probe' and ln['a'] != 1)


def _neutral(ln):
    ln = dict(ln)
    if ln['k'] == 'hattr':
        ln['a'] = 0
    elif ln['k'] == 'probe':
        ln['a'] = 1
    else:
        ln['k'] = 'noop'
    return ln


def judge(ctx, items, shards, jvm_opts):
    """items: list of (meta, world).  Validate with TLC in one batch.  The trace
    specification reports the first failing clause of a trace; to report every
    clause a trace breaks, a trace with suspicious hattr/escape/probe lines is
    also submitted with all of them neutralised (later clauses) and with all but
    one neutralised (that line's own verdict).  Returns accepted items, stats,
    and per item the first failing clause ('' if none)."""
    batch = []
    owner = []
    for i, (_, w) in enumerate(items):
        sus = [j for j, ln in enumerate(w.log) if _suspicious(ln)][:12]
        if not sus:
            batch.append(w.log)
            owner.append(i)
            continue
        for keep in [None] + sus:
            batch.append([(_neutral(ln) if (j in sus and j != keep) else ln) for j, ln in enumerate(w.log)])
            owner.append(i)
    verdicts, stats = tlc.validate_traces(SPEC, 'NodeRpcTrace', 'NodeRpcTrace.cfg', batch, shards=shards, jvm_opts=jvm_opts)
    found = {}
    for i, (clause, ln) in zip(owner, verdicts):
        if clause:
            found.setdefault(i, set()).add((ln, clause))
    accepted = []
    first = {}
    for i, (meta, w) in enumerate(items):
        fs = sorted(found.get(i, ()))
        # after an exception left tick() the real loop is gone: what the harness sees
        # later (it goes on ticking) is not a behaviour of the code
        esc = [ln for ln, _ in fs if w.log[ln - 1]['k'] == 'escape']
        if esc:
            fs = [f for f in fs if f[0] <= esc[0]]
        first[i] = fs[0][1] if fs else ''
        if not fs:
            accepted.append((meta, w))
        for ln, clause in fs:
            _report(ctx, meta, w, clause, ln)
    stats['batch'] = len(batch)
    return accepted, stats, first


def _report(ctx, meta, w, clause, ln):
    wit = w.witness(clause, ln)
    ctx.violation(clause, wit, {'fw': meta['fw'], 'script': meta['script'], 'seed': meta['seed'], 'variant': meta.get('variant', 0),
                                'huge': meta.get('huge', False), 'model': meta.get('model', False), 'nconn': meta.get('nconn', 1), 'server': meta.get('server', False),
                                'origin': meta['origin'], 'line': ln,
                                'trace': w.log[:80], 'notes': w.notes[:5]})


def run_replay(path):
    rec = json.load(open(path))
    d = rec['detail']
    script = [tuple(st) for st in d['script']]
    w = run_script(d['fw'], script, d['seed'], d.get('variant', 0), d.get('huge', False), d.get('model', False), d.get('nconn', 1), d.get('server', False))
    verdicts, _ = tlc.validate_traces(SPEC, 'NodeRpcTrace', 'NodeRpcTrace.cfg', [w.log], shards=1)
    clause, ln = verdicts[0]
    print('fw=%s script=%s' % (d['fw'], script))
    for i, l in enumerate(w.log, 1):
        print('%3d %-8s id=%-3d a=%-5d b=%d c=%d %s' % (i, l['k'], l['id'], l['a'], l['b'], l['c'], l['s']))
    if w.last_escape:
        print('exception that left tick(): %s' % w.last_escape)
    if clause:
        print('VIOLATION property=C19 replay=%s clause=%s line=%d witness=%s' % (path, clause, ln, json.dumps(w.witness(clause, ln), sort_keys=True)))
        return 1
    print('replay accepted: no clause of C19 fails on this tree')
    return 0


def _maximal(states):
    """distinct histories of the dump -> maximal ones with the settled state's out"""
    best = {}
    for st in states:
        h = tlc.tlaval._hashable(st['hist'])
        cur = best.get(h)
        if cur is None or len(st['out']) > len(cur[1]) or (len(st['out']) == len(cur[1]) and not st.get('pend')):
            best[h] = (st['hist'], st['out'])
    keys = set(best)
    prefixes = set()
    for k in keys:
        for i in range(len(k)):
            prefixes.add(k[:i])
    return [best[k] for k in sorted(keys - prefixes, key=repr)]


def run(tier, replay=None):
    use_repo()
    if replay:
        return run_replay(replay)
    ctx = Ctx('C19', tier)
    import time
    t0 = time.time()

    def tick(what):
        if os.environ.get('VERIF_TIMING'):
            print('[%6.1fs] %s' % (time.time() - t0, what))
    rnd = random.Random(ctx.seed * 7919 + 19)
    quick = tier == 'quick'
    sfx = '' if quick else '_thorough'

    jq = ('-Xmx2g', '-XX:ParallelGCThreads=2') + (('-XX:TieredStopAtLevel=1',) if quick else ())

    to = 900 if quick else 3000

    # 1. exhaustive model checks + deviation generators, in parallel JVMs
    def do_mc(c):
        return ('mc', c, tlc.model_check(SPEC, 'NodeRpc', 'MC_NodeRpc_%s%s.cfg' % (c, sfx), coverage=True, workers=4, jvm_opts=jq, timeout=to))

    def do_dev(d):
        return ('dev', d, tlc.run_tlc(SPEC, 'NodeRpc', 'DEV_NodeRpc_%s.cfg' % d, workers=2, jvm_opts=jq, timeout=to))

    pool = ThreadPoolExecutor(max_workers=8)
    dev_futs = [pool.submit(do_dev, d) for d in DEVS]        # short: breadth-first search stops at the violation
    mc_futs = [pool.submit(do_mc, c) for c in MC_CFGS]
    devs = {d: r for _, d, r in (f.result() for f in dev_futs)}
    tick('deviation runs done')

    # 1b. each deviation must violate C19 in the model (teeth); its counterexample
    # history is replayed on the real code: the deviations the tree under test
    # exhibits select the model variant whose lines the replays are compared with
    dev_clauses = {}
    cex = []
    for d, r in devs.items():
        if not r.violated or not r.error_trace:
            raise tlc.MachineryError('deviation %s of NodeRpc.tla no longer violates C19: the model lost its teeth' % d)
        last = r.error_trace[-1][1]
        dev_clauses[d] = last.get('bad') or r.violated
        fw, script = realise(last['hist'])
        w = run_script(fw, script, seed=ctx.seed + 5)
        cex.append((d, {'fw': fw, 'script': script, 'seed': ctx.seed + 5, 'origin': 'tlc-counterexample:' + d}, w))
    cv, _ = tlc.validate_traces(SPEC, 'NodeRpcTrace', 'NodeRpcTrace.cfg', [w.log for _, _, w in cex], shards=1, jvm_opts=jq)
    cex_real = {d: (c or 'accepted') for (d, _, _), (c, _) in zip(cex, cv)}
    present = sorted(d for d, c in cex_real.items() if c != 'accepted')
    tick('deviations present in the tree under test: %s' % present)

    # 2. every environment history of the model (variant Dev = deviations present) up to the bound (spec -> code)
    hist_cfgs = ['cuts', 'three', 'nr', 'fw', 'hostile', 'pay', 'struct']
    wd = tlc.workdir('c19cfg')
    try:
        def do_hist(c):
            src = os.path.join(tlc.VERIF, SPEC, 'HIST_NodeRpc_%s%s.cfg' % (c, sfx))
            dst = os.path.join(wd, 'HIST_%s.cfg' % c)
            with open(src) as f:
                text = f.read()
            if '  Dev = {}\n' not in text:
                raise tlc.MachineryError('no Dev line in %s' % src)
            with open(dst, 'w') as f:
                f.write(text.replace('  Dev = {}\n', '  Dev = {%s}\n' % ', '.join('"%s"' % d for d in present)))
            # with deviations present the model itself violates Conforms: only the histories are wanted
            with open(dst) as f:
                text = f.read()
            with open(dst, 'w') as f:
                f.write(text.replace('INVARIANT Conforms\n', ''))
            res, states = tlc.dump_states(SPEC, 'NodeRpc', dst, workers=4, jvm_opts=jq, timeout=to)
            return c, (res, _maximal(states))

        hist_futs = [pool.submit(do_hist, c) for c in hist_cfgs]
        hists = dict(f.result() for f in hist_futs)
        mcs = {c: r for _, c, r in (f.result() for f in mc_futs)}
    finally:
        import shutil
        pool.shutdown(wait=True)
        shutil.rmtree(wd, ignore_errors=True)
    for act in ACTIONS:
        if not any(act in r.coverage and r.coverage[act][1] > 0 for r in mcs.values()):
            raise tlc.MachineryError('vacuous model: action %s never taken in any configuration' % act)
    tick('model checks done: ' + ', '.join('%s=%d states/%.0fs' % (c, r.distinct, r.wall_s) for c, r in mcs.items()))
    tick('history dumps done: ' + ', '.join('%s=%d states/%d maximal' % (c, h[0].distinct, len(h[1])) for c, h in hists.items()))

    items = [(meta, w) for _, meta, w in cex]        # (meta, world)
    cap = 300 if quick else 100000
    n_hist = 0
    compare = {}
    for c in hist_cfgs:
        res, maximal = hists[c]
        if len(maximal) > cap:
            maximal = rnd.sample(maximal, cap)
        for idx, (h, mout) in enumerate(maximal):
            fw, script = realise(h)
            nvar = 1
            if any(st[0] == 'H' for st in script):
                nvar = 2 if quick else 4
            for variant in range(nvar):
                seed = ctx.seed * 1000003 + idx * 7 + variant
                w = run_script(fw, script, seed, variant, model=True)
                meta = {'fw': fw, 'script': script, 'seed': seed, 'variant': variant, 'model': True, 'origin': 'tlc-history:' + c}
                items.append((meta, w))
                compare[len(items) - 1] = mout
            n_hist += 1

    tick('histories replayed: %d items' % len(items))
    # 2b. the hostile grammar, every class x key x variant, whole and cut at every cell (enumerated)
    nvar = 4 if quick else 12
    for key in META_KEYS:
        for variant in range(nvar):
            for pre in ([], [('S', 's', 'plain', 'ok')]) if variant % 2 == 0 else ([],):
                script = list(pre) + [('H', 'meta', key, variant % 2 if not quick else 1, variant)]
                seed = ctx.seed + 31 * variant
                items.append(({'fw': '--', 'script': script, 'seed': seed, 'variant': variant, 'origin': 'hostile-enum'},
                              run_script('--', script, seed, variant)))
    for cls in HOSTILE_CLASSES:
        for variant in range(nvar if cls not in ('types', 'missing', 'vtypes') else 12):
            for d in (1, 0):
                script = [('S', 's', 'plain', 'ok'), ('H', cls, '', d, variant)]
                seed = ctx.seed + 37 * variant + d
                items.append(({'fw': '--', 'script': script, 'seed': seed, 'variant': variant, 'huge': variant % 2 == 1,
                               'origin': 'hostile-enum'}, run_script('--', script, seed, variant, huge=variant % 2 == 1)))

    # 2b'. hostile metadata in a *value* packet answering a call in flight (every key x variant), and
    # after the call has been answered
    for key in META_KEYS:
        for variant in range(nvar):
            pre = [('S', 's', 'plain', 'ok')] if variant % 4 != 3 else [('S', 's', 'plain', 'ok'), ('Rb', 0, 4096), ('P', 1, 1, False), ('Rb', 1, 4096)]
            script = pre + [('H', 'vmeta', key, 1, variant)]
            seed = ctx.seed + 41 * variant
            items.append(({'fw': '--', 'script': script, 'seed': seed, 'variant': variant, 'origin': 'hostile-value-enum'},
                          run_script('--', script, seed, variant)))

    # 2b''. sends nobody waits for (node_without_result) interleaved with calls on one connection:
    # every pattern of up to 3 sends, callee completions in every order, each answer in a read of its own
    # or all answers in one read
    import itertools
    for n in (2, 3):
        for pattern in itertools.product((0, 1), repeat=n):
            if not any(pattern) or (quick and n == 3 and sum(pattern) == 3):
                continue
            sends = [('S', 's', 'plain', 'ok', 0, nrf) for nrf in pattern]
            orders = list(itertools.permutations(range(1, n + 1)))
            if quick:
                orders = [orders[0], orders[-1]]
            for order in orders:
                for separate in (True, False):
                    script = list(sends) + [('Rb', 0, 4096)]
                    for sid in order:
                        script.append(('P', sid, 1, False))
                        if separate:
                            script.append(('Rb', 1, 4096))
                    seed = ctx.seed + 13 * len(items)
                    items.append(({'fw': '--', 'script': script, 'seed': seed, 'origin': 'no-result-enum'},
                                  run_script('--', script, seed)))

    # 2b'''. payloads made of the wire format's own material: objects keyed name / value / id / meta ...
    # and strings of JSON structural characters, as arguments and as results; whole, and cut into two
    # reads at EVERY byte offset of the packet, and into reads of a fixed small size
    def add_struct(script, seed, origin='struct-enum'):
        items.append(({'fw': '--', 'script': script, 'seed': seed, 'origin': origin}, run_script('--', script, seed)))

    for j in range(6 if quick else 40):
        for pay, v in (('wirekey', 3), ('brace', 4), ('struct', 5), ('plain', 3), ('wirekey', 5)):
            add_struct([('S', 's', pay, 'ok'), ('Rb', 0, 4096), ('P', 1, v, False), ('Rb', 1, 4096)], ctx.seed * 17 + j)
    # every falsy result value; packets of more than 64 KiB (call and answer) in 4 KiB reads
    for j in range(2 if quick else 8):
        for v in (60, 61, 62, 63, 64, 65):
            add_struct([('S', 's', 'plain', 'ok'), ('Rb', 0, 4096), ('P', 1, v, False), ('Rb', 1, 4096)], ctx.seed * 19 + j)
    for j in range(3 if quick else 12):
        add_struct([('S', 'h', 'plain', 'ok')], ctx.seed * 23 + j, 'huge-enum')                       # 4 KiB reads
        add_struct([('S', 'h', 'plain', 'ok'), ('Rb', 0, 33000 + 1000 * j), ('Rb', 0, 1 << 20)], ctx.seed * 23 + j, 'huge-enum')   # two reads
        add_struct([('S', 's', 'plain', 'ok'), ('Rb', 0, 4096), ('P', 1, 7, False)], ctx.seed * 23 + j, 'huge-enum')
    from .c19_world import World
    for j in range(1 if quick else 4):
        seed = ctx.seed * 29 + j
        for pay, v in ((('struct', 5),) if quick else (('struct', 5), ('brace', 4), ('wirekey', 3))):
            probe = World('--', seed)
            probe.step_send('s', pay, 'ok')
            ncall = len(probe.streams[(0, 0)].data)
            probe.step_read(0, 4096, unit='bytes')
            probe.step_release(1, v, False)
            nreply = len(probe.streams[(0, 1)].data)
            pre = [('S', 's', pay, 'ok')]
            for c in range(1, ncall):
                add_struct(pre + [('Rb', 0, c), ('Rb', 0, 4096), ('P', 1, v, False), ('Rb', 1, 4096)], seed)
            for c in range(1, nreply):
                add_struct(pre + [('Rb', 0, 4096), ('P', 1, v, False), ('Rb', 1, c), ('Rb', 1, 4096)], seed)
            for size in (1, 2, 3, 5, 8, 13, 21, 34, 55):
                add_struct(pre + [('Rb', 0, size)] * (-(-ncall // size)) + [('P', 1, v, False)] + [('Rb', 1, size)] * (-(-nreply // size)), seed)

    # 2c. one process holding two connections (Node with two peers): sends on both, every order of
    # arrival and completion (outside the model, which has one connection; judged by the same monitor)
    two = []
    for nper in ((1, 1), (2, 1)):
        sends = [('S', 's', 'plain', 'ok', c) for c in (0, 1) for _ in range(nper[c])]
        sids = list(range(1, len(sends) + 1))
        conn_of = {i + 1: st[4] for i, st in enumerate(sends)}
        for order in itertools.permutations(sids):
            if not quick or order in (tuple(sids), tuple(reversed(sids))):
                for interleave in (False, True):
                    script = list(sends) + [('Rb', 0, 4096, 0), ('Rb', 0, 4096, 1)]
                    for sid in order:
                        script.append(('P', sid, 1, False))
                        if interleave:
                            script.append(('Rb', 1, 4096, conn_of[sid]))
                    two.append(script)
    for j, script in enumerate(two):
        seed = ctx.seed + 101 * j
        items.append(({'fw': '--', 'script': script, 'seed': seed, 'origin': 'two-connections', 'nconn': 2},
                      run_script('--', script, seed, nconn=2)))

    # 2d. a callee process holding two connections on one channel (node.Server with two clients, one
    # Protocol per socket): both peers call at the same time (same call id on each connection), every
    # completion order, answers read at once or after each completion
    for order in ((1, 2), (2, 1)):
        for interleave in (False, True):
            for first in (0, 1):
                script = [('S', 's', 'plain', 'ok', first), ('S', 's', 'plain', 'ok', 1 - first), ('Rb', 1, 4096, 0), ('Rb', 1, 4096, 1)]
                for sid in order:
                    script.append(('P', sid, 1, False))
                    if interleave:
                        script += [('Rb', 0, 4096, 0), ('Rb', 0, 4096, 1)]
                seed = ctx.seed + 7 * len(items)
                items.append(({'fw': '--', 'script': script, 'seed': seed, 'origin': 'server-two-clients', 'nconn': 2, 'server': True},
                              run_script('--', script, seed, nconn=2, server=True)))
    for j in range(2 if quick else 10):     # and the server with a single client behaves like any peer
        script = [('S', 's', 'plain', 'ok', 0), ('S', 'b', 'plain', 'ok', 0), ('Rb', 1, 4096, 0), ('P', 1, 1, False)]
        items.append(({'fw': '--', 'script': script, 'seed': ctx.seed + j, 'origin': 'server-one-client', 'nconn': 1, 'server': True},
                      run_script('--', script, ctx.seed + j, nconn=1, server=True)))

    # 3. random longer scenarios (code -> spec)
    nrand = 150 if quick else 5000
    for i in range(nrand):
        fw, script = random_script(rnd, quick)
        seed = ctx.seed * 31 + i
        huge = i % 7 == 0
        nconn = 1
        if i % 5 == 4 and not any(st[0] == 'H' for st in script):
            # the same scenario spread over two connections of one process
            nconn = 2
            script = [(st[:4] + (rnd.randint(0, 1),) + st[5:]) if st[0] == 'S' else (st + (rnd.randint(0, 1),) if st[0] == 'Rb' else st)
                      for st in script]
        items.append(({'fw': fw, 'script': script, 'seed': seed, 'origin': 'random', 'huge': huge, 'nconn': nconn},
                      run_script(fw, script, seed, huge=huge, nconn=nconn)))

    tick('all scenarios run: %d items' % len(items))
    accepted, stats, first = judge(ctx, items, 8 if quick else 16, jq)

    tick('judged')
    # model lines (variant chosen above) vs real lines for every replayed history
    n_cmp = n_match = 0
    for i, mout in compare.items():
        meta, w = items[i]
        n_cmp += 1
        ml = norm_model(mout)
        rl = norm_real(w, w.scripted_len)
        if rl == ml or rl[:len(ml)] == ml:
            n_match += 1
        else:
            j = 0
            while j < min(len(ml), len(rl)) and ml[j] == rl[j]:
                j += 1
            ctx.note_drift('real trace differs from the model at step %d for %s %s: model %s real %s' % (
                j, meta['fw'], meta['script'], ml[j] if j < len(ml) else None, rl[j] if j < len(rl) else None))

    for i, (meta, w) in enumerate(items):
        nontrivial = any(ln['k'] in ('exec', 'hattr', 'escape') for ln in w.log) or any(st[0] in ('H', 'R', 'Rb') for st in meta['script'])
        ctx.count_case([meta['fw'], meta['script'], meta.get('variant', 0), meta.get('nconn', 1), meta['seed'] if meta['origin'] != 'tlc-history' else 0],
                       nontrivial, sample={'fw': meta['fw'], 'script': meta['script'], 'origin': meta['origin'],
                                           'trace': w.log[:14], 'verdict': first[i] or 'accepted'})

    # 4. binding demonstration: corrupted real traces must be rejected
    muts = []
    pool = [w.log for _, w in accepted if len(w.log) < 200]
    rnd.shuffle(pool)
    for lines in pool:
        if len(muts) >= (80 if quick else 600):
            break
        m = mutate_trace(rnd, lines)
        if m:
            muts.append(m)
    if muts:
        mv, _ = tlc.validate_traces(SPEC, 'NodeRpcTrace', 'NodeRpcTrace.cfg', [m[0] for m in muts], shards=4, jvm_opts=jq)
        missed = [muts[i][1] for i, (c, _) in enumerate(mv) if not c]
        if missed:
            raise tlc.MachineryError('trace spec accepted %d corrupted traces, e.g. %s' % (len(missed), missed[0]))

    tick('mutants judged')
    return ctx.finish(coverage={
        'states': sum(r.distinct for r in mcs.values()), 'transitions': sum(r.generated for r in mcs.values()),
        'model_configurations': {c: {'states': r.distinct, 'transitions': r.generated, 'depth': r.depth} for c, r in mcs.items()},
        'deviation_counterexamples': dev_clauses,
        'deviation_counterexamples_on_real_code': cex_real,
        'model_variant_compared': present,
        'traces_validated_against_impl': len(items),
        'model_histories_replayed': n_hist,
        'history_dump_states': sum(h[0].distinct for h in hists.values()),
        'model_line_exact_match': n_match, 'model_line_compared': n_cmp,
        'trace_validation_states': stats['states'],
        'corrupted_traces_rejected': len(muts),
        'rule': 'cases = (firewall configuration, concrete script, hostile variant, seed); from every maximal environment '
                'history TLC dumps for NodeRpc.tla in five bounded configurations (sampled down to %d per configuration in the '
                'quick tier), the hostile grammar enumerated (class x metadata key x value variant x direction), scenarios '
                'with two connections in one process (every completion order), and seeded random scenarios with byte-level cuts; non-trivial = an event was dispatched, a hostile packet sent or bytes '
                'were read; distinct by hash of the case' % cap,
        'exhaustive': False,
    }, assumptions=[
        'the two Protocol components run in one process, each in its own Manager tree and with its own copy of the module '
        'circuits/node/protocol.py; sockets are replaced by captured write events and injected read events',
        'equality of events and values is decided by the projection (canonical JSON of name/args/kwargs/channels/flags, '
        'value lookup per send id); order, multiplicity, routing and liveness by TLC',
        'the model has one connection between two peers; a process holding two connections as caller (Node with two '
        'peers) is exercised by enumerated and random scenarios judged by the same monitor; a callee process with several '
        'connections (Server with several clients) is not exercised',
    ])
