"""C12 - the real servers / clients of circuits.net.sockets under a real poller,
stepped deterministically (helper module of harness/drivers/c12.py).

A World owns one Manager that is never started: the loop is stepped by firing
generate_events(lock, 0) (time_left 0: select/poll/epoll never wait) and
ticking until the queue and the task list are empty.  Peers are raw
non-blocking sockets of the harness.  After a batch of peer / application
actions `settle()` iterates until (a) the fingerprint of everything observable
(event log, tables, buffered bytes, kernel queue sizes, bytes the peers
received) is unchanged for three consecutive iterations and (b) nothing is
measured to be in flight in the kernel.  The real-time cap only turns a run
that cannot settle into a MachineryError; it is never an oracle.
"""

import array
import fcntl
import os
import select
import socket
import struct
import termios
import time

from .. import tlc
from ..core import VERIF
from ..doubles import Stream

WORK = os.path.join(VERIF, '.work')
TABLES = ('_clients', '_buffers', '_closeq', '_read', '_write', '_targets', '_map')
SMALL = 10          # model size Small: the kernel takes it at once
BIG = 300000        # model size Big: fills the (shrunk) kernel buffers of a peer that does not read
KBUF = 16384        # SO_SNDBUF of accepted sockets / SO_RCVBUF of peers
CAP_S = 120.0       # real-time cap of one settle (machinery error beyond; never a verdict)
_HUP = select.POLLHUP | select.POLLERR
_RDHUP = getattr(select, 'POLLRDHUP', 0x2000)

_seq = [0]


def line(k, p='', c=0, a=0, b=0, t=''):
    return {'k': k, 'p': p, 'c': c, 'a': a, 'b': b, 't': t}


def _ioctl_int(fd, req):
    buf = array.array('i', [0])
    fcntl.ioctl(fd, req, buf)
    return buf[0]


def outq(sock):
    """bytes sent and not yet acknowledged (TCP) / not yet consumed (AF_UNIX)"""
    return _ioctl_int(sock.fileno(), termios.TIOCOUTQ)


def inq(sock):
    return _ioctl_int(sock.fileno(), termios.FIONREAD)


def flags(sock):
    p = select.poll()
    p.register(sock.fileno(), select.POLLIN | select.POLLOUT | _RDHUP)
    r = p.poll(0)
    return r[0][1] if r else 0


def is_open(sock):
    return sock is not None and sock.fileno() != -1


class ServerSideSocket(socket.socket):
    """The socket accept() hands to the server: a real socket whose close()
    keeps its descriptor number busy afterwards (a dup of /dev/null), so that
    a later accept() cannot get the number and overwrite what a poller may
    still hold under it - the worst case for "no state retained", made
    deterministic."""

    plugs = None      # list shared with the world; None: no plugging
    devnull = -1

    def close(self):
        fd = self.fileno()
        super().close()
        if fd >= 0 and self.fileno() == -1 and self.plugs is not None:
            try:
                os.fstat(fd)
            except OSError:
                os.dup2(self.devnull, fd, inheritable=False)
                self.plugs.append(fd)


class Listener(socket.socket):
    """A real listening socket that keeps the sockets accept() handed out, in
    order, and shrinks their send buffer (so that a peer that stops reading
    blocks the server after a few kilobytes)."""

    def __init__(self, *a, **kw):
        super().__init__(*a, **kw)
        self.accepted = []      # (socket, address, descriptor number)
        self.plugs = []
        self.devnull = os.open(os.devnull, os.O_RDONLY)

    def accept(self):
        s0, addr = super().accept()
        s = ServerSideSocket(fileno=s0.detach())
        s.plugs = self.plugs
        s.devnull = self.devnull
        try:
            s.setsockopt(socket.SOL_SOCKET, socket.SO_SNDBUF, KBUF)
        except OSError:
            pass
        self.accepted.append((s, addr, s.fileno()))
        return s, addr

    def release(self):
        for fd in self.plugs:
            try:
                os.close(fd)
            except OSError:
                pass
        del self.plugs[:]
        if self.devnull >= 0:
            os.close(self.devnull)
            self.devnull = -1


def make_poller(pname):
    from circuits.core import pollers
    return {'select': pollers.Select, 'poll': pollers.Poll, 'epoll': pollers.EPoll}[pname]()


def close_poller(p):
    for fd in (p._ctrl_recv, p._ctrl_send):
        try:
            if isinstance(fd, int):
                os.close(fd)
            else:
                fd.close()
        except OSError:
            pass
    kp = getattr(p, '_poller', None)
    if kp is not None and hasattr(kp, 'close'):
        kp.close()


class Base:
    """Manager + poller, never started; zero-timeout stepping."""

    def __init__(self, pname):
        from circuits import Manager
        self.pname = pname
        self.root = Manager()
        self.poller = make_poller(pname).register(self.root)
        self.notes = []
        self.iterations = 0

    def pump(self):
        n = 0
        while len(self.root) or self.root._tasks:
            self.root.tick()
            n += 1
            if n > 100000:
                raise tlc.MachineryError('event queue does not drain')

    def iterate(self):
        from circuits.core.events import generate_events
        self.pump()
        self.root.fire(generate_events(self.root._lock, 0), '*')
        self.pump()
        self.iterations += 1


class ServerWorld(Base):
    def __init__(self, pname, fam):
        super().__init__(pname)
        from circuits import BaseComponent, handler
        from circuits.net.sockets import TCPServer, UNIXServer
        self.fam = fam
        self.path = None
        _seq[0] += 1
        if fam == 'tcp':
            lst = Listener(socket.AF_INET, socket.SOCK_STREAM)
            lst.setsockopt(socket.SOL_SOCKET, socket.SO_REUSEADDR, 1)
            lst.setsockopt(socket.IPPROTO_TCP, socket.TCP_NODELAY, 1)
            lst.bind(('127.0.0.1', 0))
            cls = TCPServer
        else:
            os.makedirs(WORK, exist_ok=True)
            self.path = os.path.join(WORK, 'c12-%d-%d.sock' % (os.getpid(), _seq[0]))
            if os.path.exists(self.path):
                os.unlink(self.path)
            lst = Listener(socket.AF_UNIX, socket.SOCK_STREAM)
            lst.bind(self.path)
            cls = UNIXServer
        lst.listen(16)
        lst.setblocking(False)
        self.lst = lst
        self.addr = lst.getsockname()
        self.lines = []
        self.peers = {}        # c -> raw peer socket (None once closed)
        self.pport = {}        # c -> local port of the peer (tcp)
        self.order = []        # connections in the order they were established
        self.ssock = {}        # c -> server side socket
        self.nmapped = 0
        self.stream = {}       # c -> Stream: what the peer sent
        self.reading = {}      # c -> peer consumes what the server sends
        self.recvd = {}        # c -> bytes the peer received
        self.written = {}      # c -> bytes handed to write events
        self.fin = set()       # peers that sent FIN
        self.gone = set()      # peers that closed / aborted
        self.aborted = set()   # peers whose close is known to be an abort (RST on its way)
        self.disc = set()      # connections whose disconnect was observed
        self.nevents = 0
        w = self

        class Observer(BaseComponent):
            channel = 'c12srv'

            @handler('connect', 'read', 'disconnect', 'error', priority=50)
            def _on_net(self, event, *args, **kwargs):
                w.observe(event.name, args)

            @handler('exception', channel='*', priority=50)
            def _on_exc(self, *args, **kwargs):
                w.notes.append('exception event: %r' % (args[1] if len(args) > 1 else args,))
                w.nevents += 1

        try:
            self.srv = cls(lst, channel='c12srv').register(self.root)
            Observer().register(self.root)
            self.pump()
        except BaseException:
            self.teardown()
            raise

    # -- observation --------------------------------------------------------
    def conn_of(self, sock):
        self.map_accepted()
        for c, s in self.ssock.items():
            if s is sock:
                return c
        return 0

    def map_accepted(self):
        acc = self.lst.accepted
        while self.nmapped < len(acc):
            s, addr, fd = acc[self.nmapped]
            c = 0
            if self.fam == 'tcp':
                for k, port in self.pport.items():
                    if port == addr[1] and k not in self.ssock:
                        c = k
            else:
                rest = [k for k in self.order if k not in self.ssock]
                c = rest[0] if rest else 0
            if c == 0:
                raise tlc.MachineryError('accepted socket %r cannot be attributed to a peer' % (addr,))
            self.ssock[c] = s
            self.nmapped += 1

    def observe(self, name, args):
        self.nevents += 1
        sock = args[0] if args else None
        c = self.conn_of(sock) if isinstance(sock, socket.socket) else 0
        if name == 'read':
            data = args[1] if len(args) > 1 else b''
            off = -1
            if c:
                st = self.stream[c]
                off = st.project(data)
                if off == st.acked:
                    st.acked += len(data)
            self.lines.append(line('read', self.pname, c, off, len(data)))
        else:
            self.lines.append(line(name, self.pname, c))
            if name == 'error' and len(args) > 1:
                self.notes.append('error(%d): %r' % (c, args[1]))
            if name == 'disconnect' and c:
                self.disc.add(c)

    # -- environment actions -------------------------------------------------
    def log(self, k, c=0, a=0, b=0):
        self.lines.append(line(k, self.pname, c, a, b))

    def connect(self, c):
        if self.fam == 'tcp':
            s = socket.socket(socket.AF_INET, socket.SOCK_STREAM)
        else:
            s = socket.socket(socket.AF_UNIX, socket.SOCK_STREAM)
        try:
            s.setsockopt(socket.SOL_SOCKET, socket.SO_RCVBUF, KBUF)
            if self.fam == 'tcp':
                s.setsockopt(socket.IPPROTO_TCP, socket.TCP_NODELAY, 1)
            s.settimeout(CAP_S)
            s.connect(self.addr)
            s.setblocking(False)
        except OSError as e:
            s.close()
            raise tlc.MachineryError('peer cannot connect: %r' % (e,))
        self.peers[c] = s
        if self.fam == 'tcp':
            self.pport[c] = s.getsockname()[1]
        self.order.append(c)
        self.stream[c] = Stream(seed=1000 + c)
        self.reading[c] = True
        self.recvd[c] = 0
        self.written[c] = 0
        self.log('pconnect', c)

    def peer(self, c):
        s = self.peers.get(c)
        return s if is_open(s) else None

    def send(self, c, n):
        s = self.peer(c)
        if s is None or c in self.fin:
            return False
        st = self.stream[c]
        data = st.payload(n)
        try:
            k = s.send(data)
        except BlockingIOError:
            k = 0
        except OSError as e:       # the server side is gone: nothing was sent
            self.notes.append('peer %d send: %r' % (c, e))
            k = 0
        if k < n:
            del st.data[len(st.data) - (n - k):]
        self.log('psend', c, k)
        return True

    def shut(self, c):
        s = self.peer(c)
        if s is None or c in self.fin:
            return False
        try:
            s.shutdown(socket.SHUT_WR)
        except OSError as e:
            self.notes.append('peer %d shutdown: %r' % (c, e))
        self.fin.add(c)
        self.log('pshut', c)
        return True

    def drain(self, c):
        s = self.peer(c)
        if s is None or not self.reading.get(c):
            return
        for _ in range(64):
            try:
                d = s.recv(1 << 20)
            except BlockingIOError:
                return
            except OSError:
                return
            if not d:
                return
            self.recvd[c] += len(d)

    def close(self, c):
        s = self.peer(c)
        if s is None:
            return False
        self.drain(c)
        unread = 0
        try:
            unread = inq(s)
        except OSError:
            pass
        dirty = unread > 0 or self.written[c] > self.recvd[c]
        if unread > 0:
            self.aborted.add(c)
        s.close()
        self.fin.add(c)
        self.gone.add(c)
        self.log('pclose', c, 1 if dirty else 0)
        return True

    def reset(self, c):
        s = self.peer(c)
        if s is None:
            return False
        s.setsockopt(socket.SOL_SOCKET, socket.SO_LINGER, struct.pack('ii', 1, 0))
        s.close()
        self.gone.add(c)
        if self.fam == 'tcp':
            self.aborted.add(c)
        self.log('preset', c)
        return True

    def stop(self, c):
        if self.peer(c) is None or not self.reading.get(c):
            return False
        self.reading[c] = False
        self.log('pstop', c)
        return True

    def swrite(self, c, nbytes, z):
        from circuits.net.events import write
        self.map_accepted()
        s = self.ssock.get(c)
        if s is None:
            return False
        late = c in self.disc or not is_open(s)
        if not late:
            self.written[c] += nbytes
        self.log('lwrite' if late else 'swrite', c, z)
        self.root.fire(write(s, b'w' * nbytes), 'c12srv')
        return True

    def sclose(self, c):
        from circuits.net.events import close
        self.map_accepted()
        s = self.ssock.get(c)
        if s is None:
            return False
        self.log('lclose' if (c in self.disc or not is_open(s)) else 'sclose', c)
        self.root.fire(close(s), 'c12srv')
        return True

    # -- quiescence ------------------------------------------------------------
    def buffered(self, s):
        b = self.srv._buffers
        if not any(k is s for k in b):
            return -1
        return sum(len(x) for x in b[s])

    def holds(self, s):
        srv, po = self.srv, self.poller
        out = []
        for name, tab in (('_clients', srv._clients), ('_buffers', srv._buffers), ('_closeq', srv._closeq),
                          ('_read', po._read), ('_write', po._write), ('_targets', po._targets),
                          ('_map', getattr(po, '_map', {}).values())):
            if any(x is s for x in tab):
                out.append(name)
        return out

    def fingerprint(self):
        self.map_accepted()
        fp = [self.nevents, len(self.lines), len(self.lst.accepted)]
        for c in sorted(self.ssock):
            s = self.ssock[c]
            fp.append((c, tuple(self.holds(s)), self.buffered(s), self.recvd[c],
                       (inq(s), outq(s)) if is_open(s) else None))
        for c in sorted(self.peers):
            s = self.peer(c)
            fp.append((c, outq(s) if s is not None else None))
        return fp

    def inflight(self):
        """What the kernel (or the loop) is measured still to owe: a reason
        string, or '' if nothing."""
        self.map_accepted()
        if len(self.lst.accepted) < len(self.order):
            return 'connection %d not accepted yet' % len(self.order)
        for c in self.order:
            s = self.ssock[c]
            p = self.peer(c)
            if not is_open(s):
                continue
            if p is not None and self.fam == 'tcp' and outq(p) > 0:
                return 'bytes of peer %d not acknowledged' % c
            fl = 0
            if c in self.fin or c in self.gone:
                fl = flags(s)
                if c in self.aborted:
                    if not fl & _HUP:
                        return 'abort of peer %d not arrived' % c
                elif not fl & (_HUP | _RDHUP):
                    return 'FIN of peer %d not arrived' % c
            if c in self.gone and not (fl & _HUP) and outq(s) > 0:
                return 'bytes for the closed peer %d unanswered' % c
            if p is not None and self.reading[c] and (self.buffered(s) > 0 or outq(s) > 0 or inq(p) > 0):
                return 'bytes for the reading peer %d under way' % c
        return ''

    def settle(self):
        t0 = time.monotonic()
        stable = 0
        pause = 0.0002
        why = ''
        while stable < 3:
            for c in self.order:
                self.drain(c)
            before = self.fingerprint()
            self.iterate()
            for c in self.order:
                self.drain(c)
            after = self.fingerprint()
            why = self.inflight()
            if before == after and not why:
                stable += 1
                continue
            stable = 0
            if before == after:
                if time.monotonic() - t0 > CAP_S:
                    raise tlc.MachineryError('world %s/%s cannot settle: %s' % (self.pname, self.fam, why))
                time.sleep(pause)
                pause = min(pause * 1.5, 0.01)
        for c in self.order:
            # quiescent and nothing in flight: a peer that reads has consumed whatever the write
            # events handled so far will ever deliver (the rest was dropped with the socket)
            if self.peer(c) is not None and self.reading[c]:
                self.written[c] = self.recvd[c]
        for c in sorted(self.ssock):
            if c in self.disc or not is_open(self.ssock[c]):       # tables are reported for dead sockets only
                for name in self.holds(self.ssock[c]):
                    held = max(self.buffered(self.ssock[c]), 0) if name == '_buffers' else 0     # a = bytes still buffered
                    self.lines.append(line('residue', self.pname, c, held, 0, name))
        self.lines.append(line('quiet', self.pname))

    # -- teardown ---------------------------------------------------------------
    def teardown(self):
        for s in list(self.peers.values()):
            if is_open(s):
                s.close()
        for s, addr, fd in self.lst.accepted:
            if is_open(s):
                s.close()
        srv = getattr(self, 'srv', None)
        if srv is not None:
            for s in list(srv._clients):
                if is_open(s):
                    s.close()
        self.lst.close()
        self.lst.release()
        close_poller(self.poller)
        if self.path and os.path.exists(self.path):
            os.unlink(self.path)


def run_history(pname, fam, hist, scale=1):
    """Replay one environment history on one world.  hist items:
    [op, c, n] with op in connect send shut close reset stop swrite sclose
    lwrite lclose settle.  A final settle is always added.  Returns
    (steps, notes): steps[i] = lines of history item i."""
    w = ServerWorld(pname, fam)
    steps = []
    try:
        items = [list(h) for h in hist]
        if not items or items[-1][0] != 'settle':
            items.append(['settle', 0, 0])
        for op, c, n in items:
            mark = len(w.lines)
            if op == 'connect':
                w.connect(c)
            elif op == 'send':
                w.send(c, n * scale)
            elif op == 'shut':
                w.shut(c)
            elif op == 'close':
                w.close(c)
            elif op == 'reset':
                w.reset(c)
            elif op == 'stop':
                w.stop(c)
            elif op in ('swrite', 'lwrite'):
                w.swrite(c, SMALL if n == 1 else BIG, n)
            elif op in ('sclose', 'lclose'):
                w.sclose(c)
            elif op == 'settle':
                w.settle()
            else:
                raise tlc.MachineryError('unknown operation %r' % (op,))
            steps.append(w.lines[mark:])
        return steps, w.notes
    finally:
        w.teardown()
