"""Independent RFC 6455 (section 5) framing reference used by the C17 harness.

Written from the RFC, shares nothing with circuits.protocols.websocket:
  encode_frame   what a conforming peer puts on the wire for one frame
  decode_frames  reads back what the endpoint under test wrote (a control
                 frame longer than 125 bytes is read and flagged, not refused,
                 so that its payload can still be compared)
  Assembler      frames -> messages (fragmentation, interleaved control frames)
"""

import struct

OPCODES = {0: 'cont', 1: 'text', 2: 'bin', 8: 'close', 9: 'ping', 10: 'pong'}
OPNUM = {v: k for k, v in OPCODES.items()}


class FrameError(Exception):
    pass


def min_enc(n):
    return 7 if n <= 125 else (16 if n <= 0xFFFF else 64)


def xor_mask(payload, key):
    """payload XOR key repeated (RFC 6455 5.3); involutive."""
    n = len(payload)
    if n == 0:
        return b''
    rep = (key * (n // 4 + 1))[:n]
    return (int.from_bytes(payload, 'big') ^ int.from_bytes(rep, 'big')).to_bytes(n, 'big')


def encode_frame(fin, op, payload, key=None, enc=None):
    """One frame: FIN/opcode byte, MASK/length byte, extended length (network
    order), masking key, (masked) payload.  enc None = minimal encoding."""
    n = len(payload)
    enc = enc or min_enc(n)
    out = bytearray([(0x80 if fin else 0) | OPNUM[op]])
    mbit = 0x80 if key is not None else 0
    if enc == 7:
        if n > 125:
            raise ValueError('length does not fit 7 bits')
        out.append(mbit | n)
    elif enc == 16:
        out.append(mbit | 126)
        out += struct.pack('>H', n)
    else:
        out.append(mbit | 127)
        out += struct.pack('>Q', n)
    if key is not None:
        out += key
        out += xor_mask(bytes(payload), bytes(key))
    else:
        out += payload
    return bytes(out)


def decode_frames(data):
    """bytes -> ([frame dict], error or None).  A frame dict has fin, op,
    masked, enc, len, payload (unmasked).  Stops at the first malformed or
    truncated frame."""
    data = bytes(data)
    frames = []
    i = 0
    n = len(data)
    while i < n:
        if n - i < 2:
            return frames, 'truncated header'
        b0, b1 = data[i], data[i + 1]
        if b0 & 0x70:
            return frames, 'reserved bits set'
        opn = b0 & 0x0F
        if opn not in OPCODES:
            return frames, 'reserved opcode %d' % opn
        fin = bool(b0 & 0x80)
        masked = bool(b1 & 0x80)
        ln = b1 & 0x7F
        j = i + 2
        enc = 7
        if ln == 126:
            enc = 16
            if n - j < 2:
                return frames, 'truncated extended length'
            ln = struct.unpack('>H', data[j:j + 2])[0]
            j += 2
        elif ln == 127:
            enc = 64
            if n - j < 8:
                return frames, 'truncated extended length'
            ln = struct.unpack('>Q', data[j:j + 8])[0]
            j += 8
            if ln >> 63:
                return frames, 'most significant bit of 64-bit length set'
        if opn >= 8 and not fin:
            return frames, 'control frame fragmented'
        oversize = opn >= 8 and ln > 125       # RFC 6455 5.5: at most 125 bytes; read on, the caller is told
        key = None
        if masked:
            if n - j < 4:
                return frames, 'truncated masking key'
            key = data[j:j + 4]
            j += 4
        if n - j < ln:
            return frames, 'truncated payload'
        payload = data[j:j + ln]
        if masked:
            payload = xor_mask(payload, key)
        frames.append({'fin': fin, 'op': OPCODES[opn], 'masked': masked, 'enc': enc, 'len': ln,
                       'payload': payload, 'oversize': oversize})
        i = j + ln
    return frames, None


class Assembler:
    """Frames -> units: a control frame is a unit, a data message (text|bin
    followed by cont frames up to FIN) is a unit.  feed() returns a list of
    dicts op, payload, masked (True/False, None if its frames disagree),
    nframes, enc (of the single frame; 0 = fragmented and every fragment
    minimally encoded; -1 = some fragment not minimally encoded), or op 'bad'."""

    def __init__(self):
        self.parts = None

    def feed(self, frames):
        out = []
        for fr in frames:
            op = fr['op']
            if op in ('close', 'ping', 'pong'):
                out.append({'op': op, 'payload': fr['payload'], 'masked': fr['masked'], 'nframes': 1,
                            'enc': fr['enc'], 'oversize': fr.get('oversize', False)})
                continue
            if op == 'cont':
                if self.parts is None:
                    out.append({'op': 'bad', 'payload': b'', 'masked': fr['masked'], 'nframes': 1, 'enc': fr['enc'],
                                'why': 'continuation frame without a message'})
                    continue
                self.parts.append(fr)
            else:
                if self.parts is not None:
                    out.append({'op': 'bad', 'payload': b'', 'masked': fr['masked'], 'nframes': 1, 'enc': fr['enc'],
                                'why': 'new message inside a fragmented one'})
                self.parts = [fr]
            if fr['fin']:
                parts, self.parts = self.parts, None
                masks = {p['masked'] for p in parts}
                if len(parts) == 1:
                    enc = parts[0]['enc']
                else:
                    enc = 0 if all(p['enc'] == min_enc(p['len']) for p in parts) else -1
                out.append({'op': parts[0]['op'], 'payload': b''.join(p['payload'] for p in parts),
                            'masked': masks.pop() if len(masks) == 1 else None,
                            'nframes': len(parts), 'enc': enc})
        return out
