"""C13 - HTTP messages are parsed identically however the stream is segmented.

Pipeline (DESIGN 6/C13):
  1. TLC checks spec/web/HttpFraming.tla exhaustively: for every layout of the
     grammar and every way of cutting it into reads (state = message, pos,
     prev), the intended framing algorithm (wait for the complete first line,
     header block, body; report once, at the last byte) obeys the C13 monitor
     of HttpFramingOps; the algorithm of the pinned parser (Defects = five
     named deviations) must violate it (defect generators).
  2. TLC dumps the environment histories of the HIST plans (every single cut
     of ~65 layouts, byte-at-a-time prefixes, pairs / triples of cuts around
     the structural boundaries, keep-alive sequences); each is realised as
     bytes (c13_realize) and replayed on the real code:
       server: circuits.web.http.HTTP + Dispatcher inside the socket-less
               pipeline of harness/httpdouble.py, a probe `request` handler
               below the dispatcher records the request's projection;
       client: circuits.web.client.Client (TCPClient + circuits.protocols.http.HTTP)
               over a socket double whose recv() is scripted; a probe records
               the `response` event's projection.
     Every replay is compared with one-piece delivery of the same bytes on the
     same tree (flags per field) and recorded as trace lines.
  3. TLC judges every recorded trace with spec/web/HttpFramingTrace.tla (same
     monitor); the events the model predicts for the history (with the Defects
     a probe finds in the tree) are compared with the real ones (drift).
  4. Seeded random layouts (not in the grammar: long bodies, many chunks,
     repeated fields) and cut sequences on top.
"""

import json
import os
import random
import re
import shutil
import sys
import time
from concurrent.futures import ThreadPoolExecutor

from .. import tlc
from ..core import Ctx, use_repo, VERIF
from . import c13_realize as rz

SPEC = 'spec/web'
PID = 'C13'
BUFSIZE = 4096          # a read event never carries more than the transport's buffer size
ALL_DEFECTS = ['linecrlf', 'lastchunk', 'nobody', 'nobody304', 'untilclose', 'emptyhdr', 'tecase']

F_STATUS, F_METHOD, F_PATH, F_QUERY, F_VERSION, F_HEADERS, F_BODY, F_RESP = 1, 2, 4, 8, 16, 32, 64, 128

_DATE = re.compile(rb'\r\nDate: [^\r]*')


def _mask(b):
    return _DATE.sub(b'\r\nDate: X', b)


def _line(k, m, a, pos, d=0):
    return {'k': k, 'm': m, 'a': a, 'pos': pos, 'd': d}


def _points(cuts, T):
    """Offsets at which reads end: the cuts, the end, and a boundary every
    BUFSIZE bytes of a longer stretch."""
    out = []
    prev = 0
    for b in list(cuts) + [T]:
        while b - prev > BUFSIZE:
            prev += BUFSIZE
            out.append(prev)
        if b > prev:
            out.append(b)
            prev = b
    return out


# ---------------------------------------------------------------------------
# server side

_probe_cls = {}


def _server_probe():
    if 'server' not in _probe_cls:
        from circuits import BaseComponent, handler

        class RequestProbe(BaseComponent):
            channel = 'web'

            def init(self):
                self.seen = []

            # below the dispatcher (0.1): records what a request handler sees and answers
            @handler('request', priority=0.05)
            def _on_request(self, event, req, res, *args, **kwargs):
                body = req.body.getvalue() if hasattr(req.body, 'getvalue') else b''
                self.seen.append({'method': req.method, 'path': req.path, 'query': req.qs,
                                  'version': tuple(req.protocol), 'headers': sorted(req.headers.items()), 'body': body})
                return 'ok'

        _probe_cls['server'] = RequestProbe
    return _probe_cls['server']()


def _req_flags(got, want):
    if want is None:
        return 0
    d = 0
    for key, bit in (('method', F_METHOD), ('path', F_PATH), ('query', F_QUERY), ('version', F_VERSION),
                     ('headers', F_HEADERS), ('body', F_BODY)):
        if got[key] != want[key]:
            d |= bit
    return d


def run_server(datas, lays, cutss, base=None):
    """Deliver the messages of one connection to the real server pipeline, cut
    as told; returns (lines, per_message) with per_message[i] = {'proj', 'out',
    'closed'} (what one-piece delivery is compared with)."""
    from ..httpdouble import HttpHarness, NotQuiescent
    probe = _server_probe()
    h = HttpHarness(probe, dispatcher=True)
    lines = []
    per = []
    try:
        c = h.connect()
        for mi, (data, lay, cuts) in enumerate(zip(datas, lays, cutss), 1):
            T = len(data)
            if mi > 1:
                lines.append(_line('next', mi - 1, 0, 0))
            mark = c.mark()
            nw = len(c.writes)
            first_seen = len(probe.seen)
            nerr = len(h.errors)
            pos = 0
            nemit = 0
            bwant = base[mi - 1] if base is not None and mi - 1 < len(base) else None
            for b in _points(cuts, T):
                if c.closed:
                    break
                try:
                    c.feed(data[pos:b])
                except NotQuiescent:
                    lines.append(_line('read', mi, b - pos, b))
                    lines.append(_line('error', mi, 3000, b))
                    pos = b
                    break
                lines.append(_line('read', mi, b - pos, b))
                pos = b
                while first_seen + nemit < len(probe.seen):
                    lines.append(_line('emit', mi, 0, pos, _req_flags(probe.seen[first_seen + nemit],
                                                                      bwant['proj'] if bwant else None)))
                    nemit += 1
                for w in c.writes[nw:]:
                    if w.startswith(b'HTTP/') and len(w) >= 12 and w[9:12].isdigit() and int(w[9:12]) >= 400:
                        lines.append(_line('error', mi, int(w[9:12]), pos))
                nw = len(c.writes)
                for _ in h.errors[nerr:]:
                    lines.append(_line('error', mi, 2000, pos))
                nerr = len(h.errors)
            nem = len(probe.seen) - first_seen
            rec = {'proj': probe.seen[first_seen] if nem else None, 'out': _mask(c.since(mark)), 'closed': c.closed}
            per.append(rec)
            if pos == T and nem:
                differs = bwant is not None and (rec['out'] != bwant['out'] or rec['closed'] != bwant['closed'])
                lines.append(_line('resp', mi, 0, pos, F_RESP if differs else 0))
            lines.append(_line('quiet', mi, 0, pos))
            if pos < T or not nem or c.closed or not lay['ka']:
                break
    finally:
        h.close()
    return lines, per


# ---------------------------------------------------------------------------
# client side

def _client_parts():
    if 'client' not in _probe_cls:
        import errno
        import socket as _socket
        from circuits import BaseComponent, handler

        class ResponseProbe(BaseComponent):
            channel = 'client'

            def init(self):
                self.seen = []
                self.errors = []

            @handler('response', priority=10)
            def _on_response(self, res, *args):
                self.seen.append({'status': res.status, 'version': tuple(res.version) if res.version else None,
                                  'headers': sorted(res.headers.items()), 'body': res.body.getvalue()})

            @handler('exception', channel='*', priority=100.0)
            def _on_exception(self, etype, evalue, tb, handler=None, fevent=None):
                self.errors.append((etype.__name__, str(evalue)[:80]))

        class RecvDouble(_socket.socket):
            """A connected-looking socket whose recv() hands out what the check queued."""

            def __init__(self):
                super().__init__(_socket.AF_INET, _socket.SOCK_STREAM)
                self.pending = []
                self.sent = []

            def connect(self, addr):
                return None

            def connect_ex(self, addr):
                return 0

            def getpeername(self):
                return ('127.0.0.1', 80)

            def getsockname(self):
                return ('127.0.0.1', 40001)

            def setblocking(self, flag):
                return None

            def shutdown(self, how):
                return None

            def send(self, data, *flags):
                self.sent.append(bytes(data))
                return len(data)

            def recv(self, n, *flags):
                if not self.pending:
                    raise BlockingIOError(errno.EWOULDBLOCK, 'no data')
                data = self.pending.pop(0)
                if len(data) > n:
                    raise AssertionError('segment larger than the buffer size')
                return data

        _probe_cls['client'] = (ResponseProbe, RecvDouble)
    return _probe_cls['client']


class ClientRig:
    """circuits.web.client.Client (TCPClient + protocols.http.HTTP) under a root
    Manager with a poller double, connected through a socket double."""

    def __init__(self):
        from circuits import Manager
        from circuits.net.events import connect
        from circuits.web.client import Client
        from ..doubles import make_poller_double
        Probe, Sock = _client_parts()
        self.root = Manager()
        self.poller = make_poller_double().register(self.root)
        self.client = Client()
        t = self.client._transport
        try:
            t._sock.close()
        except OSError:
            pass
        self.sock = t._sock = Sock()
        self.client.register(self.root)
        self.probe = Probe().register(self.root)
        self.settle()
        self.root.fire(connect('127.0.0.1', 80), 'client')
        self.settle()
        if not t.connected:
            raise tlc.MachineryError('client rig: the transport did not connect to the socket double')
        self.http = [c for c in t.components if type(c).__name__ == 'HTTP'][0]

    def settle(self):
        root = self.root
        for _ in range(2000):
            if not len(root) and not root._tasks:
                return
            root.tick()
        raise tlc.MachineryError('client rig does not settle')

    def feed(self, data):
        from circuits.core.pollers import _read
        self.sock.pending.append(bytes(data))
        self.root.fire(_read(self.sock), 'client')
        self.settle()

    def peer_close(self):
        from circuits.core.pollers import _read
        self.sock.pending.append(b'')
        self.root.fire(_read(self.sock), 'client')
        self.settle()

    def close(self):
        import socket as _socket
        try:
            _socket.socket.close(self.sock)
        except OSError:
            pass


def _resp_flags(got, want):
    if want is None:
        return 0
    d = 0
    for key, bit in (('status', F_STATUS), ('version', F_VERSION), ('headers', F_HEADERS), ('body', F_BODY)):
        if got[key] != want[key]:
            d |= bit
    return d


def run_client(datas, lays, cutss, base=None):
    rig = ClientRig()
    probe = rig.probe
    lines = []
    per = []
    try:
        for mi, (data, lay, cuts) in enumerate(zip(datas, lays, cutss), 1):
            T = len(data)
            if mi > 1:
                lines.append(_line('next', mi - 1, 0, 0))
            first_seen = len(probe.seen)
            nerr = len(probe.errors)
            pos = 0
            bwant = base[mi - 1] if base is not None and mi - 1 < len(base) else None
            st = {'n': 0}

            def observe():
                nonlocal nerr
                while first_seen + st['n'] < len(probe.seen):
                    lines.append(_line('emit', mi, 0, pos, _resp_flags(probe.seen[first_seen + st['n']],
                                                                       bwant['proj'] if bwant else None)))
                    st['n'] += 1
                for _ in probe.errors[nerr:]:
                    lines.append(_line('error', mi, 2000, pos))
                nerr = len(probe.errors)

            for b in _points(cuts, T):
                if not rig.client._transport.connected:
                    break
                rig.feed(data[pos:b])
                lines.append(_line('read', mi, b - pos, b))
                pos = b
                observe()
            if pos == T and lay['body'] == 'close' and rig.client._transport.connected:
                rig.peer_close()
                lines.append(_line('peerclose', mi, 0, pos))
                observe()
            nem = len(probe.seen) - first_seen
            per.append({'proj': probe.seen[first_seen] if nem else None, 'errno': rig.http._parser.errno})
            lines.append(_line('quiet', mi, 0, pos))
            if pos < T or not nem or not lay['ka'] or not rig.client._transport.connected:
                break
    finally:
        rig.close()
    return lines, per


RUNNERS = {'server': run_server, 'client': run_client}


# ---------------------------------------------------------------------------
# cases

class Case:
    """One connection: side, messages (bytes + layout), cuts per message."""
    __slots__ = ('side', 'datas', 'lays', 'cutss', 'origin', 'key', 'model')

    def __init__(self, side, datas, lays, cutss, origin, key=None, model=None):
        self.side = side
        self.datas = datas
        self.lays = lays
        self.cutss = [sorted(set(c)) for c in cutss]
        self.origin = origin
        self.key = key
        self.model = model          # the TLC state this case realises (histories only)


_base_cache = {}


def baseline(side, datas, lays):
    k = (side, tuple(datas))
    if k not in _base_cache:
        lines, per = RUNNERS[side](datas, lays, [[] for _ in datas], base=None)
        _base_cache[k] = (lines, per)
    return _base_cache[k]


def run_case(case):
    """Replay one case on the real code -> trace lines (flags against one-piece
    delivery of the same bytes; the one-piece case itself is run a second time,
    which also checks that the baseline is reproducible)."""
    _, base = baseline(case.side, case.datas, case.lays)
    lines, _ = RUNNERS[case.side](case.datas, case.lays, case.cutss, base=base)
    return lines


def _run_chunk(chunk):
    _base_cache.clear()
    return [run_case(Case(*args)) for args in chunk]


def run_cases(cases, procs):
    """Replay all cases, in `procs` forked worker processes (order preserved)."""
    if procs <= 1 or len(cases) < 200:
        return [run_case(c) for c in cases]
    import multiprocessing
    order = sorted(range(len(cases)), key=lambda i: (cases[i].side, cases[i].datas))   # same baseline -> same chunk
    size = max(50, len(cases) // (procs * 8) + 1)
    chunks = [[(cases[i].side, cases[i].datas, cases[i].lays, cases[i].cutss, cases[i].origin) for i in order[j:j + size]]
              for j in range(0, len(order), size)]
    with multiprocessing.get_context('fork').Pool(procs) as pool:
        parts = pool.map(_run_chunk, chunks, chunksize=1)
    flat = [ln for part in parts for ln in part]
    out = [None] * len(cases)
    for i, lines in zip(order, flat):
        out[i] = lines
    return out


def trace_of(case, lines):
    msgs = [{k: lay[k] for k in rz.LAYOUT_KEYS} for lay in case.lays]
    return {'cfg': {'side': case.side, 'msgs': msgs}, 'lines': lines}


def witness_of(case, lines, clause, badline):
    ln = lines[badline - 1]
    mi = ln['m'] if ln['k'] != 'next' else ln['m'] + 1
    mi = max(1, min(mi, len(case.lays)))
    lay = case.lays[mi - 1]
    T = rz.total(lay)
    cuts = [x['pos'] for x in lines[:badline] if x['k'] == 'read' and x['m'] == mi and x['pos'] < T]
    w = {'side': case.side, 'body': lay['body'], 'status': lay.get('status', 0), 'at': rz.region(lay, ln['pos']),
         'message': mi}
    w.update(rz.triggers(case.side, lay, cuts))
    return w


def detail_of(case, lines, badline):
    return {'side': case.side, 'origin': case.origin, 'messages': [d.decode('latin1') for d in case.datas],
            'layouts': case.lays, 'cuts': case.cutss, 'trace': lines, 'line': badline,
            'cut_regions': [[rz.region(lay, c) for c in cuts] for lay, cuts in zip(case.lays, case.cutss)]}


# ---------------------------------------------------------------------------
# which of the model's named defects does the tree under test have?
# (chooses the model variant the real traces are compared with; never a verdict)

def probe_defects():
    from circuits.web.parsers import HttpParser
    found = []
    p = HttpParser(0, True)
    for part in (b'GET / HTTP/1.1\r', b'\nHost: h\r\n\r\n'):
        p.execute(part, len(part))
    if p.errno is not None or not p.is_headers_complete():
        found.append('linecrlf')
    p = HttpParser(0, True)
    part = b'POST / HTTP/1.1\r\nHost: h\r\nTransfer-Encoding: chunked\r\n\r\n3\r\nabc\r\n0\r\n'
    p.execute(part, len(part))
    if p.is_message_complete():
        found.append('lastchunk')
    p = HttpParser(1, True)
    part = b'HTTP/1.1 204 No Content\r\nServer: x\r\n\r\n'
    p.execute(part, len(part))
    if not p.is_message_complete():
        found.append('nobody')
    p = HttpParser(1, True)
    part = b'HTTP/1.1 304 Not Modified\r\nServer: x\r\n\r\n'
    p.execute(part, len(part))
    if not p.is_message_complete():
        found.append('nobody304')
    data, lay = rz.compose(b'HTTP/1.0 200 OK', [b'Server: x'], ('close', b'hello'))
    lay.update(status=200, ver=10, ka=False)
    lines, _ = run_client([data], [lay], [[]])
    if not any(ln['k'] == 'emit' for ln in lines):
        found.append('untilclose')
    p = HttpParser(1, True)
    part = b'HTTP/1.0 200 OK\r\n\r\nhello'
    p.execute(part, len(part))
    if not p.is_headers_complete():
        found.append('emptyhdr')
    data, lay = rz.compose(b'POST / HTTP/1.1', [b'Host: h', b'Transfer-Encoding: Chunked'], ('chunked', [(b'abc', b'')], []))
    lay.update(status=0, ver=11, ka=True)
    lines, _ = run_server([data], [lay], [[rz.hdr_end(lay)]])
    if any(ln['k'] == 'emit' and ln['pos'] < len(data) for ln in lines):
        found.append('tecase')
    return found


# ---------------------------------------------------------------------------
# TLC side

def _scratch():
    d = os.path.join(VERIF, '.work', 'c13-%d' % os.getpid())
    os.makedirs(d, exist_ok=True)
    return d


def hist_cfg(tier, defects, scratch):
    src = os.path.join(VERIF, SPEC, 'HIST_HttpFraming.cfg' if tier == 'quick' else 'HIST_HttpFraming_thorough.cfg')
    text = open(src).read()
    new = '  Defects = {%s}' % ', '.join('"%s"' % d for d in defects)
    text, n = re.subn(r'^\s*Defects\s*(<-|=).*$', new, text, flags=re.M)
    if n != 1:
        raise tlc.MachineryError('cannot set Defects in %s' % src)
    path = os.path.join(scratch, 'HIST.cfg')
    with open(path, 'w') as f:
        f.write(text)
    return path


def parse_grammar(out):
    m = re.search(r'<<\s*"GRAMMAR"', out)
    if not m:
        raise tlc.MachineryError('TLC did not print the grammar')
    v, _ = tlc.tlaval.parse_prefix(out, m.start())
    gg = v[1]
    return {s: list(gg[s]) for s in ('server', 'client')}


_VAR = re.compile(r'^/\\ (\w+) = ', re.M)


def _seq(text):
    """<<<<1, 2>>, <<"emit", 1, 3>>>> -> [[1, 2], ["emit", 1, 3]] (sequences of ints / strings only)."""
    return json.loads(text.replace('<<', '[').replace('>>', ']'))


def read_dump(path):
    """A light reader for TLC's -dump file: only the variables the replay needs
    (the generic parser of harness/tlaval.py takes minutes on 10^5 states)."""
    with open(path) as f:
        text = f.read()
    states = []
    for block in re.split(r'^State \d+:\s*$', text, flags=re.M)[1:]:
        vals = {}
        ms = list(_VAR.finditer(block))
        for i, m in enumerate(ms):
            end = ms[i + 1].start() if i + 1 < len(ms) else len(block)
            vals[m.group(1)] = block[m.end():end].strip()
        plan = vals['plan']
        st = {
            'side': vals['side'].strip('"'),
            'plan': {'name': re.search(r'name \|-> "(\w+)"', plan).group(1), 'keep': 'keep |-> TRUE' in plan},
            'msgs': _seq(vals['msgs']), 'hist': _seq(vals['hist']), 'pred': _seq(vals['pred']),
            'dead': vals['dead'] == 'TRUE', 'closed': vals['closed'] == 'TRUE', 'm': int(vals['m']),
            'out': None, '_out': vals['out'],
        }
        states.append(st)
    return states


def dump_histories(cfg_path):
    wd = tlc.workdir('c13dump')
    try:
        base = os.path.join(wd, 'states')
        res = tlc.run_tlc(SPEC, 'HttpFraming', cfg_path, workers=4, extra=['-dump', base], jvm_opts=('-Xmx3g',))
        if res.violated:
            raise tlc.MachineryError('HttpFraming (%s) violates %s:\n%s' % (cfg_path, res.violated, res.out[-2000:]))
        return res, read_dump(base + '.dump')
    finally:
        shutil.rmtree(wd, ignore_errors=True)


def maximal_histories(states):
    """Dumped states -> the maximal environment histories, each with the state
    that holds the model's prediction for it."""
    groups = {}
    for st in states:
        gk = (st['side'], st['plan']['name'], tuple(st['msgs']))
        hk = tuple((a, b) for a, b in st['hist'])
        g = groups.setdefault(gk, {})
        old = g.get(hk)
        if old is None or (st['closed'] and not old['closed']) or (st['m'] > old['m']):
            g[hk] = st
    out = []
    for gk, g in groups.items():
        prefixes = set()
        for hk in g:
            for i in range(len(hk)):
                prefixes.add(hk[:i])
        for hk, st in g.items():
            if hk not in prefixes:
                if st['plan']['keep'] and st['out'] is None:
                    st['out'], _ = tlc.tlaval.parse_prefix(st['_out'], 0)
                out.append(st)
    return out


def case_of_state(st, grammar, realised):
    side = st['side']
    datas, lays = [], []
    for gi in st['msgs']:
        k = (side, gi)
        if k not in realised:
            realised[k] = rz.from_grammar(grammar[side][gi - 1])
        d, lay = realised[k]
        datas.append(d)
        lays.append(lay)
    cutss = [[] for _ in datas]
    for mi, b in st['hist']:
        if b < rz.total(lays[mi - 1]):
            cutss[mi - 1].append(b)
        elif b != rz.total(lays[mi - 1]):
            raise tlc.MachineryError('history offset beyond the message: %r' % (st['hist'],))
    return Case(side, datas, lays, cutss, 'tlc:' + st['plan']['name'], key=(side, tuple(st['msgs'])), model=st)


def events_of(lines):
    return [(ln['k'], ln['m'], ln['pos']) for ln in lines if ln['k'] in ('emit', 'error')]


def compare_with_model(case, lines):
    """'' if the real trace is what the model predicts for this history."""
    st = case.model
    pred = [tuple(x) for x in st['pred']]
    real = events_of(lines)
    if st['dead']:
        if real[:len(pred)] != pred:
            return 'events %s, model predicts the prefix %s' % (real[:6], pred)
        return ''
    if real != pred:
        return 'events %s, model predicts %s' % (real[:6], pred)
    if st['plan']['keep']:
        a = [(ln['k'], ln['m'], ln['a'], ln['pos']) for ln in lines]
        b = [(ln['k'], ln['m'], ln['a'], ln['pos']) for ln in st['out']]
        if a != b:
            return 'lines %s, model emits %s' % (a[:8], b[:8])
    return ''


# ---------------------------------------------------------------------------
# random cases

def random_case(rnd, side):
    n = rnd.choice([1, 1, 1, 2, 2, 3])
    datas, lays, cutss = [], [], []
    for i in range(n):
        gen = rz.random_request if side == 'server' else rz.random_response
        d, lay = gen(rnd, keepalive=(i < n - 1))
        datas.append(d)
        lays.append(lay)
        cutss.append(rz.random_cuts(rnd, lay))
    return Case(side, datas, lays, cutss, 'random')


def mutate_trace(rnd, tr):
    """Corrupt an accepted real trace so that it must be rejected."""
    lines = [dict(ln) for ln in tr['lines']]
    emits = [i for i, ln in enumerate(lines) if ln['k'] == 'emit']
    if not emits:
        return None
    i = rnd.choice(emits)
    how = rnd.choice(['twice', 'drop', 'flag', 'early', 'error'])
    if how == 'twice':
        lines.insert(i + 1, dict(lines[i]))
        return {'cfg': tr['cfg'], 'lines': lines}, 'emit duplicated', 'C13.twice'
    if how == 'drop':
        del lines[i]
        return {'cfg': tr['cfg'], 'lines': lines}, 'emit dropped', 'C13.never'
    if how == 'flag':
        bit = rnd.choice([1, 2, 4, 8, 16, 32, 64])
        lines[i]['d'] = bit
        return {'cfg': tr['cfg'], 'lines': lines}, 'field flag %d set' % bit, 'C13.differs'
    if how == 'error':
        lines.insert(i, _line('error', lines[i]['m'], 400, lines[i]['pos']))
        return {'cfg': tr['cfg'], 'lines': lines}, 'error inserted', 'C13.spurious_error'
    # early: move the emit before the read that completed the message
    j = i - 1
    while j >= 0 and lines[j]['k'] != 'read':
        j -= 1
    if j < 0 or lines[j]['k'] != 'read':
        return None
    e = lines.pop(i)
    lines.insert(j, e)
    return {'cfg': tr['cfg'], 'lines': lines}, 'emit moved before the last read', 'C13.early'


# ---------------------------------------------------------------------------

def run_replay(path):
    rec = json.load(open(path))
    d = rec['detail']
    datas = [m.encode('latin1') for m in d['messages']]
    case = Case(d['side'], datas, d['layouts'], d['cuts'], d.get('origin', 'replay'))
    lines = run_case(case)
    verdicts, _ = tlc.validate_traces(SPEC, 'HttpFramingTrace', 'HttpFramingTrace.cfg', [trace_of(case, lines)], shards=1)
    clause, line = verdicts[0]
    for i, (data, cuts) in enumerate(zip(datas, d['cuts']), 1):
        pts = [0] + list(cuts) + [len(data)]
        print('message %d: %s' % (i, ' | '.join(repr(data[a:b])[1:] for a, b in zip(pts, pts[1:]))))
    for i, ln in enumerate(lines, 1):
        print('%3d %s' % (i, ln))
    if clause:
        print('VIOLATION property=C13 replay=%s clause=%s line=%d witness=%s'
              % (path, clause, line, json.dumps(witness_of(case, lines, clause, line), sort_keys=True)))
        return 1
    print('replay accepted: no clause of C13 fails on this tree')
    return 0


def run(tier, replay=None):
    use_repo()
    if replay:
        return run_replay(replay)
    ctx = Ctx(PID, tier)
    rnd = random.Random(ctx.seed * 7919 + 13)
    quick = tier == 'quick'
    scratch = _scratch()
    try:
        return _run(ctx, rnd, quick, scratch)
    finally:
        shutil.rmtree(scratch, ignore_errors=True)


def _run(ctx, rnd, quick, scratch):
    tier = ctx.tier
    t0 = time.time()
    defects = probe_defects()

    # 1. + 2. TLC: exhaustive check of the intended algorithm, defect generators, history dump (in parallel)
    jobs = {
        'mc': lambda: tlc.model_check(SPEC, 'HttpFraming', 'MC_HttpFraming.cfg' if quick else 'MC_HttpFraming_thorough.cfg',
                                      workers=4, jvm_opts=('-Xmx3g',)),
        # (quick: the defect the unchanged tree still has; thorough: every single defect and both combined variants)
        ('def_tecase_server' if quick else 'pinned_server'): lambda: tlc.run_tlc(
            SPEC, 'HttpFraming', 'MC_HttpFraming_def_tecase_server.cfg' if quick else 'MC_HttpFraming_pinned_server.cfg',
            workers=2, jvm_opts=('-Xmx2g',)),
        'pinned_client': lambda: tlc.run_tlc(SPEC, 'HttpFraming', 'MC_HttpFraming_pinned_client.cfg', workers=2, jvm_opts=('-Xmx2g',)),
        'hist': lambda: dump_histories(hist_cfg(tier, defects, scratch)),
    }
    if not quick:
        jobs['mc_cov'] = lambda: tlc.model_check(SPEC, 'HttpFraming', 'MC_HttpFraming.cfg', workers=2, coverage=True,
                                                 jvm_opts=('-Xmx2g',))
        for d, side in (('tecase', 'server'), ('linecrlf', 'server'), ('lastchunk', 'server'), ('linecrlf', 'client'), ('lastchunk', 'client'),
                        ('nobody', 'client'), ('nobody304', 'client'), ('untilclose', 'client'), ('emptyhdr', 'client')):
            jobs['def_%s_%s' % (d, side)] = (lambda d=d, side=side: tlc.run_tlc(
                SPEC, 'HttpFraming', 'MC_HttpFraming_def_%s_%s.cfg' % (d, side), workers=2, jvm_opts=('-Xmx2g',)))
    results = {}
    job_wall = {}

    def timed(name, fn):
        t = time.time()
        try:
            return fn()
        finally:
            job_wall[name] = round(time.time() - t, 1)

    with ThreadPoolExecutor(max_workers=4) as ex:
        futs = {name: ex.submit(timed, name, fn) for name, fn in jobs.items()}
        for name, f in futs.items():
            results[name] = f.result()
    mc = results['mc']
    if not quick:
        # (Read is the quantified disjunct of Next: TLC reports it as `<Next line .. (l c l c)>`, which
        # harness/tlc.py's pattern does not match)
        cov = {m.group(1): int(m.group(2)) for m in
               re.finditer(r'^<(\w+) line [^>]*>: \d+:(\d+)', results['mc_cov'].out, re.M)}
        for act in ('Next', 'PeerClose', 'NextMsg'):
            if cov.get(act, 0) == 0:
                raise tlc.MachineryError('vacuous model: action %s never taken (%s)' % (act, cov))
    teeth = {}
    for name, r in results.items():
        if name.startswith('pinned_') or name.startswith('def_'):
            if r.violated != 'Conforms':
                raise tlc.MachineryError('defect variant %s of HttpFraming.tla does not violate Conforms (%s): the model lost its teeth'
                                         % (name, r.violated))
            teeth[name] = r.violated
    hres, states = results['hist']
    grammar = parse_grammar(hres.out)
    if not states:
        raise tlc.MachineryError('TLC dumped no history')
    # no dead action (TLC's -coverage is only affordable in the thorough tier): the dump shows each one taken
    taken = {'Read': any(st['hist'] for st in states), 'PeerClose': any(st['closed'] for st in states),
             'NextMsg': any(st['m'] > 1 for st in states)}
    for act, ok in taken.items():
        if not ok:
            raise tlc.MachineryError('vacuous model: action %s never taken in the history dump' % act)
    t_tlc = time.time() - t0

    # 2b. realise and replay every maximal history on the real code
    realised = {}
    cases = [case_of_state(st, grammar, realised) for st in maximal_histories(states)]
    n_hist = len(cases)

    # 4. seeded random layouts / cuts
    nrand = 600 if quick else 8000
    for i in range(nrand):
        cases.append(random_case(rnd, 'server' if i % 2 == 0 else 'client'))

    traces = run_cases(cases, 4 if quick else 8)
    drift = 0
    compared = 0
    for case, lines in zip(cases, traces):
        if case.model is not None:
            compared += 1
            why = compare_with_model(case, lines)
            if why:
                drift += 1
                ctx.note_drift('%s %s msgs=%s cuts=%s: %s' % (case.side, case.origin, [l['tag'] for l in case.lays], case.cutss, why))
    t_replay = time.time() - t0 - t_tlc

    # 3. TLC judges every recorded trace; 5. in the same batch: corrupted copies of real traces, which must be
    #    rejected with the expected clause whenever the original is accepted (binding demonstration)
    batch = [trace_of(c, l) for c, l in zip(cases, traces)]
    cand = [i for i, tr in enumerate(batch) if len(tr['lines']) < 60]
    rnd.shuffle(cand)
    muts = []
    for i in cand[:(400 if quick else 2000)]:
        mt = mutate_trace(rnd, batch[i])
        if mt:
            muts.append((i,) + mt)
    verdicts, stats = tlc.validate_traces(SPEC, 'HttpFramingTrace', 'HttpFramingTrace.cfg', batch + [mt[1] for mt in muts],
                                          shards=8 if quick else 12, jvm_opts=('-Xmx2g',))
    mverdicts = verdicts[len(batch):]
    verdicts = verdicts[:len(batch)]
    accepted = 0
    per_origin = {}
    for case, lines, tr, (clause, line) in zip(cases, traces, batch, verdicts):
        nontrivial = any(case.cutss) or len(case.datas) > 1
        ctx.count_case([case.side, [d.decode('latin1') for d in case.datas], case.cutss], nontrivial,
                       sample={'side': case.side, 'origin': case.origin, 'layouts': [l.get('tag') for l in case.lays],
                               'cuts': case.cutss, 'trace': lines[:10], 'verdict': clause or 'accepted'})
        per_origin[case.origin] = per_origin.get(case.origin, 0) + 1
        if clause == 'C13.malformed':
            raise tlc.MachineryError('the harness recorded an impossible trace (line %d): %s' % (line, lines[:line + 1]))
        if clause:
            ctx.violation(clause, witness_of(case, lines, clause, line), detail_of(case, lines, line))
        else:
            accepted += 1
    nmut = 0
    for (i, tr, what, want), (c, _) in zip(muts, mverdicts):
        if verdicts[i][0]:
            continue                      # the original was rejected already: says nothing
        nmut += 1
        if not c.startswith(want):
            raise tlc.MachineryError('trace spec judged a corrupted trace (%s) as %r, expected %s' % (what, c, want))
    if accepted and not nmut:
        raise tlc.MachineryError('no accepted trace could be corrupted for the self-test')

    return ctx.finish(coverage={
        'states': mc.distinct, 'transitions': mc.generated,
        'traces_validated_against_impl': len(batch),
        'model_histories_replayed': n_hist,
        'history_dump_states': hres.distinct,
        'random_cases': nrand,
        'cases_by_origin': per_origin,
        'model_events_compared': compared, 'model_events_drift': drift,
        'model_defects_probed_in_tree': defects,
        'defect_variants_violate': sorted(teeth),
        'trace_validation_states': stats['states'],
        'corrupted_traces_rejected': nmut,
        'accepted_traces': accepted,
        'wall_tlc_s': round(t_tlc, 1), 'wall_replay_s': round(t_replay, 1), 'wall_tlc_jobs_s': job_wall,
        'rule': 'cases = (side, concrete messages of one connection, cut offsets per message); from every maximal '
                'environment history TLC dumps for the HIST plans of HttpFraming.tla (single cuts at every offset, '
                'byte-at-a-time delivery, pairs/triples of cuts around structural boundaries, keep-alive sequences) on the '
                'server pipeline and on the client component, plus seeded random layouts and cuts; non-trivial = at least '
                'one cut or more than one message; distinct by hash of (side, bytes, cuts)',
        'exhaustive': False,
    }, assumptions=[
        'read events are injected (server: read(sock, data) into the socket-less pipeline of harness/httpdouble.py; client: '
        '_read on a TCPClient whose socket double scripts recv()); the kernel and real sockets are not exercised',
        'a read never carries more than 4096 bytes (the transport\'s buffer size); longer stretches are split',
        'no pipelining: the next message is sent after the previous one was answered and the pipeline is idle',
        'equality of the projected fields (method, path, query, version, header multiset, body, response bytes with Date '
        'masked) is decided by the harness against one-piece delivery on the same tree; order/when/once by TLC',
        'body data, header values and chunk extensions of the composed messages contain no CR/LF',
    ])
