"""C15 - every HTTP response is a well-formed, self-delimiting message with exact body.

Pipeline (DESIGN 6/C15, design.d/C15.md):
  1. TLC checks spec/web/HttpResponse.tla exhaustively: a connection state
     machine (<= 3 requests, the next one only while the previous response kept
     the connection open) whose responses follow the *intended* framing
     algorithm (DefectChoices = {{}}) obeys the C15 monitor of HttpResponseOps
     for the whole product of configurations (protocol, method, Connection
     wish and its spelling, status, body kind, stream flag, what the transport
     accepts per send()); each named defect variant must be flagged by the
     monitor (ASSUME Teeth prints the clauses TLC found per defect).
  2. TLC dumps the environment histories (every single configuration; every
     sequence over a reduced product) with the lines the intended algorithm
     and the algorithm of the tree as it is (TREE_DEFECTS) predict; each
     history is replayed on the real circuits.web pipeline (HTTP + Dispatcher
     + a Controller returning the body kind) over the repository's TCPServer
     write path and the socket double of harness/httpdouble.py (scripted
     partial accepts).  The bytes the peer received are decoded by
     http.client.HTTPResponse (independent implementation) and logged as one
     outcome line per exchange.
  3. TLC judges every recorded trace with spec/web/HttpResponseTrace.tla
     (same monitor).  Each real line is compared with the predicted lines
     (conformance drift when it equals neither variant's).

`python -m harness.drivers.c15 explore '<json list of cfgs>' ...` prints what the
tree under $VERIF_REPO does for a sequence of configurations.
"""

import http.client
import io
import json
import os
import random
import re
import sys

from .. import tlc
from ..core import Ctx, use_repo, VERIF

SPEC = 'spec/web'
PID = 'C15'

SETTLE_TICKS = 100          # a legitimate exchange settles in < 15 ticks (measured)

PROTOS = [10, 11]
METHODS = ['GET', 'HEAD']
CONNS = ['none', 'keepalive', 'close']
STATUSES = [200, 201, 203, 204, 205, 206, 300, 304, 404, 500]     # 203/205/206/300: on a sub-product only
BODIES = ['none', 'empty', 'str', 'bytes', 'list', 'big', 'gen', 'genWithEmpty', 'genEmptyMid', 'genAllEmpty', 'genBig',
          'file', 'fileCL', 'trickle', 'stream', 'yield', 'error']

# how the request spells its Connection wish (the wish itself is cfg['conn'])
SPELLING = {
    ('close', 'canon'): 'close', ('close', 'title'): 'Close', ('close', 'upper'): 'CLOSE', ('close', 'list'): 'close, foo',
    ('keepalive', 'canon'): 'keep-alive', ('keepalive', 'title'): 'Keep-Alive', ('keepalive', 'upper'): 'KEEP-ALIVE',
    ('keepalive', 'list'): 'keep-alive, foo',
}
# what the transport accepts per send() while a response is written (cfg['win'])
ACCEPT = {0: None, 4000: [4000], 1: [1, 700, 65536, 3]}


def wish_of(value):
    """What a Connection header means (RFC 7230 6.1: comma list of case-insensitive
    options) - the harness's own reading, independent of circuits' parser."""
    if value is None:
        return 'none'
    opts = [o.strip().lower() for o in value.split(',')]
    return 'close' if 'close' in opts else ('keepalive' if 'keep-alive' in opts else 'none')

# ---------------------------------------------------------------------------
# what the application produces for each body kind

STR = 'héllo wörld €'                      # 13 chars, 17 bytes in utf-8
BYTES = b'\x00\xff\r\n0\r\n\r\nbytes'
LIST = ['ab', b'\xffcd', 'é', '']
BIG = '0123456789abcdé' * 10000                       # 150 000 chars, 160 000 bytes (> 64 KiB, > BUFSIZE)
GEN = ['Hello ', b'W\xc3\xb6rld', '!€ and more text']        # 6, 6, 18 bytes (0x12: hex and decimal chunk sizes differ)
GEN_EMPTY_FIRST = ['', 'a', '', b'', 'bc', '']
GEN_EMPTY_MID = ['a', '', b'', 'bc', '']
GEN_ALL_EMPTY = ['', b'', '']
FILE = bytes(range(256)) * 40                              # 10 240 bytes: three reads of BUFSIZE
GEN_BIG = ['a' * 70000, b'\xfe' * 70000, 'é' * 35000]     # 3 x 70 000 bytes: each larger than a socket buffer
TRICKLE_READS = [1000, 1, 4096, 1, 37, 4096, 1009]         # what read(4096) returns from the raw stream, in turn
PUSH = ['chunk-1;', b'chunk-2\xff;', 'end€ of the stream']     # 8, 9, 20 bytes
YIELD = ['Hello ', 'Wörld!']


def _enc(parts):
    return b''.join(p if isinstance(p, bytes) else p.encode('utf-8') for p in parts)


EXPECTED = {
    'none': b'', 'empty': b'', 'str': STR.encode('utf-8'), 'bytes': BYTES, 'list': _enc(LIST),
    'big': BIG.encode('utf-8'), 'gen': _enc(GEN), 'genWithEmpty': _enc(GEN_EMPTY_FIRST),
    'genEmptyMid': _enc(GEN_EMPTY_MID), 'genAllEmpty': b'', 'genBig': _enc(GEN_BIG), 'file': FILE, 'fileCL': FILE, 'trickle': FILE,
    'stream': _enc(PUSH), 'yield': _enc(YIELD),
}


class Trickle(io.RawIOBase):
    """A raw (unbuffered) stream: read(n) may return fewer than n bytes although
    more follows - as pipes, sockets and decompressors do.  End of data is an
    empty read, nothing else."""

    def __init__(self, data, reads):
        super().__init__()
        self._data, self._reads, self._pos, self._i = data, reads, 0, 0

    def readable(self):
        return True

    def read(self, n=-1):
        if self._pos >= len(self._data):
            return b''
        k = self._reads[self._i % len(self._reads)]
        self._i += 1
        if n is not None and n >= 0:
            k = min(k, n)
        out = self._data[self._pos:self._pos + k]
        self._pos += len(out)
        return out


GENS = {'gen': GEN, 'genWithEmpty': GEN_EMPTY_FIRST, 'genEmptyMid': GEN_EMPTY_MID, 'genAllEmpty': GEN_ALL_EMPTY,
        'genBig': GEN_BIG}
LIST_BODIED = ('none', 'empty', 'str', 'bytes', 'list', 'big', 'stream')     # + 'yield', 'error'


def make_app():
    """The application under the real pipeline: one Controller whose `index`
    answers GET and HEAD with the body kind / status / stream flag of `plan`."""
    from circuits.web import Controller
    from circuits.web.errors import httperror

    class App(Controller):
        plan = None          # cfg dict of the request being served
        expected = None      # bytes the application produced for it
        pending = None       # response object awaiting pushed stream events
        filepath = None
        served = 0

        def index(self, *args, **kwargs):
            cfg = self.plan
            res = self.response
            body = cfg['body']
            self.served += 1
            self.pending = None
            if cfg['status'] != 200:
                res.status = cfg['status']
            if cfg['stream']:
                res.stream = True
            if body == 'yield':
                return self._yield(res, cfg)
            if body == 'error':
                e = httperror(self.request, res, cfg['status'])
                self.expected = str(e).encode('utf-8')
                if cfg['stream']:
                    self.pending = res
                return e
            self.expected = EXPECTED[body]
            if cfg['stream'] and body in LIST_BODIED:
                # response.stream = True and no iterator to pull from: the application
                # completes the response by pushing `stream` events (data, then None)
                self.pending = res
            if body == 'none':
                return res
            if body == 'empty':
                return ''
            if body == 'str':
                return STR
            if body == 'bytes':
                return BYTES
            if body == 'list':
                return list(LIST)
            if body == 'big':
                return BIG
            if body in GENS:
                src = GENS[body]
                res.body = (c for c in list(src))
                return res
            if body == 'file':
                return open(self.filepath, 'rb')
            if body == 'fileCL':
                # a stream whose length the application announces itself (what tools.serve_file does)
                res.headers['Content-Length'] = str(len(FILE))
                return open(self.filepath, 'rb')
            if body == 'trickle':
                return Trickle(FILE, TRICKLE_READS)
            if body == 'stream':
                res.stream = True
                self.pending = res
                return res
            raise AssertionError(body)

        def _yield(self, res, cfg):
            # (runs after `index` returned: self.response is gone by then)
            self.expected = EXPECTED['yield']
            if cfg['stream']:
                self.pending = res
            for part in YIELD:
                yield part

    return App()


def request_bytes(cfg, n):
    req = '%s /?n=%d HTTP/%s\r\nHost: verif.example\r\n' % (cfg['method'], n, '1.1' if cfg['proto'] == 11 else '1.0')
    value = None
    if cfg['conn'] != 'none':
        value = SPELLING[(cfg['conn'], cfg.get('spell', 'canon'))]
        req += 'Connection: %s\r\n' % value
    assert wish_of(value) == cfg['conn']
    return (req + '\r\n').encode('ascii')


# ---------------------------------------------------------------------------
# the independent decoder

class _Bio(io.BytesIO):
    def close(self):            # HTTPResponse closes its file when a message ends
        pass


class _FakeSock:
    def __init__(self, bio):
        self.bio = bio

    def makefile(self, *a, **kw):
        return self.bio


def decode_one(bio, total, method):
    """Decode one response from `bio` with http.client -> dict of outcome fields."""
    o = {'parse': 'ok', 'ostatus': 0, 'over': 0, 'hascl': False, 'cl': -1, 'chunked': False, 'bodylen': 0,
         'extra': 0, 'cclose': False, 'cka': False}
    start = bio.tell()
    if start >= total:
        o['parse'] = 'empty'
        return o, b''
    r = http.client.HTTPResponse(_FakeSock(bio), method=method)
    try:
        r.begin()
    except (http.client.HTTPException, ValueError, OSError) as e:
        o['parse'] = 'nostatus'
        o['why'] = repr(e)[:120]
        return o, b''
    o['ostatus'] = r.status
    o['over'] = r.version
    cls = r.headers.get_all('Content-Length') or []
    if cls:
        o['hascl'] = True
        try:
            o['cl'] = int(cls[0]) if len(set(cls)) == 1 and int(cls[0]) < 2 ** 31 else -2
        except ValueError:
            o['cl'] = -2
    te = ','.join(r.headers.get_all('Transfer-Encoding') or []).lower()
    o['chunked'] = 'chunked' in [t.strip() for t in te.split(',')]
    toks = [t.strip() for t in ','.join(r.headers.get_all('Connection') or []).lower().split(',')]
    o['cclose'] = 'close' in toks
    o['cka'] = 'keep-alive' in toks
    try:
        body = r.read()
    except http.client.IncompleteRead as e:
        o['parse'] = 'incomplete'
        o['bodylen'] = len(e.partial)
        return o, e.partial
    except (http.client.HTTPException, ValueError, OSError) as e:
        o['parse'] = 'incomplete'
        o['why'] = repr(e)[:120]
        return o, b''
    o['bodylen'] = len(body)
    return o, body


def decode_segment(seg, method):
    bio = _Bio(seg)
    o, body = decode_one(bio, len(seg), method)
    if o['parse'] == 'ok':
        o['extra'] = len(seg) - bio.tell()
    return o, body


def decode_stream(data, methods):
    """The client's view of the whole connection: successive responses."""
    bio = _Bio(data)
    n = 0
    for m in methods:
        o, _ = decode_one(bio, len(data), m)
        if o['parse'] != 'ok':
            break
        n += 1
    rest = len(data) - bio.tell()
    return n, rest


# ---------------------------------------------------------------------------
# one connection, a sequence of configurations

KEYS = ('k', 'i', 'proto', 'method', 'conn', 'status', 'body', 'stream', 'spell', 'win', 'refclosed', 'parse', 'ostatus', 'over', 'hascl', 'cl',
        'chunked', 'bodylen', 'extra', 'cclose', 'cka', 'closed', 'bodyeq', 'explen', 'nresp')


def _line(**kw):
    ln = {'k': 'x', 'i': 0, 'proto': 0, 'method': '', 'conn': '', 'status': 0, 'body': '', 'stream': False,
          'spell': '', 'win': 0, 'refclosed': False,
          'parse': '', 'ostatus': 0, 'over': 0, 'hascl': False, 'cl': -1, 'chunked': False, 'bodylen': 0, 'extra': 0,
          'cclose': False, 'cka': False, 'closed': False, 'bodyeq': True, 'explen': 0, 'nresp': 0}
    ln.update(kw)
    return ln


def run_sequence(cfgs, filepath):
    """Replay a sequence of configurations on one connection of the real
    pipeline.  The next request is sent only while the server has not closed the
    connection.  The transport is the repository's own Server write path over a
    socket double whose send() accepts what cfg['win'] says; what is decoded is
    what the peer received.  -> (trace lines, info) ; info carries diagnostics
    per exchange.  `refclosed` is filled in later (fill_refclosed)."""
    from ..httpdouble import HttpHarness, NotQuiescent
    from circuits.web.events import stream as stream_event

    app = make_app()
    app.filepath = filepath
    h = HttpHarness(app, transport='server')
    lines, info = [], []
    methods = []
    try:
        c = h.connect()
        for i, cfg in enumerate(cfgs, 1):
            if c.closed:
                break
            mark = c.mark()
            cfg = dict(cfg)
            cfg.setdefault('spell', 'canon')
            cfg.setdefault('win', 0)
            c.accept, c._nsend = ACCEPT[cfg['win']], 0
            nsends0 = len(c.sends)
            app.plan = cfg
            app.expected = None
            app.pending = None
            served0 = app.served
            nerr0 = len(h.errors)
            livelock = False
            try:
                c.feed(request_bytes(cfg, i), settle=False)
                h.settle(SETTLE_TICKS)
                res = app.pending
                if res is not None:
                    # the application completes a pushed stream: data events, then None
                    if cfg['body'] == 'stream':
                        for part in PUSH:
                            h.fire(stream_event(res, part))
                            h.settle(SETTLE_TICKS)
                    h.fire(stream_event(res, None))
                    h.settle(SETTLE_TICKS)
            except NotQuiescent:
                livelock = True
            seg = c.since(mark)
            expected = app.expected if app.expected is not None else b''
            if livelock:
                o, body = {'parse': 'livelock'}, b''
            else:
                o, body = decode_segment(seg, cfg['method'])
            why = o.pop('why', None)
            ln = _line(i=i, closed=c.closed, refclosed=c.closed, explen=len(expected), **cfg)
            ln.update(o)
            ln['bodyeq'] = (body == expected)
            lines.append(ln)
            methods.append(cfg['method'])
            info.append({'served': app.served - served0, 'seglen': len(seg), 'late': len(c.late), 'why': why,
                         'sends': len(c.sends) - nsends0,
                         'partial_sends': sum(1 for a, b in c.sends[nsends0:] if b < a),
                         'errors': ['%s: %s' % (e[0].__name__, str(e[1])[:80]) for e in h.errors[nerr0:nerr0 + 3]],
                         'head': seg[:seg.find(b'\r\n\r\n') + 4].decode('latin1') if b'\r\n\r\n' in seg else seg[:200].decode('latin1'),
                         'residue': h.residue()})
            if livelock:
                break
        nresp, rest = decode_stream(c.output, methods)
        lines.append(_line(k='end', i=len(methods), nresp=nresp, extra=rest, closed=c.closed))
    finally:
        h.close()
    return lines, info



# ---------------------------------------------------------------------------
# histories, predictions, witnesses

DEFECTS = ['head_noclose', 'bodiless_body', 'push_cl', 'empty_chunk', 'chunk_noterm', 'stream_sized',
           'listwish', 'casewish', 'tailappend', 'shortread', 'unsized205', 'lenclose', 'bodiless205']
VARIANTS = ['tree', 'rfc']          # tree = the repository as it is: the intended algorithm + "listwish"
TREE_DEFECTS = []


def cfg_of(h):
    return {'proto': h[0], 'method': h[1], 'conn': h[2], 'status': h[3], 'body': h[4], 'stream': bool(h[5]),
            'spell': h[6], 'win': h[7]}


def hist_key(cfgs):
    return tuple((c['proto'], c['method'], c['conn'], c['status'], c['body'], bool(c['stream']),
                  c.get('spell', 'canon'), c.get('win', 0)) for c in cfgs)


def canon_twin(cfgs):
    """The same sequence with every wish spelled canonically (None if it already is)."""
    if all(c.get('spell', 'canon') == 'canon' for c in cfgs):
        return None
    return [dict(c, spell='canon') for c in cfgs]


def fill_refclosed(lines, twin_lines, info=None):
    """refclosed of exchange i := `closed` of exchange i of the canonical twin.  Where
    the twin's connection ended earlier (an earlier exchange already differs, and is
    judged there) there is no reference: refclosed stays = closed (no verdict)."""
    tx = [ln for ln in twin_lines if ln['k'] == 'x']
    for ln in lines:
        if ln['k'] != 'x':
            continue
        if ln['i'] <= len(tx):
            ln['refclosed'] = tx[ln['i'] - 1]['closed']
        elif info is not None:
            info[ln['i'] - 1]['no_reference'] = True


def norm_line(ln, mask_ref=False):
    """Projection of an exchange line on which the model commits itself."""
    if ln['parse'] != 'ok':
        return (ln['parse'],)
    cl, bl, ex, xl = ln['cl'], ln['bodylen'], ln['extra'], ln['explen']
    if ln['body'] == 'error' and xl > 0:       # the error page's length stands as 500 in the model
        f = lambda v: 500 if v == xl else v
        cl, bl, ex, xl = f(cl), f(bl), f(ex), 500
    return (ln['parse'], ln['ostatus'], ln['over'], ln['hascl'], cl, ln['chunked'], bl, ex > 0,
            ln['cclose'], ln['cka'], ln['closed'], mask_ref or ln['closed'] == ln['refclosed'], ln['bodyeq'], xl)


def witness_of(lines, badline, info):
    """Classify a rejected trace for known-finding matching.  stale_pair: when the
    failing request arrived, HTTP._clients still held the (request, response)
    pair of an earlier, answered request of this connection (observed on the
    component, not inferred)."""
    ln = lines[badline - 1]
    earlier = [x for x in lines[:badline - 1] if x['k'] == 'x']
    stale = any(inf['residue']['clients'] > 0 for inf in info[:len(earlier)])
    if ln['k'] == 'end':
        return {'pos': 'end', 'stale_pair': stale, 'after_head': any(x['method'] == 'HEAD' for x in earlier)}
    bodiless_status = ln['status'] in (204, 304)
    framing = 'cl' if ln['hascl'] else ('chunked' if ln['chunked'] else 'none')
    return {'pos': 'first' if not earlier else 'later', 'method': ln['method'], 'proto': ln['proto'],
            'conn': ln['conn'], 'spell': ln['spell'], 'win': ln['win'], 'body': ln['body'], 'stream': ln['stream'], 'status': ln['status'], 'bodiless_status': bodiless_status,
            'framing': framing, 'parse': ln['parse'], 'stale_pair': stale,
            'after_head': any(x['method'] == 'HEAD' for x in earlier)}


def _job(cfgs):
    return run_sequence(cfgs, _job.filepath)


def replay_all(seqs, filepath, procs):
    """Replay every sequence on the real pipeline (forked workers: each run builds
    its own Manager; nothing is shared)."""
    import multiprocessing as mp
    _job.filepath = filepath
    if procs <= 1 or len(seqs) < 64:
        return [run_sequence(s, filepath) for s in seqs]
    ctx = mp.get_context('fork')
    with ctx.Pool(procs) as pool:
        return pool.map(_job, seqs, chunksize=max(1, len(seqs) // (procs * 8)))


def mutate_trace(rnd, lines):
    """Corrupt an accepted real trace so that it must be rejected."""
    out = [dict(ln) for ln in lines]
    xs = [i for i, ln in enumerate(out) if ln['k'] == 'x']
    i = rnd.choice(xs)
    ln = out[i]
    bodiless = ln['method'] == 'HEAD' or ln['ostatus'] in (204, 304)
    opts = ['parse', 'closed', 'status', 'nresp', 'refclosed']
    if not bodiless:
        opts += ['bodyeq', 'extra']
        if ln['hascl']:
            opts += ['cl', 'both']
        if not ln['chunked'] and ln['proto'] == 10:
            opts.append('chunk10')
    else:
        opts.append('bodybytes')
    how = rnd.choice(opts)
    if how == 'parse':
        ln['parse'] = rnd.choice(['nostatus', 'empty', 'incomplete', 'livelock'])
    elif how == 'closed':
        ln['closed'] = not ln['closed']
    elif how == 'refclosed':
        ln['refclosed'] = not ln['refclosed']
    elif how == 'status':
        ln['ostatus'] = 200 if ln['ostatus'] != 200 else 500
        if (ln['ostatus'] in (204, 304)) != bodiless:
            return None
    elif how == 'nresp':
        out[-1]['nresp'] += 1
    elif how == 'bodyeq':
        ln['bodyeq'] = False
    elif how == 'extra':
        ln['extra'] = 5
        if not (ln['hascl'] or ln['chunked']):
            return None
    elif how == 'cl':
        ln['cl'] += 1
    elif how == 'both':
        ln['chunked'] = True
        if ln['proto'] == 10:
            return None
    elif how == 'chunk10':
        ln['chunked'] = True
    elif how == 'bodybytes':
        ln['extra'] = 3
    return out, '%s at exchange %d' % (how, i + 1)


def run_replay(path):
    """./check C15 --replay <file>: re-run one recorded sequence on the real pipeline."""
    rec = json.load(open(path))
    cfgs = rec['detail']['cfgs']
    fp = _testfile()
    try:
        lines, info = run_sequence(cfgs, fp)
        twin = canon_twin(cfgs)
        if twin:
            fill_refclosed(lines, run_sequence(twin, fp)[0])
    finally:
        os.unlink(fp)
    for ln, inf in zip(lines, info + [{}]):
        print({k: ln[k] for k in KEYS})
        if inf.get('head'):
            print('    ' + inf['head'].replace('\r\n', '\n    ').rstrip())
        if inf.get('errors'):
            print('    exceptions: %s' % inf['errors'])
    verdicts, _ = tlc.validate_traces(SPEC, 'HttpResponseTrace', 'HttpResponseTrace.cfg', [lines], shards=1)
    clause, line = verdicts[0]
    if clause:
        print('VIOLATION property=C15 replay=%s clause=%s line=%d' % (path, clause, line))
        return 1
    print('replay accepted: no clause of C15 fails on this tree')
    return 0


def run(tier, replay=None):
    use_repo()
    if replay:
        return run_replay(replay)
    from concurrent.futures import ThreadPoolExecutor
    import time
    ctx = Ctx(PID, tier)
    timing = {}
    t0 = time.time()
    rnd = random.Random(ctx.seed * 7919 + 15)
    quick = tier == 'quick'
    procs = min(12, os.cpu_count() or 2)

    # 1. TLC: the intended algorithm obeys the monitor for the full product and all
    #    sequences; every defect variant violates it; histories are dumped.
    # quick: coarse view (hist/out hidden; Conforms is still decided for every sequence <= 3 because the monitor
    # state, open and stale are all that later steps depend on) + the per-line invariants on the full product at
    # depth 1; thorough: every configuration is a distinct state at every depth <= 3.
    jobs = {
        'mc': lambda: tlc.model_check(SPEC, 'HttpResponse', 'MC_HttpResponse_quick.cfg' if quick else 'MC_HttpResponse.cfg',
                                      coverage=True, workers=4 if quick else 12),
    }
    for n, hc in enumerate(['HIST_HttpResponse_quick.cfg'] if quick else
                           ['HIST_HttpResponse_thorough2.cfg', 'HIST_HttpResponse_thorough3.cfg']):
        jobs['hist%d' % n] = (lambda hc=hc: tlc.dump_states(SPEC, 'HttpResponse', hc, workers=4))
    with ThreadPoolExecutor(max_workers=len(jobs)) as ex:
        futs = {k: ex.submit(f) for k, f in jobs.items()}
        results = {k: f.result() for k, f in futs.items()}
    timing['tlc_model_and_dumps_s'] = round(time.time() - t0, 1)
    timing['tlc_each_s'] = {k: round((v[0] if isinstance(v, tuple) else v).wall_s, 1) for k, v in results.items()}
    t0 = time.time()
    mc = results['mc']
    if 'Exchange' in mc.coverage and mc.coverage['Exchange'][1] == 0:
        raise tlc.MachineryError('vacuous model: action Exchange never taken')
    # every single defect must be flagged by the monitor inside TLC: ASSUME Teeth in HttpResponse.tla (a failure
    # stops every run above); the clauses TLC found per defect are printed by it and collected here.
    # (the history dumps hold the intended variant to all invariants (IConforms, IFramed, ...) on every dumped
    #  state, i.e. for every single configuration of the full product with its line in the state)
    teeth = {m.group(1): sorted(re.findall(r'"(C15\.\w+)"', m.group(2)))
             for m in re.finditer(r'<<"TEETH", "(\w+)", \{(.*?)\}>>', mc.out)}
    toothless = [d for d in DEFECTS if not teeth.get(d)]
    if toothless:
        raise tlc.MachineryError('defect variants %s of HttpResponse.tla violate no clause: the model lost its teeth' % toothless)

    # predictions: variant -> history -> (line of the last exchange, served from a stale pair?)
    names = {frozenset(): 'rfc'}
    if TREE_DEFECTS:
        names[frozenset(TREE_DEFECTS)] = 'tree'
    pred = {v: {} for v in VARIANTS}
    model_bad = {v: set() for v in VARIANTS}
    hists = {}
    dump_states = dump_trans = 0
    for key, val in results.items():
        if not key.startswith('hist'):
            continue
        res, states = val
        dump_states += res.distinct
        dump_trans += res.generated
        for st in states:
            h = tuple(tuple(x) for x in st['hist'])
            if not h:
                continue
            v = names[frozenset(st['dv'])]
            pred[v][h] = (st['out'][-1], bool(st['stale']))
            hists[h] = st['hist']
            if st['bad']:
                model_bad[v].add(st['bad'])
    # the defect generator: in the dump, the algorithm of the tree as it is (TREE_DEFECTS) must have been flagged
    if TREE_DEFECTS and not model_bad['tree']:
        raise tlc.MachineryError('the tree variant of HttpResponse.tla violates no clause: the model lost its teeth')
    if model_bad['rfc']:
        raise tlc.MachineryError('the intended variant of HttpResponse.tla is flagged by the monitor: %s' % model_bad['rfc'])
    prefixes = set()
    for h in hists:
        for i in range(1, len(h)):
            prefixes.add(h[:i])
    singles = sorted(h for h in hists if len(h) == 1)
    maximal = sorted((h for h in hists if h not in prefixes or len(h) == 1), key=repr)
    seqs = [[cfg_of(x) for x in h] for h in maximal]
    origin = ['tlc-history'] * len(seqs)

    # seeded random sequences over the full product (code -> spec only)
    allcfg = [cfg_of(h[0]) for h in singles]
    nrand = 400 if quick else 3000
    for _ in range(nrand):
        seqs.append([dict(rnd.choice(allcfg)) for _ in range(3)])
        origin.append('random')
    # the canonical twin of every sequence with a non-canonical spelling (reference for `refclosed`)
    index = {hist_key(sq): n for n, sq in enumerate(seqs)}
    for sq in list(seqs):
        tw = canon_twin(sq)
        if tw and hist_key(tw) not in index:
            index[hist_key(tw)] = len(seqs)
            seqs.append(tw)
            origin.append('twin')

    timing['parse_dumps_s'] = round(time.time() - t0, 1)
    t0 = time.time()
    # 2. replay on the real pipeline
    fp = _testfile()
    try:
        runs = replay_all(seqs, fp, procs)
    finally:
        os.unlink(fp)

    for sq, (lines, info) in zip(seqs, runs):
        tw = canon_twin(sq)
        if tw:
            fill_refclosed(lines, runs[index[hist_key(tw)]][0], info)
    timing['replay_s'] = round(time.time() - t0, 1)
    t0 = time.time()
    # 3. TLC judges every recorded trace
    traces = [r[0] for r in runs]
    verdicts, stats = tlc.validate_traces(SPEC, 'HttpResponseTrace', 'HttpResponseTrace.cfg', traces,
                                          shards=4 if quick else 16)
    timing['validate_s'] = round(time.time() - t0, 1)
    t0 = time.time()
    accepted = []
    n_cmp = n_match = 0
    matched_variant = {v: 0 for v in VARIANTS}
    single_done = set()
    for cfgs, org, (lines, info), (clause, badline) in zip(seqs, origin, runs, verdicts):
        xs = [ln for ln in lines if ln['k'] == 'x']
        key = hist_key(cfgs[:len(xs)])
        if len(xs) == 1 and len(cfgs) == 1:
            single_done.add(key)
        ctx.count_case([list(k) for k in key], nontrivial=bool(xs) and xs[0]['parse'] != 'empty',
                       sample={'cfgs': cfgs[:len(xs)], 'origin': org, 'verdict': clause or 'accepted',
                               'trace': [{k: ln[k] for k in KEYS[10:]} for ln in lines][:3]})
        if clause:
            ctx.violation(clause, witness_of(lines, badline, info),
                          {'cfgs': cfgs, 'trace': lines, 'line': badline, 'info': info, 'origin': org})
        else:
            accepted.append(lines)
        # model's lines vs real lines
        for j, ln in enumerate(xs, 1):
            h = key[:j]
            if j > 1 and info[j - 2]['residue']['clients'] > 0:
                break       # served from a stale (request, response) pair: the model does not predict the bytes
            noref = bool(info[j - 1].get('no_reference'))
            cands = {v: norm_line(pred[v][h][0], noref) for v in VARIANTS if h in pred[v]}
            if not cands:
                continue
            n_cmp += 1
            real = norm_line(ln, noref)
            hit = [v for v, p in cands.items() if p == real]
            if hit:
                n_match += 1
                for v in hit:
                    matched_variant[v] += 1
            else:
                ctx.note_drift('exchange %d of %s: real %s, model %s' % (j, list(h), real, cands))
    missing = [h for h in singles if h not in single_done]
    if missing:
        raise tlc.MachineryError('%d single configurations of the full product were not replayed, e.g. %s' % (len(missing), missing[0]))

    # 4. binding demonstration: corrupted real traces must be rejected
    muts = []
    pool = list(accepted)
    rnd.shuffle(pool)
    for lines in pool:
        if len(muts) >= (80 if quick else 300):
            break
        m = mutate_trace(rnd, lines)
        if m:
            muts.append(m)
    if muts:
        mv, _ = tlc.validate_traces(SPEC, 'HttpResponseTrace', 'HttpResponseTrace.cfg', [m[0] for m in muts], shards=2 if quick else 4)
        missed = [muts[i] for i, (c, _) in enumerate(mv) if not c]
        if missed:
            raise tlc.MachineryError('trace spec accepted %d corrupted traces, e.g. %s: %s' % (len(missed), missed[0][1], missed[0][0]))

    timing['compare_and_selftest_s'] = round(time.time() - t0, 1)
    return ctx.finish(coverage={
        'states': mc.distinct + dump_states, 'transitions': mc.generated + dump_trans,
        'traces_validated_against_impl': len(traces),
        'configurations_full_product': len(singles),
        'model_histories_replayed': len(maximal),
        'random_sequences': nrand,
        'history_dump_states': dump_states,
        'model_line_exact_match': n_match, 'model_line_compared': n_cmp,
        'model_variant_matches': matched_variant,
        'trace_validation_states': stats['states'],
        'corrupted_traces_rejected': len(muts),
        'timing': timing,
        'model_tree_variant_clauses': sorted(model_bad['tree']),   # clauses TLC's monitor flags in the tree's algorithm
        'defect_clauses_found_by_tlc': teeth,                      # ASSUME Teeth: per defect variant, the clauses violated
        'partial_send_exchanges': sum(1 for r in runs for inf in r[1] if inf.get('partial_sends')),
        'rule': 'cases = sequences of configurations (proto, method, Connection wish + spelling, status, body kind, stream '
                'flag, accept window of the transport) on one '
                'connection: every single configuration of the full product and every sequence (<= %d) over a reduced '
                'product, all dumped by TLC from HttpResponse.tla, plus seeded random triples over the full product; '
                'non-trivial = the server wrote something for the first request; distinct by hash of the sequence '
                'actually sent' % (2 if quick else 3),
        'exhaustive': True,
        'exhaustive_scope': 'full product of single configurations replayed on the code; all sequences <= %d of the full '
                            'product enumerated by TLC on the model; sequences replayed for the reduced product only'
                            % (2 if quick else 3),
    }, assumptions=[
        'transport: the real circuits.net.sockets.TCPServer write path (write / _on_write / _write, deferred close) over the '
        'socket double of harness/httpdouble.py; send() accepts everything or a scripted part (win); write-readiness is '
        'delivered once the pipeline is quiescent; what is decoded is what send() accepted, in that order',
        'refclosed (clause wish_spelling) is taken from a run of the same sequence with canonical spellings on the same tree',
        'http.client.HTTPResponse is the independent decoder; body equality is decided by the projection (Python), framing '
        'and connection state by TLC',
        'each further request is sent only after the previous exchange is quiescent (no pipelining)',
    ])


def _explore(argv):
    """python -m harness.drivers.c15 explore '<json list of cfgs>' : print what the pinned tree does."""
    use_repo()
    fp = _testfile()
    try:
        for arg in argv:
            cfgs = json.loads(arg)
            lines, info = run_sequence(cfgs, fp)
            for ln, inf in zip(lines, info + [{}]):
                print({k: ln[k] for k in KEYS if k not in ('k',)}, inf.get('errors'), inf.get('residue'), inf.get('served'))
    finally:
        os.unlink(fp)


def _testfile():
    d = os.path.join(VERIF, '.work')
    os.makedirs(d, exist_ok=True)
    p = os.path.join(d, 'c15-file-%d.bin' % os.getpid())
    with open(p, 'wb') as f:
        f.write(FILE)
    return p


if __name__ == '__main__':
    if sys.argv[1:2] == ['explore']:
        _explore(sys.argv[2:])
