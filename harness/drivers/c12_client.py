"""C12.client_pairs - the real TCPClient / UNIXClient under a real poller against
a raw listening socket of the harness (helper module of c12.py).  Same
stepping discipline as c12_world.ServerWorld: the Manager is never started,
every poller wait has timeout 0, quiescence is measured.
"""

import os
import socket
import struct
import time

from .. import tlc
from . import c12_world as W
from .c12_world import line, is_open, outq, inq, flags, _HUP, _RDHUP


class ClientWorld(W.Base):
    def __init__(self, pname, fam):
        super().__init__(pname)
        from circuits import BaseComponent, handler
        from circuits.net.sockets import TCPClient, UNIXClient
        self.fam = fam
        self.path = None
        self.lines = []
        self.nevents = 0
        self.peer = None           # accepted raw socket of the current link
        self.peer_closed = True    # the harness closed / aborted the current link (or there is none)
        self.close_req = False
        self.ever = False
        self.nconnected = 0
        self.nfailed = 0
        self.lst = None
        self.comp = None
        W._seq[0] += 1
        try:
            if fam == 'tcp':
                self.lst = socket.socket(socket.AF_INET, socket.SOCK_STREAM)
                self.lst.bind(('127.0.0.1', 0))
            else:
                os.makedirs(W.WORK, exist_ok=True)
                self.path = os.path.join(W.WORK, 'c12-%d-%d.sock' % (os.getpid(), W._seq[0]))
                if os.path.exists(self.path):
                    os.unlink(self.path)
                self.lst = socket.socket(socket.AF_UNIX, socket.SOCK_STREAM)
                self.lst.bind(self.path)
            self.lst.listen(8)
            self.lst.setblocking(False)
            w = self

            class Observer(BaseComponent):
                channel = 'c12cli'

                @handler('connected', 'disconnected', 'read', 'error', 'unreachable', priority=50)
                def _on_net(self, event, *args, **kwargs):
                    w.nevents += 1
                    if event.name in ('connected', 'disconnected'):
                        w.lines.append(line('c' + event.name, w.pname, 1))
                        if event.name == 'connected':
                            w.nconnected += 1
                    elif event.name != 'read':
                        w.nfailed += 1
                        w.notes.append('%s: %r' % (event.name, args))

                @handler('exception', channel='*', priority=50)
                def _on_exc(self, *args, **kwargs):
                    w.nevents += 1
                    w.notes.append('exception event: %r' % (args[1] if len(args) > 1 else args,))

            if fam == 'tcp':
                self.comp = TCPClient(channel='c12cli', connect_timeout=3600).register(self.root)
            else:
                self.comp = UNIXClient(channel='c12cli').register(self.root)
            Observer().register(self.root)
            self.pump()
        except BaseException:
            self.teardown()
            raise

    def op(self, name, a=0):
        self.lines.append(line('cop', self.pname, 1, a, 0, name))

    def connect(self):
        from circuits.net.events import connect
        self.op('connect')
        want = self.nconnected + 1
        if self.fam == 'tcp':
            self.root.fire(connect(*self.lst.getsockname()), 'c12cli')
        else:
            self.root.fire(connect(self.path), 'c12cli')
        t0 = time.monotonic()
        got = None
        failed0 = self.nfailed
        while got is None or self.nconnected < want:
            self.pump()
            if got is None:
                try:
                    got, _ = self.lst.accept()
                except BlockingIOError:
                    pass
            if got is not None and self.nconnected >= want:
                break
            if got is None and self.nfailed > failed0 and not len(self.root) and not self.root._tasks:
                self.op('connect_failed')       # the component reported error / unreachable: no link
                return
            if time.monotonic() - t0 > W.CAP_S:
                if got is not None:
                    got.close()
                raise tlc.MachineryError('client %s/%s does not get connected (%r)' % (self.pname, self.fam, self.notes[-3:]))
            self.iterate()
            time.sleep(0.0002)
        got.setblocking(False)
        self.peer = got
        self.peer_closed = False
        self.close_req = False
        self.ever = True

    def ssend(self, n):
        self.op('ssend', n)
        if is_open(self.peer):
            try:
                self.peer.send(b's' * n)
            except OSError as e:
                self.notes.append('peer send: %r' % (e,))

    def drain(self):
        if not is_open(self.peer):
            return
        for _ in range(64):
            try:
                if not self.peer.recv(1 << 20):
                    return
            except OSError:
                return

    def sfin(self):
        self.op('sfin')
        if is_open(self.peer):
            self.drain()
            self.peer.close()
        self.peer_closed = True

    def srst(self):
        self.op('srst')
        if is_open(self.peer):
            self.peer.setsockopt(socket.SOL_SOCKET, socket.SO_LINGER, struct.pack('ii', 1, 0))
            self.peer.close()
        self.peer_closed = True

    def cwrite(self, n):
        from circuits.net.events import write
        self.op('cwrite', n)
        self.root.fire(write(b'c' * n), 'c12cli')

    def cclose(self):
        from circuits.net.events import close
        self.op('cclose')
        self.close_req = True
        self.root.fire(close(), 'c12cli')

    def fingerprint(self):
        s = self.comp._sock
        po = self.poller
        return [self.nevents, len(self.lines), bool(self.comp._connected), sum(len(x) for x in self.comp._buffer),
                any(x is s for x in po._read), any(x is s for x in po._write),
                (inq(s), outq(s)) if is_open(s) else None,
                (inq(self.peer), outq(self.peer)) if is_open(self.peer) else None]

    def inflight(self):
        s = self.comp._sock
        if not is_open(s) or not self.comp._connected:
            return ''
        if is_open(self.peer):
            if self.fam == 'tcp' and outq(self.peer) > 0:
                return 'bytes of the peer not acknowledged'
            writing = any(x is s for x in self.poller._write)     # a buffer nobody is going to send is not in flight
            if (self.comp._buffer and writing) or outq(s) > 0 or inq(self.peer) > 0:
                return 'bytes of the client under way'
        elif self.ever and self.peer_closed:
            if not flags(s) & (_HUP | _RDHUP):
                return 'close of the peer not arrived'
        return ''

    def settle(self):
        self.op('settle')
        t0 = time.monotonic()
        stable = 0
        pause = 0.0002
        while stable < 3:
            self.drain()
            before = self.fingerprint()
            self.iterate()
            self.drain()
            after = self.fingerprint()
            why = self.inflight()
            if before == after and not why:
                stable += 1
                continue
            stable = 0
            if before == after:
                if time.monotonic() - t0 > W.CAP_S:
                    raise tlc.MachineryError('client world %s/%s cannot settle: %s' % (self.pname, self.fam, why))
                time.sleep(pause)
                pause = min(pause * 1.5, 0.01)
        down = self.peer_closed or self.close_req
        self.lines.append(line('cquiet', self.pname, 1, 1 if down else 0))

    def teardown(self):
        for s in (self.peer, self.lst, getattr(self.comp, '_sock', None)):
            if is_open(s):
                s.close()
        W.close_poller(self.poller)
        if self.path and os.path.exists(self.path):
            os.unlink(self.path)


def run_script(pname, fam, script):
    w = ClientWorld(pname, fam)
    try:
        for st in script:
            op, arg = (st, 0) if isinstance(st, str) else (st[0], st[1])
            if op == 'connect':
                if fam == 'unix' and w.ever:
                    continue        # UNIXClient cannot reconnect a closed socket (not part of C12)
                if not w.peer_closed and not w.close_req:
                    continue        # connect on a live link: misuse, not part of C12
                if w.ever:
                    w.settle()      # the client must have noticed that the old link is down
                w.connect()
            elif op == 'ssend':
                w.ssend(arg)
            elif op == 'sfin':
                w.sfin()
            elif op == 'srst':
                w.srst()
            elif op == 'cwrite':
                if w.close_req or not w.comp._connected:
                    continue        # a write on a client that is not connected: misuse, not part of C12
                w.cwrite(arg)
            elif op == 'cclose':
                w.cclose()
            elif op == 'settle':
                w.settle()
            else:
                raise tlc.MachineryError('unknown client operation %r' % (op,))
        if not script or script[-1] != 'settle':
            w.settle()
        return w.lines, w.notes
    finally:
        w.teardown()
