"""C20 - executing one case on the real code of $VERIF_REPO and recording the
decision.  Import only after harness.core.use_repo().

Auth:     real Request/Response objects -> check_auth / basic_auth / digest_auth
          (function level) and the documented handler idioms under the real
          HTTP + Dispatcher stack (a fake socket feeds `read`, `write` is captured).
Sessions: real Sessions component + MemoryStore driven with real Requests.
VHosts:   real VirtualHosts component, request.path observed.
"""

from . import c20_realize as R


class Sock:
    """Stands in for the accepted socket: only getpeername() is used."""

    def __init__(self, ip, port=40123):
        self._peer = (ip, port)

    def getpeername(self):
        return self._peer


class ServerStub:
    """What Request reads from its server when there is no Host header."""
    host = '127.0.0.1'
    port = 8000
    secure = False
    display_banner = False


def make_request(headers, method='GET', ip='192.0.2.10', path='/'):
    from circuits.web.headers import Headers
    from circuits.web.wrappers import Request, Response
    h = Headers([(k, v) for k, v in headers if v is not None])
    if 'Host' in h:
        req = Request(Sock(ip), method, 'http', path, (1, 1), '', h)
    else:
        # no Host header: only an HTTP/1.0 request gets as far as the dispatchers
        req = Request(Sock(ip), method, 'http', path, (1, 0), '', h, server=ServerStub())
    return req, Response(req)


def _login_class(req):
    v = req.login
    if v is None:
        return 'unset'
    if v is False:
        return 'false'
    return 'name' if v else 'falsy'


# ---------------------------------------------------------------------------
# Auth, function level

def run_auth_fn(cfg, cred):
    """One check on a fresh request object -> (ret class, login class, authenticated?)"""
    hv = R.authorization(cfg, cred)
    req, res = make_request([('Host', 'example.com'), ('Authorization', hv)], method=cfg['m'])
    return _one_check(cfg, req, res, 'same')


def run_auth_fn2(cfg, cred, dom):
    """Two consecutive checks on ONE request object: the first for the domain
    the credential class is described for, the second for domain `dom`.
    -> (decision of the first, decision of the second)"""
    hv = R.authorization(cfg, cred)
    req, res = make_request([('Host', 'example.com'), ('Authorization', hv)], method=cfg['m'])
    first = _one_check(cfg, req, res, 'same')
    return first, _one_check(cfg, req, res, dom)


def _one_check(cfg, req, res, dom):
    from circuits.web import tools
    from circuits.web.errors import httperror
    realm, users = R.domain(cfg['enc'], cfg['tbl'], dom)
    enc = R.encrypt_of(cfg['enc'])
    api = cfg['api']
    try:
        if api == 'check':
            ret = tools.check_auth(req, res, realm, users, enc)
        elif api == 'basic':
            ret = tools.basic_auth(req, res, realm, users, enc)
        elif api == 'digest':
            ret = tools.digest_auth(req, res, realm, users)
        else:
            raise ValueError(api)
    except Exception:
        # the handler dies: the server answers 500, nothing protected is served
        return 'exc', _login_class(req), False
    if api == 'check':
        # every documented use is `if check_auth(...)` / `if not check_auth(...)`
        auth = bool(ret)
        if ret is True:
            rc = 'true'
        elif ret is False:
            rc = 'false'
        elif isinstance(ret, httperror):
            rc = 'err'
        else:
            rc = 'other'
    else:
        # "If auth fails, returns an Unauthorized error": None = go on
        auth = ret is None
        if ret is None:
            rc = 'pass'
        elif isinstance(ret, httperror):
            rc = 'unauth' if int(res.status) == 401 else 'err'
        else:
            rc = 'other'
    return rc, _login_class(req), auth


# ---------------------------------------------------------------------------
# Auth, the documented idioms under the real HTTP stack

class Stack:
    """HTTP + Dispatcher + handler written as the tests / docs / examples do."""

    def __init__(self, api, enc, tbl):
        from circuits import BaseComponent, Component, Manager, handler
        from circuits.web import Controller
        from circuits.web.dispatchers import Dispatcher
        from circuits.web.http import HTTP
        from circuits.web.tools import basic_auth, check_auth, digest_auth

        users = R.table(enc, tbl)
        encrypt = R.encrypt_of(enc)
        realm_ = R.REALM
        stack = self
        self.out = {}

        class FakeServer(BaseComponent):
            channel = 'web'
            host = '127.0.0.1'
            port = 8000
            secure = False
            display_banner = False

            def init(self):
                self.http = HTTP(self, channel='web').register(self)

            @handler('write')
            def _w(self, sock, data):
                stack.out.setdefault(sock, []).append(bytes(data))

            @handler('close')
            def _c(self, sock):
                pass

        self.m = Manager()
        self.srv = FakeServer().register(self.m)
        Dispatcher().register(self.srv)

        if api == 'idiomb':
            # tests/web/test_basicauth.py, docs/source/web/features.rst
            class Root(Controller):
                def index(self):
                    realm = realm_
                    if check_auth(self.request, self.response, realm, users, encrypt):
                        return R.SECRET_BODY
                    return basic_auth(self.request, self.response, realm, users, encrypt)
            Root().register(self.srv)
        elif api == 'idiomd':
            # tests/web/test_digestauth.py
            class Root(Controller):
                def index(self):
                    realm = realm_
                    if check_auth(self.request, self.response, realm, users):
                        return R.SECRET_BODY
                    return digest_auth(self.request, self.response, realm, users)
            Root().register(self.srv)
        else:
            class Root(Controller):
                def index(self):
                    return R.SECRET_BODY
            if api == 'filterb':
                # examples/web/authdemo.py
                class Auth(Component):
                    channel = 'web'

                    @handler('request', priority=1.0)
                    def on_request(self, event, request, response):
                        if not check_auth(request, response, realm_, users):
                            event.stop()
                            return basic_auth(request, response, realm_, users)
                        return None
                Auth().register(self.srv)
            elif api == 'filterd':
                # the component shipped in circuits.web.main
                from circuits.web.main import Authentication
                a = Authentication(realm=realm_)
                a.users = users
                a.register(self.srv)
            else:
                raise ValueError(api)
            Root().register(self.srv)
        self._settle()

    def _settle(self):
        for _ in range(400):
            if not len(self.m) and not self.m._tasks:
                return
            self.m.flush()
        raise RuntimeError('web stack does not settle')

    def request(self, method, headers, ip='192.0.2.10', body=b''):
        from circuits.net.events import read
        sock = Sock(ip)
        lines = ['%s / HTTP/1.1' % method, 'Host: example.com']
        for k, v in headers:
            if v is not None:
                lines.append('%s: %s' % (k, v))
        if method in ('POST', 'PUT'):
            lines.append('Content-Length: %d' % len(body))
        data = ('\r\n'.join(lines) + '\r\n\r\n').encode('latin-1') + body
        self.m.fire(read(sock, data), 'web')
        self._settle()
        out = b''.join(self.out.pop(sock, []))
        # forget per-connection state the fake socket never closes
        self.srv.http._clients.pop(sock, None)
        self.srv.http._buffers.pop(sock, None)
        return out


def run_auth_stack(stack, cfg, cred):
    hv = R.authorization(cfg, cred)
    out = stack.request(cfg['m'], [('Authorization', hv)])
    status = out[9:12].decode('latin-1') if out.startswith(b'HTTP/1.') else 'none'
    auth = R.SECRET_BODY.encode() in out
    return status, 'na', auth


# ---------------------------------------------------------------------------
# Sessions

class SessionWorld:
    """One real Sessions component (MemoryStore); sids are projected to the
    order of their first appearance."""

    def __init__(self):
        from circuits.web.sessions import Sessions
        self.comp = Sessions()
        self.name = self.comp.name
        self.sids = []          # index-1 -> concrete sid string, in order of first assignment
        self.nreq = 0
        self.failed = []        # requests on which Sessions.request raised

    def who_of(self, ip, agent):
        """The fingerprint suffix as an attacker computes it for its own address and
        agent: the algorithm is public, so it is the code's own who() on a plain request."""
        from circuits.web.sessions import who
        req, _ = make_request([('Host', 'example.com'), ('User-Agent', R.AGENTS[agent])], ip=R.IPS[ip])
        return who(req)

    def cookie_value(self, ip, agent, ck):
        """ck: ["none"] | ["issued", j] | ["garbage"] | ["selfmade"] | ["transplant", k]"""
        kind = ck[0]
        if kind == 'none':
            return None
        if kind == 'issued':
            return self.sids[ck[1] - 1]
        if kind == 'garbage':
            return '5e1fc0ffee5e1fc0ffee5e1fc0ffee00'
        if kind == 'selfmade':
            return '5e1fc0ffee5e1fc0ffee5e1fc0ffee00/' + self.who_of(ip, agent)
        if kind == 'transplant':
            return self.sids[ck[1] - 1].split('/', 1)[0] + '/' + self.who_of(ip, agent)
        raise ValueError(ck)

    def request(self, ip, agent, ck, op, xh=('none', 'none')):
        """One request; op: "r" read | "w" store a marker | "x" expire; xh = (name, address
        named) of a further client-controlled header.  -> trace line"""
        val = self.cookie_value(ip, agent, ck)
        hdrs = [('Host', 'example.com'), ('User-Agent', R.AGENTS[agent])]
        extra = R.extra_header(xh[0], xh[1])
        if extra:
            hdrs.append(extra)
        if val is not None:
            hdrs.append(('Cookie', '%s=%s' % (self.name, val)))
        req, res = make_request(hdrs, ip=R.IPS[ip])
        self.nreq += 1
        try:
            self.comp.request(req, res)
            sid = res.cookie[self.name].value
            sess = req.session
        except Exception as e:
            # the handler died: the request gets a 500, no session is bound, nothing is returned
            self.failed.append('%s(%s) for cookie kind %s' % (type(e).__name__, e, ck[0]))
            return None
        # presented id, as an index (0: nothing that was ever assigned)
        pres = self.sids.index(val) + 1 if val in self.sids else 0
        if sid in self.sids:
            idx = self.sids.index(sid) + 1
        else:
            self.sids.append(sid)
            idx = len(self.sids)
        data = sess.get('marker', 0)
        if sess.sid != sid:
            data = -1       # session object and cookie disagree: judged as a leak
        mark = 0
        if op == 'w':
            # the marker says where it was stored and which fingerprint stored it
            mark = 10 * idx + R.fp_index(ip, agent)
            with sess as d:
                d['marker'] = mark
        elif op == 'x':
            sess.expire()
        return {'ip': ip, 'agent': agent, 'ck': pres, 'fk': ck[0], 'sid': idx, 'data': data,
                'w': mark, 'x': 1 if op == 'x' else 0, 'xh': xh[0], 'xa': xh[1]}


# ---------------------------------------------------------------------------
# Virtual hosts

def run_vhost(case):
    """case: dict(trusted, remote, rpre, rpost, xfh, host) -> trace line"""
    from circuits.web.dispatchers import VirtualHosts

    def once(with_header):
        t = R.trusted_of(case['trusted'])
        vh = VirtualHosts(dict(R.DOMAINS)) if case['trusted'] == 'none' else VirtualHosts(dict(R.DOMAINS), trusted_gateways=t)
        hdrs = [('Host', R.host_header(case['host']))]
        if with_header:
            hdrs.append(('X-Forwarded-Host', R.xfh_header(case['xfh'])))
        req, res = make_request(hdrs, ip=R.remote_text(case['remote'], case['rpre'], case['rpost']), path='/page')
        vh._on_request(None, req, res)
        return req.path

    got = once(case['xfh'] != 'absent')
    base = once(False)
    cls = {'/a/page': 'a', '/b/page': 'b', '/page': 'root'}.get(got, 'other')
    line = dict(case)
    line['path'] = cls
    line['infl'] = got != base
    return line
