"""C17 - WebSocket frames round-trip exactly, whatever the segmentation or fragmentation.

Pipeline (DESIGN 5/C17, BUILDING.md):
  1. TLC checks spec/proto/WsFraming.tla exhaustively: the intended decoder /
     encoder algorithm obeys the C17 monitor (WsFramingOps) for every stream
     layout, every cut at an interesting offset and every placement of
     application writes / close in the bound; the three defect variants
     ("hdr", "pong", "pingclosed") must violate it (the model has teeth).
  2. TLC dumps every environment history of small bounds (HIST_*.cfg: role,
     stream layout, cuts, writes, close); each is replayed on the real
     WebSocketCodec in server role, client role and client role with the first
     chunk handed to the constructor (spec -> code); the model's emitted
     lines are compared with the recorded ones.
  3. Enumerated (byte-at-a-time) and seeded random larger cases.
  4. TLC judges every recorded trace with WsFramingTrace.tla (code -> spec).
"""

import json
import multiprocessing
import os
import random
import re
import struct
import sys
import time
from concurrent.futures import ThreadPoolExecutor
from functools import lru_cache

from .. import tlc
from ..core import Ctx, use_repo
from . import c17_rfc6455 as ref

SPEC = 'spec/proto'
DATA = ('text', 'bin', 'cont')
LEN_CLASSES = [0, 1, 125, 126, 127, 65535, 65536, 70000]


# --------------------------------------------------------------------------
# payloads that encode (kind, id, offset): the projection maps bytes back to ids

@lru_cache(maxsize=256)
def payload(kind, ident, n, typ):
    """kind 'm' (peer message), 'p' (ping), 'w' (application write).  Text
    payloads are valid UTF-8 of exactly n bytes with a two-byte character every
    five bytes (so that fragment and read boundaries fall inside characters)."""
    salt = {'m': 0, 'p': 41, 'w': 17}[kind]
    out = bytearray(n)
    if typ == 'text':
        j = 0
        while j < n:
            if j % 5 == 0 and j + 1 < n:
                out[j] = 0xC3
                out[j + 1] = 0x80 + ((salt + ident * 7 + j // 5) % 64)
                j += 2
            else:
                out[j] = 0x21 + ((salt + ident * 13 + j * 3 + j // 94) % 94)
                j += 1
    else:
        for j in range(n):
            out[j] = (salt * 5 + ident * 37 + j * 11 + (j >> 8) * 3 + 0x80) & 0xFF
    return bytes(out)


def hdr_len(f):
    return 2 + {7: 0, 16: 2, 64: 8}[f['enc']] + (4 if f['masked'] else 0)


class Stream:
    """The byte stream a conforming peer sends for a layout."""

    def __init__(self, frames, keyvar=0, seed=0):
        self.frames = frames
        rnd = random.Random(seed * 1000003 + keyvar)
        self.msgs = {}      # id -> [typ, total length]
        for f in frames:
            if f['op'] in DATA:
                m = self.msgs.setdefault(f['id'], [f['op'], 0])
                m[1] += f['len']
        self.msg_payload = {i: payload('m', i, n, typ) for i, (typ, n) in self.msgs.items()}
        self.ping_payload = {f['id']: payload('p', f['id'], f['len'], 'bin') for f in frames if f['op'] == 'ping'}
        offs = {}
        out = bytearray()
        self.starts, self.ends = [], []
        for j, f in enumerate(frames):
            op, n = f['op'], f['len']
            if op in DATA:
                o = offs.get(f['id'], 0)
                body = self.msg_payload[f['id']][o:o + n]
                offs[f['id']] = o + n
            elif op == 'ping':
                body = self.ping_payload[f['id']]
            elif op == 'close':
                body = (struct.pack('>H', 1000) + b'bye' * 50)[:n] if n >= 2 else b''
            else:
                body = bytes((7 * i + 3) & 0xFF for i in range(n))
            assert len(body) == n
            key = None
            if f['masked']:
                which = (keyvar + j) % 4
                key = [b'\x00\x00\x00\x00', b'\xff\xff\xff\xff', bytes(rnd.randrange(256) for _ in range(4)),
                       bytes([0x81, 0x7e, 0x00, 0x88])][which]
            self.starts.append(len(out))
            out += ref.encode_frame(f['fin'], op, body, key, f['enc'])
            self.ends.append(len(out))
            assert self.ends[-1] - self.starts[-1] == hdr_len(f) + n
        self.data = bytes(out)

    def cut_class(self, pos):
        """Where a read ending at offset pos leaves the decoder."""
        if pos in self.ends or pos == 0:
            return 'boundary'
        for f, s, e in zip(self.frames, self.starts, self.ends):
            if s < pos < e:
                off = pos - s
                ext = {7: 0, 16: 2, 64: 8}[f['enc']]
                if off < 2:
                    return 'hdr'
                if off < 2 + ext:
                    return 'extlen'
                if off < hdr_len(f):
                    return 'mask'
                return 'payload'
        return 'beyond'


# --------------------------------------------------------------------------
# the real codec under a Manager

class Endpoint:
    def __init__(self, role, stream):
        from circuits import BaseComponent, Manager, handler
        self.role = role
        self.stream = stream
        self.lines = []
        self.aux = {}          # line index -> extra text
        self.asm = ref.Assembler()
        self.ndel = self.npong = self.nws = 0
        self.writes = {}       # id -> payload bytes
        self.root = Manager()
        ep = self

        class SockSide(BaseComponent):
            channel = 'sockside'

        class Obs(BaseComponent):
            channel = 'ws'

            @handler('read', channel='ws')
            def _r(self, *a):
                ep.on_deliver(a[-1])

            @handler('close', channel='ws', priority=100)
            def _c(self, *a):
                ep.add('wsclose')

            @handler('write', channel='sockside')
            def _w(self, *a):
                ep.on_sent(a[-1])

            @handler('close', channel='sockside')
            def _sc(self, *a):
                ep.add('sockclose')

            @handler('exception', channel='*')
            def _e(self, etype, evalue, tb, handler=None, fevent=None):
                ep.add('crash', s=getattr(etype, '__name__', str(etype)), note=str(evalue)[:120])

        self.parent = SockSide().register(self.root)
        Obs().register(self.root)
        self.sock = object() if role == 'server' else None
        self.codec = None
        self.settle()

    def add(self, k, a=0, b=0, s='', m=False, e=0, f=0, note=None):
        if note:
            self.aux[len(self.lines)] = note
        self.lines.append({'k': k, 'a': a, 'b': b, 's': s, 'm': bool(m), 'e': e, 'f': f})

    def settle(self):
        for _ in range(500):
            if not len(self.root) and not self.root._tasks:
                return
            self.root.tick()
        raise RuntimeError('codec does not settle')

    def guarded(self, fn):
        try:
            fn()
            self.settle()
        except tlc.MachineryError:
            raise
        except RuntimeError:
            raise
        except Exception as exc:  # an exception escaping the call itself
            self.add('crash', s=type(exc).__name__, a=1, note=str(exc)[:120])
            try:
                self.settle()
            except Exception:
                pass

    def start(self, initdata=None):
        from circuits.protocols.websocket import WebSocketCodec

        def go():
            if initdata is not None:
                self.codec = WebSocketCodec(self.sock, data=initdata, channel='ws')
            else:
                self.codec = WebSocketCodec(self.sock, channel='ws')
            self.codec.register(self.parent)
        self.guarded(go)

    # -- observation -> trace lines -----------------------------------------
    @staticmethod
    def _pick(cands, done):
        later = [c for c in cands if c > done]
        return min(later) if later else (min(cands) if cands else -1)

    def on_deliver(self, msg):
        if isinstance(msg, str):
            typ, raw = 'text', msg.encode('utf-8', 'surrogatepass')
        else:
            typ, raw = 'bin', bytes(msg)
        mid = self._pick([i for i, p in self.stream.msg_payload.items() if p == raw], self.ndel)
        if mid > self.ndel:
            self.ndel = mid
        self.add('deliver', a=mid, b=len(raw), s=typ)

    def on_sent(self, data):
        frames, err = ref.decode_frames(bytes(data))
        for u in self.asm.feed(frames):
            op, pl = u['op'], u['payload']
            if op == 'bad' or u['masked'] is None:
                self.add('sent', s='bad', b=len(pl), note=u.get('why', 'frames of one message disagree on masking'))
            elif op == 'pong':
                pid = self._pick([i for i, p in self.stream.ping_payload.items() if p == pl], self.npong)
                if pid > self.npong:
                    self.npong = pid
                self.add('sent', a=pid, b=len(pl), s=op, m=u['masked'], e=u['enc'], f=u['nframes'],
                         note='control frame longer than 125 bytes' if u.get('oversize') else None)
            elif op in ('text', 'bin'):
                wid = self._pick([i for i, p in self.writes.items() if p == pl], self.nws)
                if wid > self.nws:
                    self.nws = wid
                self.add('sent', a=wid, b=len(pl), s=op, m=u['masked'], e=u['enc'], f=u['nframes'])
            else:
                self.add('sent', a=0, b=len(pl), s=op, m=u['masked'], e=u['enc'], f=u['nframes'])
        if err:
            self.add('sent', s='bad', b=len(data), note=err)

    # -- environment ----------------------------------------------------------
    def read(self, chunk, t):
        from circuits.net.events import read
        self.add('read', a=t)
        if self.codec is None:
            self.start(initdata=chunk)
        else:
            ev = read(self.sock, chunk) if self.sock is not None else read(chunk)
            self.guarded(lambda: self.root.fire(ev, 'sockside'))
        self.add('quiet', a=t)

    def appwrite(self, typ, n, pos):
        from circuits.net.events import write
        wid = len(self.writes) + 1
        raw = payload('w', wid, n, typ)
        self.writes[wid] = raw
        data = raw.decode('utf-8') if typ == 'text' else (bytearray(raw) if wid % 2 else raw)
        self.add('appwrite', a=wid, b=n, s=typ)
        ev = write(self.sock, data) if self.sock is not None else write(data)
        self.guarded(lambda: self.root.fire(ev, 'ws'))
        self.add('quiet', a=pos)

    def appclose(self, pos):
        from circuits.net.events import close
        self.add('appclose')
        ev = close(self.sock) if self.sock is not None else close()
        self.guarded(lambda: self.root.fire(ev, 'ws'))
        self.add('quiet', a=pos)


def run_case(case):
    """Replay one case on the real codec -> (trace lines, aux notes).
    case: role, mode ('read' | 'initdata'), frames, ops [['R', t] | ['W', typ, n] | ['C']], keyvar."""
    st = Stream(case['frames'], case.get('keyvar', 0), case.get('seed', 0))
    ep = Endpoint(case['role'], st)
    if case.get('mode', 'read') != 'initdata':
        ep.start()
    pos = 0
    for op in case['ops']:
        if op[0] == 'R':
            t = op[1]
            ep.read(st.data[pos:t], t)
            pos = t
        else:
            if ep.codec is None:
                ep.start()
            if op[0] == 'W':
                ep.appwrite(op[1], op[2], pos)
            else:
                ep.appclose(pos)
    return ep.lines, ep.aux


def _work(case):
    try:
        lines, aux = run_case(case)
        return lines, aux, None
    except Exception as exc:  # harness failure, reported by the parent as machinery error
        import traceback
        return None, None, traceback.format_exc()


def run_cases(cases, procs):
    if not cases:
        return []
    ctx = multiprocessing.get_context('fork')
    with ctx.Pool(procs) as pool:
        res = pool.map(_work, cases, chunksize=max(1, min(64, len(cases) // (procs * 4) or 1)))
    for case, (lines, aux, err) in zip(cases, res):
        if err:
            raise tlc.MachineryError('replay harness failed on %s:\n%s' % (json.dumps(case)[:400], err))
    return [(l, a) for l, a, _ in res]


def as_trace(case, lines):
    return {'cfg': {'role': case['role'], 'frames': case['frames']}, 'lines': lines}


# --------------------------------------------------------------------------
# classification of a rejected trace (known findings are matched on this)

def witness_of(case, lines, badline, clause):
    """Small dict classifying a rejected trace: role, mode (how the bytes reach
    the codec), kind of the failing line, where the last read ended (cut), and
    for a crash the exception type, whether the endpoint had sent close before
    that read and whether a ping frame completed in it; for a written frame its
    opcode and - for a pong - whether the decoder held fragments of an open
    message when the ping arrived; in_ctor: the failing line belongs to the
    bytes handed to the constructor."""
    st = Stream(case['frames'], case.get('keyvar', 0), case.get('seed', 0))
    upto = lines[:badline]
    ridx = [i for i, ln in enumerate(upto) if ln['k'] == 'read']
    pos = upto[ridx[-1]]['a'] if ridx else 0
    prev = upto[ridx[-2]]['a'] if len(ridx) > 1 else 0
    bad = lines[badline - 1] if 0 < badline <= len(lines) else {'k': '', 's': ''}
    last_step = max([i for i, ln in enumerate(upto[:-1]) if ln['k'] in ('read', 'appwrite', 'appclose')], default=0)
    w = {'role': case['role'], 'mode': case.get('mode', 'read'), 'line': bad['k'], 'cut': st.cut_class(pos),
         'close_sent': any(ln['k'] == 'sent' and ln['s'] == 'close' for ln in upto[:last_step]),
         'ping_completes': any(f['op'] == 'ping' and prev < e <= pos for f, e in zip(st.frames, st.ends)),
         'in_ctor': case.get('mode') == 'initdata' and len(ridx) == 1 and upto[last_step]['k'] == 'read'}
    if bad['k'] == 'crash':
        w['exc'] = bad['s']
    if bad['k'] == 'sent':
        w['op'] = bad['s']
    if bad['k'] == 'sent' and bad['s'] == 'pong':
        # which ping does this pong answer (by ordinal), and what had the decoder accumulated there
        k = sum(1 for ln in upto if ln['k'] == 'sent' and ln['s'] == 'pong')
        pings = [j for j, f in enumerate(st.frames) if f['op'] == 'ping']
        pend = 0
        if k <= len(pings):
            for f in st.frames[:pings[k - 1]]:
                if f['op'] in DATA:
                    pend = 0 if f['fin'] else (pend + f['len'] if f['op'] == 'cont' else f['len'])
        w['pending'] = 'nonempty' if pend > 0 else 'empty'
    return w


# --------------------------------------------------------------------------
# TLC dumps -> cases

def _state_blocks(text):
    hdrs = list(tlc._STATE_HDR.finditer(text))
    for i, m in enumerate(hdrs):
        end = hdrs[i + 1].start() if i + 1 < len(hdrs) else len(text)
        yield text[m.end():end]


def _var(block, name):
    i = block.find('\n/\\ %s = ' % name)
    if i < 0:
        if block.lstrip().startswith('/\\ %s = ' % name) or block.lstrip().startswith('%s = ' % name):
            i = block.find(name + ' = ') - 4
        else:
            raise tlc.MachineryError('variable %s not found in dumped state:\n%s' % (name, block[:300]))
    j = block.find(' = ', i) + 3
    val, _ = tlc.tlaval.parse_prefix(block, j)
    return val


def dump_histories(cfg, timeout=900, workers=8):
    """Exhaustive TLC run with -dump on a HIST cfg (no VIEW: each state is one
    history).  Returns (TlcResult, [(role, frames, hist, out-text-block)]) for the
    maximal histories (not a proper prefix of another one of the same stream)."""
    wd = tlc.workdir('c17dump')
    try:
        dump = os.path.join(wd, 'states')
        res = tlc.run_tlc(SPEC, 'WsFraming', cfg, workers=workers, timeout=timeout, extra=['-dump', dump])
        if res.violated:
            raise tlc.MachineryError('model WsFraming (%s) violates %s:\n%s' % (cfg, res.violated, res.out[-3000:]))
        with open(dump + '.dump') as f:
            text = f.read()
    finally:
        import shutil
        shutil.rmtree(wd, ignore_errors=True)
    items = {}
    for block in _state_blocks(text):
        hist = _var(block, 'hist')
        if not hist:
            continue
        role = _var(block, 'role')
        frames = _var(block, 'frames')
        key = (role, json.dumps(frames, sort_keys=True), tuple(tuple(h) for h in hist))
        items[key] = (role, frames, hist, block)
    prefixes = set()
    for (role, fk, h) in items:
        for i in range(len(h)):
            prefixes.add((role, fk, h[:i]))
    maximal = [items[k] for k in sorted(items) if k not in prefixes]
    return res, maximal


def hist_to_ops(hist):
    ops = []
    for h in hist:
        if h[0] == 'R':
            ops.append(['R', h[2]])
        elif h[0] == 'W':
            ops.append(['W', h[1], h[2]])
        else:
            ops.append(['C'])
    return ops


def norm_lines(lines):
    """Normal form for comparing the model's lines with the recorded ones: the
    masking of the endpoint's own close frame is not part of the comparison."""
    out = []
    for ln in lines:
        t = (ln['k'], ln['a'], ln['b'], ln['s'], bool(ln['m']) and ln['s'] != 'close', ln['e'], ln['f'])
        out.append(t)
    return out


# --------------------------------------------------------------------------
# enumerated and random larger cases (code -> spec)

def mk_frame(role, fin, op, n, ident):
    return {'fin': bool(fin), 'op': op, 'masked': role == 'server', 'len': n, 'enc': ref.min_enc(n), 'id': ident}


def random_layout(rnd, role, maxframes, lens, big_ok=True):
    frames = []
    open_ = False
    nmsg = nping = 0
    closed = False
    for _ in range(rnd.randint(1, maxframes)):
        r = rnd.random()
        if r < 0.62:
            n = rnd.choice(lens)
            if rnd.random() < 0.3:
                n = max(0, n + rnd.choice([-2, -1, 1, 2, 3, 17]))
            if not big_ok and n > 300:
                n = n % 300
            fin = rnd.random() < 0.55
            if open_:
                frames.append(mk_frame(role, fin, 'cont', n, nmsg))
            else:
                nmsg += 1
                frames.append(mk_frame(role, fin, rnd.choice(['text', 'bin']), n, nmsg))
            open_ = not fin
        elif r < 0.82:
            nping += 1
            frames.append(mk_frame(role, True, 'ping', rnd.choice([0, 1, 4, 125]), nping))
        elif r < 0.9:
            frames.append(mk_frame(role, True, 'pong', rnd.choice([0, 3]), 0))
        elif not closed:
            closed = True
            frames.append(mk_frame(role, True, 'close', rnd.choice([0, 2, 9]), 0))
    return frames


def random_case(rnd, idx, quick):
    role = rnd.choice(['server', 'client'])
    big = rnd.random() < (0.08 if quick else 0.15)
    lens = LEN_CLASSES if big else [0, 1, 2, 5, 125, 126, 127, 300]
    frames = random_layout(rnd, role, 4 if big else 7, lens, big_ok=big)
    st = Stream(frames)
    total = len(st.data)
    interesting = set()
    for f, s, e in zip(frames, st.starts, st.ends):
        h = hdr_len(f)
        interesting.update(x for x in list(range(s + 1, s + h + 2)) + [e - 1, e] if s < x <= e)
    style = rnd.random()
    if style < 0.25 and total <= 400:
        cuts = list(range(1, total + 1))                      # byte at a time
    elif style < 0.6:
        cuts = sorted(rnd.sample(sorted(interesting), min(len(interesting), rnd.randint(1, 8))))
    else:
        pool = sorted(interesting | {rnd.randint(1, total) for _ in range(6)} | set(range(4096, total, 4096)))
        cuts = sorted(rnd.sample(pool, min(len(pool), rnd.randint(1, 10))))
    if rnd.random() < 0.8 and (not cuts or cuts[-1] != total):
        cuts.append(total)
    ops = [['R', t] for t in cuts]
    nw = rnd.choice([0, 0, 1, 2, 3])
    for _ in range(nw):
        n = rnd.choice(LEN_CLASSES if rnd.random() < 0.2 else [0, 1, 7, 125, 126, 127, 200])
        ops.insert(rnd.randint(0, len(ops)), ['W', rnd.choice(['text', 'bin']), n])
    if rnd.random() < 0.3:
        ops.insert(rnd.randint(0, len(ops)), ['C'])
    mode = 'initdata' if (role == 'client' and ops and ops[0][0] == 'R' and rnd.random() < 0.25) else 'read'
    return {'role': role, 'mode': mode, 'frames': frames, 'ops': ops, 'keyvar': idx % 4, 'seed': idx, 'origin': 'random'}


def bytewise_cases(quick):
    """Every single-frame layout and every pair (data frame | ping, data frame)
    over the short length classes, delivered one byte at a time; the long
    classes with every header byte on its own and the payload in 4096-byte
    reads (the read buffer of circuits.net.sockets)."""
    cases = []
    short = [0, 1, 125, 126] if quick else [0, 1, 2, 125, 126, 127]
    for role in ('server', 'client'):
        singles = []
        for n in short:
            for op in ('text', 'bin'):
                singles.append([mk_frame(role, True, op, n, 1)])
            singles.append([mk_frame(role, False, 'text', n, 1), mk_frame(role, True, 'cont', n, 1)])
        singles.append([mk_frame(role, True, 'ping', 0, 1)])
        singles.append([mk_frame(role, True, 'ping', 125, 1)])
        singles.append([mk_frame(role, False, 'bin', 1, 1), mk_frame(role, True, 'ping', 2, 1), mk_frame(role, True, 'cont', 2, 1)])
        singles.append([mk_frame(role, True, 'text', 1, 1), mk_frame(role, True, 'close', 2, 0), mk_frame(role, True, 'text', 1, 2)])
        for fr in singles:
            total = len(Stream(fr).data)
            cases.append({'role': role, 'mode': 'read', 'frames': fr, 'ops': [['R', t] for t in range(1, total + 1)],
                          'keyvar': len(cases) % 4, 'seed': 0, 'origin': 'bytewise'})
        for n in ([65535, 65536] if quick else [127, 65535, 65536, 70000]):
            for op in ('text', 'bin'):
                fr = [mk_frame(role, True, op, n, 1)]
                st = Stream(fr)
                h = hdr_len(fr[0])
                cuts = list(range(1, h + 2)) + list(range(h + 4096, st.ends[0], 4096)) + [st.ends[0] - 1, st.ends[0]]
                cases.append({'role': role, 'mode': 'read', 'frames': fr, 'ops': [['R', t] for t in sorted(set(cuts))],
                              'keyvar': len(cases) % 4, 'seed': 0, 'origin': 'bytewise'})
        # encoder side: every length class, both types, before and after the peer's frame
        for n in LEN_CLASSES:
            for typ in ('text', 'bin'):
                fr = [mk_frame(role, True, 'ping', 1, 1)]
                total = len(Stream(fr).data)
                cases.append({'role': role, 'mode': 'read', 'frames': fr,
                              'ops': [['W', typ, n], ['R', total], ['W', 'bin' if typ == 'text' else 'text', n]],
                              'keyvar': 0, 'seed': 0, 'origin': 'writes'})
    return cases


# --------------------------------------------------------------------------
# corrupted traces must be rejected (binding demonstration)

def _close_index(frames):
    for j, f in enumerate(frames):
        if f['op'] == 'close':
            return j
    return len(frames)


def _obliged(tr, i):
    """Is line i (a deliver or a pong) one the monitor *requires* at the next
    quiet line?  Only then is dropping it a corruption: what arrives after the
    endpoint sent close, or stands behind the peer's close frame, need not be
    delivered / answered (the statement is silent there)."""
    lines, frames = tr['lines'], tr['cfg']['frames']
    ln = lines[i]
    step = max(k for k in range(i) if lines[k]['k'] in ('read', 'appwrite', 'appclose'))
    if any(l2['k'] == 'sent' and l2['s'] == 'close' for l2 in lines[:step]):
        return False
    ci = _close_index(frames)
    if ln['k'] == 'deliver':
        fin = [j for j, f in enumerate(frames) if f['op'] in DATA and f['id'] == ln['a'] and f['fin']]
    else:
        fin = [j for j, f in enumerate(frames) if f['op'] == 'ping' and f['id'] == ln['a']]
    return bool(fin) and fin[0] < ci


def mutate_trace(rnd, tr):
    lines = [dict(ln) for ln in tr['lines']]
    dels = [i for i, ln in enumerate(lines) if ln['k'] == 'deliver']
    pongs = [i for i, ln in enumerate(lines) if ln['k'] == 'sent' and ln['s'] == 'pong']
    sents = [i for i, ln in enumerate(lines) if ln['k'] == 'sent' and ln['s'] in ('text', 'bin')]
    choices = []
    if dels:
        choices += ['del_type', 'del_len', 'del_drop', 'del_dup', 'del_early', 'del_id']
    if pongs:
        choices += ['pong_id', 'pong_drop', 'pong_mask']
    if sents:
        choices += ['sent_mask', 'sent_enc', 'sent_drop', 'sent_type']
    if not choices:
        return None
    how = rnd.choice(choices)
    if how.startswith('del_'):
        i = rnd.choice(dels)
        if how == 'del_type':
            lines[i]['s'] = 'bin' if lines[i]['s'] == 'text' else 'text'
        elif how == 'del_len':
            lines[i]['b'] += 1
        elif how == 'del_id':
            lines[i]['a'] = -1
        elif how == 'del_drop':
            if not _obliged(tr, i):
                return None
            del lines[i]
        elif how == 'del_dup':
            lines.insert(i, dict(lines[i]))
        elif how == 'del_early':
            j = max(k for k in range(i) if lines[k]['k'] == 'read')
            ln = lines.pop(i)
            lines.insert(j, ln)
            # only "early" if the previous offset does not already cover the message
            prevpos = max([l2['a'] for l2 in lines[:j] if l2['k'] == 'read'], default=0)
            st = Stream(tr['cfg']['frames'])
            fin = [e for f, e in zip(st.frames, st.ends) if f['op'] in DATA and f['id'] == ln['a'] and f['fin']]
            if not fin or fin[0] <= prevpos:
                return None
    elif how.startswith('pong_'):
        i = rnd.choice(pongs)
        if how == 'pong_id':
            lines[i]['a'] = -1
        elif how == 'pong_mask':
            lines[i]['m'] = not lines[i]['m']
        else:
            if not _obliged(tr, i):
                return None
            del lines[i]
    else:
        i = rnd.choice(sents)
        if how == 'sent_mask':
            lines[i]['m'] = not lines[i]['m']
        elif how == 'sent_enc':
            lines[i]['e'] = 64 if lines[i]['e'] != 64 else 16
        elif how == 'sent_type':
            lines[i]['s'] = 'bin' if lines[i]['s'] == 'text' else 'text'
        else:
            # a write issued after the own close frame or after the peer's close frame arrived need not go out
            st = Stream(tr['cfg']['frames'])
            ci = _close_index(st.frames)
            pos = max([l2['a'] for l2 in lines[:i] if l2['k'] == 'read'], default=0)
            if any(l2['k'] == 'sent' and l2['s'] == 'close' for l2 in lines[:i]) or \
                    (ci < len(st.frames) and st.ends[ci] <= pos):
                return None
            del lines[i]
    return {'cfg': tr['cfg'], 'lines': lines}, how


# --------------------------------------------------------------------------

def show(lines, aux):
    for i, ln in enumerate(lines):
        extra = ('   # ' + aux[i]) if i in aux else ''
        print('%3d %-9s a=%-6d b=%-6d s=%-6s m=%d e=%d f=%d%s' % (i + 1, ln['k'], ln['a'], ln['b'], ln['s'], ln['m'],
                                                            ln['e'], ln['f'], extra))


def run_replay(path):
    rec = json.load(open(path))
    case = rec['detail']['case']
    lines, aux = run_case(case)
    verdicts, _ = tlc.validate_traces(SPEC, 'WsFramingTrace', 'WsFramingTrace.cfg', [as_trace(case, lines)], shards=1)
    clause, line = verdicts[0]
    print('role=%s mode=%s frames=%s' % (case['role'], case.get('mode'), json.dumps(case['frames'])))
    print('ops=%s' % json.dumps(case['ops']))
    show(lines, aux)
    if clause:
        print('VIOLATION property=C17 replay=%s clause=%s line=%d' % (path, clause, line))
        return 1
    print('replay accepted: no clause of C17 fails on this tree')
    return 0


HIST_CFGS = {
    'quick': ['HIST_WsFraming_cut2.cfg', 'HIST_WsFraming_pair.cfg', 'HIST_WsFraming_app.cfg'],
    'thorough': ['HIST_WsFraming_cut2_thorough.cfg', 'HIST_WsFraming_pair_thorough.cfg',
                 'HIST_WsFraming_app_thorough.cfg'],
}
DEFECT_CFGS = {'hdr': 'MC_WsFraming_hdr.cfg', 'pong': 'MC_WsFraming_pong.cfg', 'pingclosed': 'MC_WsFraming_pingclosed.cfg'}


def run(tier, replay=None):
    use_repo()
    if replay:
        return run_replay(replay)
    ctx = Ctx('C17', tier)
    t_last = [time.time()]
    phases = {}

    def lap(name):
        now = time.time()
        phases[name] = round(now - t_last[0], 1)
        t_last[0] = now
    rnd = random.Random(ctx.seed * 7919 + 17)
    quick = tier == 'quick'
    procs = max(2, min(16, os.cpu_count() or 4))

    # 1 + 2a. TLC: exhaustive check, defect variants, history dumps - run side by side
    with ThreadPoolExecutor(max_workers=12) as ex:
        # a one-frame configuration carries -coverage (no dead action); the larger ones run without it
        f_cov = ex.submit(tlc.model_check, SPEC, 'WsFraming', 'MC_WsFraming_cov.cfg', coverage=True, workers=2, timeout=1500)
        f_mc = ex.submit(tlc.model_check, SPEC, 'WsFraming', 'MC_WsFraming.cfg', workers=8, timeout=1500)
        f_more = [] if quick else [ex.submit(tlc.model_check, SPEC, 'WsFraming', cfg, workers=8, timeout=2400)
                                   for cfg in ('MC_WsFraming_thorough.cfg', 'MC_WsFraming_lens_thorough.cfg')]
        f_def = {d: ex.submit(tlc.run_tlc, SPEC, 'WsFraming', cfg, workers=2) for d, cfg in DEFECT_CFGS.items()}
        f_hist = [ex.submit(dump_histories, cfg, 2400, 4) for cfg in HIST_CFGS[tier]]
        mc = f_mc.result()
        mcov = f_cov.result()
        more = [f.result() for f in f_more]
        gens = {d: f.result() for d, f in f_def.items()}
        dumps = [f.result() for f in f_hist]
    lap('tlc_model_and_histories')
    # `\E t \in Targets : Read(t)` has a state-dependent range: TLC reports it under Next
    cov = {m.group(1): int(m.group(2)) for m in re.finditer(r'^<(\w+) line [^>]*>: (\d+):\d+', mcov.out, re.M)}
    for act in ('Send', 'Next', 'AppWrite', 'AppClose'):
        if not cov.get(act):
            raise tlc.MachineryError('vacuous model: action %s never taken (%s)' % (act, cov))

    cases = []          # case dicts
    model_out = {}      # case index -> model lines
    for d, gen in gens.items():
        if not gen.violated:
            raise tlc.MachineryError('defect variant %r of WsFraming.tla no longer violates C17: the model lost its teeth' % d)
        last = gen.error_trace[-1][1]
        for role_mode in (('server', 'read'), ('client', 'read')):
            if last['role'] != role_mode[0]:
                continue
            cases.append({'role': last['role'], 'mode': 'read', 'frames': last['frames'], 'ops': hist_to_ops(last['hist']),
                          'keyvar': 2, 'seed': 0, 'origin': 'tlc-counterexample-' + d})

    # 2b. every maximal history of the HIST bounds (spec -> code)
    nhist = 0
    hist_states = 0
    for res, maximal in dumps:
        hist_states += res.distinct
        for role, frames, hist, block in maximal:
            nhist += 1
            ops = hist_to_ops(hist)
            modes = ['read']
            if role == 'client' and ops and ops[0][0] == 'R':
                modes.append('initdata')
            for mode in modes:
                model_out[len(cases)] = block
                cases.append({'role': role, 'mode': mode, 'frames': frames, 'ops': ops, 'keyvar': nhist % 4,
                              'seed': nhist, 'origin': 'tlc-history'})

    # 3. enumerated byte-at-a-time cases and seeded random larger ones (code -> spec)
    cases += bytewise_cases(quick)
    for i in range(1500 if quick else 12000):
        cases.append(random_case(rnd, i, quick))

    results = run_cases(cases, procs)
    lap('replay')

    # 4. TLC judges every recorded trace
    traces = [as_trace(c, lines) for c, (lines, aux) in zip(cases, results)]
    verdicts, stats = tlc.validate_traces(SPEC, 'WsFramingTrace', 'WsFramingTrace.cfg', traces,
                                          shards=12 if quick else 16, timeout=3000)
    lap('trace_validation')
    accepted = []
    n_cmp = n_match = 0
    for idx, (case, (lines, aux), (clause, line)) in enumerate(zip(cases, results, verdicts)):
        nontrivial = any(ln['k'] in ('deliver', 'sent', 'crash') for ln in lines)
        ident = [case['role'], case['mode'], case['frames'], case['ops'], case['keyvar']]
        ctx.count_case(ident, nontrivial, sample={'role': case['role'], 'mode': case['mode'], 'frames': case['frames'],
                                                  'ops': case['ops'][:12], 'trace': lines[:10],
                                                  'verdict': clause or 'accepted'})
        if clause:
            w = witness_of(case, lines, line, clause)
            ctx.violation(clause, w, {'case': case, 'trace': lines, 'line': line, 'notes': {str(k): v for k, v in aux.items()}})
            continue
        accepted.append(traces[idx])
        if idx in model_out:
            n_cmp += 1
            mlines = _var(model_out[idx], 'out')
            if norm_lines(mlines) == norm_lines(lines):
                n_match += 1
            else:
                ctx.note_drift('%s/%s: recorded lines differ from the model\'s for frames=%s ops=%s'
                               % (case['role'], case['mode'], json.dumps(case['frames']), json.dumps(case['ops'])))

    # 5. binding demonstration: corrupted real traces must be rejected.  The
    # traces come from the tree under test: if that tree violates C17 the
    # verdict (exit 1) stands, a corruption that slips through is only noted.
    muts = []
    selftest_missed = []
    order = list(range(len(accepted)))
    rnd.shuffle(order)
    for i in order:
        if len(muts) >= (150 if quick else 1500):
            break
        m = mutate_trace(rnd, accepted[i])
        if m:
            muts.append(m)
    if muts:
        try:
            mv, _ = tlc.validate_traces(SPEC, 'WsFramingTrace', 'WsFramingTrace.cfg', [m[0] for m in muts], shards=4)
            selftest_missed = [(muts[i][1], muts[i][0]) for i, (c, _) in enumerate(mv) if not c]
        except tlc.MachineryError:
            if not ctx.violations:
                raise
            selftest_missed = [('self-test could not run', {})]
        if selftest_missed:
            msg = 'trace spec accepted %d corrupted traces, e.g. %s: %s' % (
                len(selftest_missed), selftest_missed[0][0], json.dumps(selftest_missed[0][1])[:1500])
            if not ctx.violations:
                raise tlc.MachineryError(msg)
            ctx.notes.append('corrupted-trace self-test downgraded (the tree under test violates C17): ' + msg[:300])
            print('NOTE: property=C17 ' + msg[:300])

    lap('compare_and_corrupted_traces')
    return ctx.finish(coverage={
        'phase_wall_s': phases,
        'states': mc.distinct + sum(m.distinct for m in more),
        'transitions': mc.generated + sum(m.generated for m in more),
        'model_check_runs': [{'cfg': c, 'distinct': m.distinct, 'generated': m.generated, 'wall_s': round(m.wall_s, 1)}
                             for c, m in zip(['MC_WsFraming.cfg', 'MC_WsFraming_thorough.cfg',
                                              'MC_WsFraming_lens_thorough.cfg'], [mc] + more)],
        'traces_validated_against_impl': len(traces),
        'model_histories_replayed': nhist,
        'history_dump_states': hist_states,
        'model_line_exact_match': n_match, 'model_line_compared': n_cmp,
        'trace_validation_states': stats['states'],
        'corrupted_traces_rejected': len(muts) - len(selftest_missed),
        'corrupted_traces_not_rejected': len(selftest_missed),
        'defect_variant_counterexamples': {d: g.violated for d, g in gens.items()},
        'rule': 'cases = (role, mode, stream layout, cut/write/close script, masking-key variant): every maximal environment '
                'history TLC dumps for WsFraming.tla at the HIST bounds x {server, client, client with constructor data}, '
                'the counterexamples of the three defect variants, byte-at-a-time enumerations, seeded random layouts; '
                'non-trivial = the codec delivered, wrote or raised at least once; distinct by hash of the case',
        'exhaustive': False,
    }, assumptions=[
        'the codec runs under a Manager with a stub parent; read events are injected, no socket is involved',
        'payload equality is decided by the projection (payload bytes encode message id and offset); '
        'order, multiplicity, timing relative to reads, type, length, masking and length encoding by TLC',
        'the peer is conforming (RFC 6455 grammar, minimal length encoding); frames behind a close frame are the only '
        'non-conforming input',
        'frames written by the codec are read back by the independent decoder in harness/drivers/c17_rfc6455.py',
    ])
