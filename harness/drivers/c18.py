"""C18 - line protocol is segmentation-invariant; IRC messages are exactly one line.

Pipeline (DESIGN 5/C18, BUILDING.md):
  line protocol
    1. TLC checks spec/proto/Lines.tla exhaustively: the incremental splitter
       with one buffer per socket obeys the monitor of LinesOps (Lines / TailOf
       of the whole per-socket stream) for every stream x cut set x socket
       interleaving in the bound; the "shared" and "persegment" variants must
       violate it (teeth).
    2. TLC dumps every environment history up to a smaller bound; each is
       replayed on a real circuits.protocols.line.Line under a Manager (client
       mode / server mode with getBuffer-updateBuffer), `line` events and the
       held tail are recorded, the model's lines are compared with the real
       ones.
    3. all cuts of fixed nasty streams + seeded random longer streams / cut
       sets / interleavings / bursts.
    4. TLC judges every recorded trace with LinesTrace.tla.
  IRC messages
    1. TLC checks spec/proto/IrcMsg.tla: the "strict" reference serialiser
       satisfies the monitor of IrcMsgOps (satisfiable, non-vacuous), the
       "pinned" and "fixed" variants violate it (teeth).
    2. TLC dumps every case of the model; each is run on the real Message /
       command constructors / splitLines + parsemsg; the model's lines are
       compared with the real ones.
    3. every constructor of commands.py x argument strings over the token
       alphabet (enumerated), raw Message with prefix / command over the
       alphabet, seeded random longer ones.
    4. TLC judges every recorded case with IrcMsgTrace.tla.
"""

import inspect
import itertools
import json
import os
import random
import re
import shutil
import time
from collections import defaultdict
from concurrent.futures import ThreadPoolExecutor

from .. import tlc
from ..core import Ctx, use_repo

SPEC = 'spec/proto'

# ---------------------------------------------------------------------------
# tokens <-> bytes (see LinesOps.tla)

CR, LF, A, M1, M2, SP, COLON, NUL, KW = 1, 2, 3, 4, 5, 6, 7, 8, 9
TOK2BYTE = {CR: 13, LF: 10, A: 0x61, M1: 0xC3, M2: 0xA9, SP: 0x20, COLON: 0x3A, NUL: 0}
BYTE2TOK = {b: t for t, b in TOK2BYTE.items()}


BLK = 10                 # line protocol only: a run of 1024 x 'a' (long lines without long token sequences)
BLKLEN = 1024


def tb(tokens, word=b'CMD'):
    """token sequence -> bytes (token 9 = a well-formed command word, 10 = 1024 x 'a')."""
    out = bytearray()
    for t in tokens:
        if t == KW:
            out += word
        elif t == BLK:
            out += b'a' * BLKLEN
        elif t >= 100:
            out.append(t - 100)
        else:
            out.append(TOK2BYTE[t])
    return bytes(out)


def tt(data):
    """bytes -> token sequence."""
    return [BYTE2TOK.get(b, 100 + b) for b in data]


def tt_blocks(data):
    """bytes -> tokens with every maximal run of n x 'a' written as n // 1024
    block tokens followed by n % 1024 'a' tokens.  Used for the long-line cases,
    whose streams are built in this canonical form and cut at token boundaries
    only, so that the tokens of a line / tail are the concatenation of the tokens
    of the reads."""
    out = []
    pos = 0
    for m in _ARUN.finditer(data):
        out += [BYTE2TOK.get(b, 100 + b) for b in data[pos:m.start()]]
        q, r = divmod(m.end() - m.start(), BLKLEN)
        out += [BLK] * q + [A] * r
        pos = m.end()
    out += [BYTE2TOK.get(b, 100 + b) for b in data[pos:]]
    return out


_ARUN = re.compile(b'a+')


def subst_kw(seq, word):
    out = []
    for t in seq:
        if t == KW:
            out.extend(tt(word))
        else:
            out.append(t)
    return out


# ---------------------------------------------------------------------------
# fast reader for TLC state dumps (the generic parser of harness.tlaval is too
# slow for tens of thousands of states)

_VAR = re.compile(r'^/\\ (\w+) = ', re.M)
_KEY = re.compile(r'(\w+) \|->')


def _tla_json(v):
    v = v.replace('[', '{').replace(']', '}').replace('<<', '[').replace('>>', ']')
    v = _KEY.sub(r'"\1":', v)
    v = v.replace('TRUE', 'true').replace('FALSE', 'false')
    return json.loads(v)


def dump_vars(module, cfg, names, workers=4, timeout=900):
    """TLC -dump of module/cfg; returns (result, [ {name: value} ]) for the
    variables in `names` (records -> dict, sequences -> list)."""
    wd = tlc.workdir('c18dump')
    try:
        res = tlc.run_tlc(SPEC, module, cfg, workers=workers, timeout=timeout, extra=['-dump', os.path.join(wd, 'st')], jvm_opts=JVM)
        if res.violated:
            raise tlc.MachineryError('dump run %s/%s violates %s' % (module, cfg, res.violated))
        with open(os.path.join(wd, 'st.dump')) as f:
            text = f.read()
    finally:
        shutil.rmtree(wd, ignore_errors=True)
    out = []
    for block in re.split(r'^State \d+:\s*$', text, flags=re.M)[1:]:
        ms = list(_VAR.finditer(block))
        st = {}
        for i, m in enumerate(ms):
            if m.group(1) not in names:
                continue
            end = ms[i + 1].start() if i + 1 < len(ms) else len(block)
            try:
                st[m.group(1)] = _tla_json(block[m.end():end])
            except ValueError as e:
                raise tlc.MachineryError('cannot read dumped value of %s: %s: %r' % (m.group(1), e, block[m.end():end][:200]))
        out.append(st)
    if len(out) != res.distinct:
        raise tlc.MachineryError('dump of %s/%s has %d states, TLC reported %d' % (module, cfg, len(out), res.distinct))
    return res, out


_COV = re.compile(r'^<(\w+) line \d+, col \d+ to line \d+, col \d+ of module \w+(?: \(([\d ]+)\))?>: (\d+):(\d+)', re.M)


def dead_actions(res):
    """action (sub-action) labels of a -coverage run that were never taken."""
    dead = []
    seen = 0
    for m in _COV.finditer(res.out):
        if m.group(1) == 'Init':
            continue
        seen += 1
        if int(m.group(4)) == 0:
            dead.append('%s(%s)' % (m.group(1), m.group(2) or ''))
    if seen == 0:
        raise tlc.MachineryError('no action coverage in TLC output')
    return dead


# ---------------------------------------------------------------------------
# line protocol: the real component

class _Sock:
    """stands for a client socket of a server (hashable, like socket objects)"""

    def __init__(self, n):
        self.n = n

    def __repr__(self):
        return '<sock %d>' % self.n


class LineRig:
    """A real circuits.protocols.line.Line under a root Manager."""

    def __init__(self, mode, nsock, blocks=False):
        from circuits import BaseComponent, Manager, handler
        from circuits.protocols.line import Line
        self.mode = mode
        self.nsock = nsock
        self.tt = tt_blocks if blocks else tt
        self.log = []
        self.root = Manager()
        rig = self
        if mode == 'client':
            assert nsock == 1
            self.comp = Line().register(self.root)
            self.socks = {}
        else:
            # the way circuits' IRC server (examples/ircd.py) and tests/protocols/test_line.py wire it
            self.buffers = defaultdict(bytes)
            self.comp = Line(getBuffer=self.buffers.__getitem__,
                             updateBuffer=self.buffers.__setitem__).register(self.root)
            self.socks = {i: _Sock(i) for i in range(1, nsock + 1)}
        self.ids = {id(s): i for i, s in self.socks.items()}

        class Obs(BaseComponent):
            @handler('line', priority=1000)
            def _on_line(self, *args):
                if rig.mode == 'client':
                    s, data = (1, args[0]) if len(args) == 1 else (0, args[-1])
                else:
                    s = rig.ids.get(id(args[0]), 0) if len(args) == 2 else 0
                    data = args[-1]
                rig.log.append({'k': 'line', 's': s, 'd': rig.tt(data) if isinstance(data, (bytes, bytearray)) else [999]})

        Obs().register(self.root)
        self.settle()

    def settle(self):
        for _ in range(10000):
            if not len(self.root) and not self.root._tasks:
                return
            self.root.tick()
        raise tlc.MachineryError('Line rig does not settle')

    def held(self, s):
        if self.mode == 'client':
            return self.comp.buffer
        return self.buffers.get(self.socks[s], b'')

    def step(self, reads):
        """Fire the reads of one step (one or several `read` events queued
        before any is dispatched), run to quiescence, record the tails."""
        from circuits.net.events import read
        for s, data in reads:
            self.log.append({'k': 'read', 's': s, 'd': self.tt(data)})
            if self.mode == 'client':
                self.root.fire(read(data))
            else:
                self.root.fire(read(self.socks[s], data))
        self.settle()
        done = []
        for s, _ in reads:
            if s not in done:
                done.append(s)
                self.log.append({'k': 'tail', 's': s, 'd': self.tt(self.held(s))})

    def finish(self):
        for s in range(1, self.nsock + 1):
            self.log.append({'k': 'tail', 's': s, 'd': self.tt(self.held(s))})
        self.log.append({'k': 'end', 's': 0, 'd': []})
        return self.log


def run_line_script(mode, nsock, script, blocks=False):
    """script: list of steps; a step is a list of [sock, tokens] reads.
    Returns the trace {'cfg':..., 'lines':...}."""
    rig = LineRig(mode, nsock, blocks)
    for step in script:
        rig.step([(s, tb(seg)) for s, seg in step])
    return {'cfg': {'nsock': nsock, 'mode': mode}, 'lines': rig.finish()}


def line_witness(case, trace, badline):
    """Classify a failing line-protocol trace for known-finding matching."""
    reads = [r for step in case['script'] for r in step]
    crcut = any(seg and seg[-1] == CR for _, seg in reads)
    ln = trace['lines'][badline - 1] if 0 < badline <= len(trace['lines']) else {}
    return {'part': 'line', 'mode': case['mode'], 'sockets': case['nsock'],
            'cr_at_segment_end': crcut, 'at': ln.get('k', ''), 'long_line': case.get('what', '')}


def random_line_case(rnd, quick):
    mode = rnd.choice(['client', 'server', 'server'])
    nsock = 1 if mode == 'client' else rnd.choice([1, 2, 2, 3, 4])
    weights = rnd.choice([
        [(CR, 3), (LF, 3), (A, 3), (M1, 1), (M2, 1)],
        [(CR, 1), (LF, 1), (A, 6), (M1, 1), (M2, 1), (SP, 1), (COLON, 1), (NUL, 1)],
        [(CR, 5), (LF, 5), (A, 1)],
    ])
    pool = [t for t, w in weights for _ in range(w)]
    script = []
    nsteps = rnd.randint(1, 8 if quick else 16)
    for _ in range(nsteps):
        nreads = 1 if rnd.random() < 0.7 else rnd.randint(2, 4)
        step = []
        for _ in range(nreads):
            n = rnd.choice([0, 1, 1, 1, 2, 2, 3, 5, 8]) if rnd.random() < 0.9 else rnd.randint(20, 50 if quick else 100)
            seg = []
            while len(seg) < n:
                if rnd.random() < 0.15:
                    seg += [M1, M2]
                elif rnd.random() < 0.15:
                    seg += [CR, LF]
                else:
                    seg.append(rnd.choice(pool))
            step.append([rnd.randint(1, nsock), seg])
        script.append(step)
    return {'part': 'line', 'mode': mode, 'nsock': nsock, 'script': script, 'origin': 'random'}


def all_cuts_cases(stream, mode, nsock=1):
    """every cut of `stream` into non-empty reads of socket 1."""
    n = len(stream)
    for mask in range(1 << (n - 1)):
        script = []
        start = 0
        for i in range(1, n):
            if mask >> (i - 1) & 1:
                script.append([[1, stream[start:i]]])
                start = i
        script.append([[1, stream[start:]]])
        yield {'part': 'line', 'mode': mode, 'nsock': nsock, 'script': script, 'origin': 'all-cuts'}


def long_line_cases(quick):
    """lines (and unterminated tails) of 70 000 / 71 680 / 200 704 bytes between
    short lines, delivered in 4 KiB reads, in two reads and in one read; client
    mode, server mode, and server mode with a second socket's reads in between.
    Token 10 stands for 1024 x 'a' (see tt_blocks)."""
    longs = {'70000': [BLK] * 68 + [A] * 368, '70KiB': [BLK] * 70, '196KiB': [BLK] * 196}
    if quick:
        del longs['70KiB']
    for name, body in longs.items():
        for term in ([LF], [CR, LF], None):
            head = [A] * 5 + [LF]
            rest = (term + [LF] + [A] * 11 + [LF]) if term is not None else []
            for delivery in ('4KiB', 'two', 'one'):
                if delivery == '4KiB':
                    nb = body.count(BLK)
                    segs = [head] + [body[i:i + 4] for i in range(0, nb, 4)]
                    segs.append(body[nb:] + rest)       # the last few hundred bytes and what follows
                    segs = [x for x in segs if x]
                elif delivery == 'two':
                    h = len(body) // 2
                    segs = [head + body[:h], body[h:] + rest]
                else:
                    segs = [head + body + rest]
                for mode, nsock in (('client', 1), ('server', 1), ('server', 2)):
                    if quick and mode == 'server' and nsock == 1 and delivery != '4KiB':
                        continue
                    script = []
                    for i, seg in enumerate(segs):
                        script.append([[1, seg]])
                        if nsock == 2 and i % 5 == 1:
                            script.append([[2, [A, CR] if i % 2 else [LF, A]]])
                    yield {'part': 'line', 'mode': mode, 'nsock': nsock, 'script': script, 'blocks': True,
                           'origin': 'long-line', 'what': '%s %s %s' % (name, 'tail' if term is None else len(term), delivery)}


def mutate_line_trace(rnd, trace):
    """Corrupt an accepted real trace so that it must be rejected."""
    lines = [dict(ln) for ln in trace['lines']]
    idx = [i for i, ln in enumerate(lines) if ln['k'] == 'line']
    how = rnd.choice(['drop', 'content', 'tail', 'socket'])
    if how == 'drop' and idx:
        i = rnd.choice(idx)
        del lines[i]
        what = 'line event %d removed' % (i + 1)
    elif how == 'content' and idx:
        i = rnd.choice(idx)
        lines[i]['d'] = lines[i]['d'] + [CR]
        what = 'CR appended to line event %d' % (i + 1)
    elif how == 'socket' and idx and trace['cfg']['nsock'] > 1:
        i = rnd.choice(idx)
        other = lines[i]['s'] % trace['cfg']['nsock'] + 1
        # only a corruption if the other socket is not owed the very same line next
        lines[i]['s'] = other
        lines[i]['d'] = lines[i]['d'] + [A, LF + 100]
        what = 'line event %d moved to socket %d and altered' % (i + 1, other)
    else:
        tl = [i for i, ln in enumerate(lines) if ln['k'] == 'tail']
        if not tl:
            return None
        i = rnd.choice(tl)
        lines[i]['d'] = lines[i]['d'] + [A]
        what = 'byte appended to tail %d' % (i + 1)
    return {'cfg': trace['cfg'], 'lines': lines}, what


# ---------------------------------------------------------------------------
# IRC messages: the real classes

def ctor_table():
    """command constructors of circuits.protocols.irc.commands by introspection:
    name -> (function, required, optional, variadic)"""
    from circuits.protocols.irc import commands
    tab = {}
    for name, fn in sorted(vars(commands).items()):
        if not (name.isupper() and inspect.isfunction(fn) and fn.__module__ == commands.__name__):
            continue
        req = opt = 0
        var = False
        for p in inspect.signature(fn).parameters.values():
            if p.kind == p.VAR_POSITIONAL:
                var = True
            elif p.kind in (p.POSITIONAL_ONLY, p.POSITIONAL_OR_KEYWORD):
                if p.default is p.empty:
                    req += 1
                else:
                    opt += 1
        tab[name] = (fn, req, opt, var)
    if len(tab) < 10:
        raise tlc.MachineryError('only %d command constructors found in commands.py' % len(tab))
    return tab


def arities(entry, maxvar=3):
    fn, req, opt, var = entry
    hi = max(req, maxvar) if var else req + opt
    return range(req, hi + 1)


def _realise(tokens, as_bytes, word=b'CMD'):
    if tokens is None:
        return None
    b = tb(tokens, word)
    if as_bytes:
        return b
    try:
        return b.decode('utf-8')
    except UnicodeDecodeError:
        return b          # not a string: handed over as bytes (Message decodes it)


def _plain(k):
    return {'k': k, 'hp': False, 'p': [], 'hc': False, 'c': [], 'a': [], 'w': []}


def _enc(x):
    """tokens of a value held by the code under test (str, bytes or anything else)"""
    if isinstance(x, (bytes, bytearray)):
        return tt(bytes(x))
    try:
        return tt(str(x).encode('utf-8', 'surrogatepass'))
    except Exception:
        return [998]


def _txt(x):
    """text view of a value held by the code under test, for classification only"""
    if isinstance(x, (bytes, bytearray)):
        return bytes(x).decode('utf-8', 'replace')
    try:
        return x if isinstance(x, str) else str(x)
    except Exception:
        return '?'


class IrcRig:
    """A real IRC component under a Manager with a stand-in transport (records
    the `write` events the component fires), and a peer: a real Line component
    (client mode) that is fed every written chunk and whose `line` events are
    parsed with parsemsg.  The component is shared by all cases (its default
    `request` handler keeps no state); the peer is replaced whenever a case
    leaves an unterminated rest in it."""

    def __init__(self):
        from circuits import BaseComponent, Manager, handler
        from circuits.protocols.irc import IRC
        self.root = Manager()
        self.irc = IRC().register(self.root)
        self.writes = []
        self.errors = []
        rig = self

        class Transport(BaseComponent):
            @handler('write', priority=1000)
            def _on_write(self, *args):
                rig.writes.append(args[-1] if args else None)

            @handler('exception', priority=1000)
            def _on_exception(self, *args, **kw):
                rig.errors.append(args[0].__name__ if args and isinstance(args[0], type) else 'exception')

        Transport().register(self.root)
        self._settle(self.root)
        self.peer = None
        self.new_peer()

    def new_peer(self):
        from circuits import BaseComponent, Manager, handler
        from circuits.protocols.line import Line
        self.peer = Manager()
        self.peer_line = Line().register(self.peer)
        self.peer_lines = []
        rig = self

        class PeerObs(BaseComponent):
            @handler('line', priority=1000)
            def _on_line(self, *args):
                rig.peer_lines.append(args[-1])

        PeerObs().register(self.peer)
        self._settle(self.peer)

    @staticmethod
    def _settle(m):
        for _ in range(10000):
            if not len(m) and not m._tasks:
                return
            m.tick()
        raise tlc.MachineryError('IRC rig does not settle')

    def send(self, event):
        """fire a command event at the component; -> (written chunks, errors)"""
        del self.writes[:]
        del self.errors[:]
        self.root.fire(event)
        self._settle(self.root)
        return list(self.writes), list(self.errors)

    def deliver(self, data):
        """the peer receives a written chunk; -> the lines its Line component gives out"""
        from circuits.net.events import read
        del self.peer_lines[:]
        self.peer.fire(read(data))
        self._settle(self.peer)
        return list(self.peer_lines)

    def end_case(self):
        if self.peer_line.buffer:
            self.new_peer()


_RIG = []


def _rig():
    if not _RIG:
        _RIG.append(IrcRig())
    return _RIG[0]


def _parsed_lines(pieces):
    """parsemsg on each line -> 'parsed' / 'parse_error' trace lines"""
    from circuits.protocols.irc.utils import parsemsg
    out = []
    for piece in pieces:
        try:
            prefix, command, pargs = parsemsg(piece)
            nick, user, host = prefix
            pargs = list(pargs)
        except Exception:
            out.append(_plain('parse_error'))
            continue
        ln = _plain('parsed')
        if user is None and host is None:
            ptxt = nick
        else:
            ptxt = '{}!{}@{}'.format(nick or '', user or '', host or '')
        ln['hp'] = ptxt is not None
        ln['p'] = _enc(ptxt) if ptxt is not None else []
        ln['hc'] = command is not None
        ln['c'] = _enc(command) if command is not None else []
        ln['a'] = [_enc(a) for a in pargs]
        out.append(ln)
    return out


def _irc_block(spec, ctors, rig, lines):
    """One command: build the message, serialise it directly (bytes(message),
    read back with splitLines + parsemsg), then fire the command event at the
    real IRC component and read what it writes at the peer.  Appends trace
    lines; returns the block's info, or None if the code refused to build /
    serialise it."""
    from circuits.protocols.irc import Message
    from circuits.protocols.irc.events import request
    from circuits.protocols.line import splitLines
    call = spec['call']
    as_bytes = spec.get('bytes') or False       # bool, or one bool per argument
    word = call.encode() if call != 'raw' else b'CMD'
    if isinstance(as_bytes, list):
        args = [_realise(a, bool(b), word) for a, b in zip(spec['args'], as_bytes)]
    else:
        args = [_realise(a, bool(as_bytes), word) for a in spec['args']]
    blk = {'start': len(lines) + 1, 'error': '', 'fields': None, 'wire': None, 'sent': []}
    try:
        if call == 'raw':
            kw = {}
            if spec.get('prefix') is not None:
                kw['prefix'] = _realise(spec['prefix'], False, word)
            cmd = _realise(spec['command'], False, word)
            m = Message(cmd, *args, **kw)
            ev = request(m)
        else:
            ev = ctors[call][0](*args)
            m = ev.args[0]
        w = bytes(m)
        if not isinstance(w, (bytes, bytearray)):
            raise TypeError('bytes(message) is not bytes')
        w = bytes(w)
        fields = (m.prefix, m.command, list(m.args))
    except Exception as e:       # refusing is always allowed
        blk['error'] = type(e).__name__
        lines.append(_plain('reject'))
        return None, blk
    blk['fields'] = fields
    blk['wire'] = w
    ln = _plain('msg')
    ln['hp'] = fields[0] is not None
    ln['p'] = _enc(fields[0]) if fields[0] is not None else []
    ln['hc'] = fields[1] is not None
    ln['c'] = _enc(str(fields[1])) if fields[1] is not None else []   # the serialiser's view: str(command)
    ln['a'] = [_enc(a) for a in fields[2]]
    lines.append(ln)
    ln = _plain('wire')
    ln['w'] = tt(w)
    lines.append(ln)
    try:
        pieces, _rest = splitLines(w, b'')
        pieces = list(pieces)
    except Exception:
        pieces = []
    lines.extend(_parsed_lines(pieces))
    # through the component: command event -> IRC.request -> write event
    writes, errors = rig.send(ev)
    if not writes:
        blk['error'] = ','.join(errors) or 'nothing written'
        lines.append(_plain('reject'))       # the component refused (handler raised): allowed
    for data in writes:
        ln = _plain('sent')
        if isinstance(data, (bytes, bytearray)):
            data = bytes(data)
            ln['w'] = tt(data)
            blk['sent'].append(data)
            lines.append(ln)
            lines.extend(_parsed_lines(rig.deliver(data)))
        else:
            ln['w'] = [997]                  # not bytes: cannot be a CRLF-terminated line
            blk['sent'].append(repr(data))
            lines.append(ln)
    return m, blk


def run_irc_case(case, ctors=None):
    """case: {'call': 'raw' | constructor name, 'prefix': tokens|None,
    'command': tokens|None (raw only), 'args': [tokens|None], 'bytes': bool | [bool per argument],
    'then': [further commands of the same shape, sent in a row through the same component and peer]}.
    Runs it on the real code.  Returns (trace, info)."""
    ctors = ctors or ctor_table()
    rig = _rig()
    lines = []
    info = {'outcome': '', 'error': '', 'fields': None, 'wire': None, 'blocks': []}
    try:
        m, blk = _irc_block(case, ctors, rig, lines)
        info['blocks'].append(blk)
        info['error'] = blk['error']
        if m is None:
            info['outcome'] = 'reject'
        else:
            info['outcome'] = 'sent'
            info['fields'] = blk['fields']
            info['wire'] = blk['wire']
            for spec in case.get('then') or []:
                _, b2 = _irc_block(spec, ctors, rig, lines)
                info['blocks'].append(b2)
        lines.append(_plain('end'))
    finally:
        rig.end_case()
    return {'cfg': {'call': case['call']}, 'lines': lines}, info


def irc_cause(info):
    # info: anything with a 'fields' entry (a block)
    """Classify why a serialised message fails (first applicable cause in a
    fixed order); computed from the message's own fields."""
    prefix, command, args = info['fields']
    prefix = None if prefix is None else _txt(prefix)
    args = [_txt(a) for a in args]
    crlf = ('\r', '\n')
    if prefix is not None and any(c in prefix for c in crlf):
        return 'prefix_crlf'
    if command is not None and any(c in _txt(command) for c in crlf):
        return 'command_crlf'
    if any('\n' in a for a in args):
        return 'arg_lf'
    if any('\r' in a for a in args):
        return 'arg_cr'
    if command is None:
        return 'command_none'
    command = _txt(command)
    if command == '':
        return 'command_empty'
    if ' ' in command:
        return 'command_sp'
    if command.startswith(':'):
        return 'command_leading_colon'
    if prefix is not None and ' ' in prefix:
        return 'prefix_sp'
    if any(' ' in a for a in args[:-1]):
        return 'arg_mid_sp'
    if any(a == '' for a in args[:-1]):
        return 'arg_mid_empty'
    if any(a.startswith(':') for a in args[:-1]):
        return 'arg_mid_leading_colon'
    if args and args[-1] == '':
        return 'arg_last_empty'
    if args and args[-1].startswith(':'):
        return 'arg_last_leading_colon'
    return 'unexplained'


def irc_witness(case, info, trace=None, badline=0):
    """Classify a failing IRC case: the block (command) and the phase (bytes(message)
    or the component's write) the first failing line belongs to, and for the wire
    phase the cause read off the message's fields."""
    blk = None
    for b in info.get('blocks') or []:
        if b['start'] <= max(badline, 1):
            blk = b
    phase = 'wire'
    if trace is not None and blk is not None:
        for ln in trace['lines'][blk['start'] - 1:badline]:
            if ln['k'] in ('wire', 'sent'):
                phase = ln['k']
    try:
        if phase == 'sent':
            cause = 'component_write'          # bytes(message) was fine, what the component wrote is not
        else:
            cause = irc_cause(blk) if blk is not None and blk['fields'] is not None else 'none'
    except Exception:        # never let the shape of what the code returns crash the harness
        cause = 'unexplained'
    b = case.get('bytes') or False
    nblk = (info.get('blocks') or []).index(blk) + 1 if blk is not None else 0
    return {'part': 'irc', 'via': 'raw' if case['call'] == 'raw' else 'constructor', 'cause': cause,
            'args_as': 'bytes' if b is True else 'mixed' if b else 'str', 'at': phase, 'command_no': nblk,
            'over_512': bool(blk is not None and blk['wire'] is not None and len(blk['wire']) > 512)}


def strs(tokens, maxlen):
    out = [[]]
    for n in range(1, maxlen + 1):
        out.extend(list(p) for p in itertools.product(tokens, repeat=n))
    return out


ARG_TOKENS = [CR, LF, A, M1, M2, SP, COLON, NUL]
HEAD_TOKENS = [CR, LF, A, SP, COLON, NUL]


FOLLOW = {'call': 'raw', 'prefix': None, 'command': [A], 'args': [[A]]}      # Message('a', 'a'), see IrcMsg.tla


def cases_of_model_case(cs, ctors):
    """a case chosen by IrcMsg.tla -> the concrete calls that realise it"""
    for case in _cases_of_model_case(cs, ctors):
        case['then'] = [dict(FOLLOW)]
        yield case


def _cases_of_model_case(cs, ctors):
    if cs['kind'] == 'raw':
        yield {'part': 'irc', 'call': 'raw', 'prefix': cs['p'] if cs['hp'] else None, 'command': cs['c'],
               'args': cs['args'], 'origin': 'tlc-history'}
    elif cs['kind'] == 'whois':
        yield {'part': 'irc', 'call': 'WHOIS', 'args': cs['args'] + ([cs['c']] if cs['hc'] else []),
               'origin': 'tlc-history'}
    else:
        k = len(cs['args'])
        for name, entry in ctors.items():
            if name != 'WHOIS' and k in arities(entry):
                yield {'part': 'irc', 'call': name, 'args': cs['args'], 'origin': 'tlc-history'}


def model_lines_for(out, call):
    word = call.encode() if call != 'raw' else b'CMD'
    res = []
    for ln in out:
        d = dict(ln)
        for key in ('p', 'c', 'w'):
            d[key] = subst_kw(ln[key], word)
        d['a'] = [subst_kw(a, word) for a in ln['a']]
        res.append(d)
    return res


def sweep_cases(ctors, quick, rnd):
    """enumerated constructor calls: every constructor x every arity x
    argument strings over the token alphabet (+ None for optional ones)."""
    one = strs(ARG_TOKENS, 1)
    two = strs(ARG_TOKENS, 2)
    for name, entry in ctors.items():
        fn, req, opt, var = entry
        for k in arities(entry):
            if k == 0:
                yield {'part': 'irc', 'call': name, 'args': [], 'origin': 'sweep'}
                continue
            pools = []
            for i in range(k):
                # quick: the leading arguments of calls with >= 3 arguments come from a smaller pool
                pool = list(one) if (not quick or i >= k - 2) else [[A], [SP], [COLON]]
                if i >= req and not var:
                    pool = pool + [None]
                pools.append(pool)
            for combo in itertools.product(*pools):
                yield {'part': 'irc', 'call': name, 'args': list(combo), 'origin': 'sweep'}
            # longer strings
            if k <= 2:
                if k == 1 or not quick:
                    for combo in itertools.product(*([two] * k)):
                        yield {'part': 'irc', 'call': name, 'args': list(combo), 'origin': 'sweep'}
                else:
                    for a in two:
                        yield {'part': 'irc', 'call': name, 'args': [[A], a], 'origin': 'sweep'}
                        yield {'part': 'irc', 'call': name, 'args': [a, [A, SP, A]], 'origin': 'sweep'}
    # raw messages: prefix / command strings of length <= 2, one benign argument list each
    heads = strs(HEAD_TOKENS, 2)
    for h in heads:
        for args in ([], [[A]], [[A], [A, SP, A]]):
            yield {'part': 'irc', 'call': 'raw', 'prefix': None, 'command': h, 'args': args, 'origin': 'sweep'}
            yield {'part': 'irc', 'call': 'raw', 'prefix': h, 'command': [KW], 'args': args, 'origin': 'sweep'}
    if not quick:
        for p in heads:
            for c in strs(HEAD_TOKENS, 1) + [[KW]]:
                for args in itertools.product(one, repeat=2):
                    yield {'part': 'irc', 'call': 'raw', 'prefix': p, 'command': c, 'args': list(args), 'origin': 'sweep'}


def long_cases(ctors, quick):
    """texts whose serialised message is around and beyond 512 bytes (the RFC 1459
    limit): ASCII words and multi-byte text, through constructors and a raw
    Message with a prefix, followed by one or two further commands in a row."""
    def ascii_text(n):
        t = []
        while len(t) < n:
            t += [A, A, A, A, SP]
        t = t[:n]
        if t and t[-1] == SP:
            t[-1] = A
        return t

    def mb_text(nbytes):
        t = [M1, M2] * (nbytes // 2)
        if nbytes % 2:
            t.insert(len(t) // 2 // 2 * 2, SP)
        return t

    def cut(t, n):
        t = t[:n]
        return t[:-1] if t and t[-1] == M1 else t

    nick = {'call': 'NICK', 'args': [[A, A]]} if 'NICK' in ctors else dict(FOLLOW)
    # PRIVMSG a :<text>\r\n = 13 + len(text) bytes: text lengths 485..520 put the message at 498..533
    dense = list(range(485, 521)) if quick else list(range(440, 600))
    sparse = [200, 400, 560, 600, 700, 1024] + ([] if quick else [2048, 5000])
    for n in dense + sparse:
        for kind, text in (('ascii', ascii_text(n)), ('utf8', mb_text(n))):
            if quick and kind == 'utf8' and n in dense and n % 3:
                continue
            calls = [c for c in ('PRIVMSG', 'TOPIC') if c in ctors]
            for j, call in enumerate(calls):
                if quick and n in dense and (n + j) % 2:
                    continue
                yield {'part': 'irc', 'call': call, 'args': [[100 + ord('#'), A], text], 'then': [dict(nick)],
                       'origin': 'long'}
            if n % 5 == 0 or not quick:
                yield {'part': 'irc', 'call': 'raw', 'prefix': tt(b'nick!user@host'), 'command': [KW],
                       'args': [[A], cut(text, max(0, n - 20))],
                       'then': [{'call': calls[-1], 'args': [[A], text]} if calls else dict(FOLLOW), dict(nick)],
                       'origin': 'long'}


def random_irc_case(rnd, ctors):
    case = _random_irc_case(rnd, ctors)
    if case['args'] and rnd.random() < 0.03:
        # a long last argument (around the 512-byte limit and beyond)
        n = rnd.choice([rnd.randint(480, 530), rnd.randint(300, 1200)])
        case['args'][-1] = [rnd.choice([A, A, A, SP, M1]) for _ in range(n)]
        case['args'][-1] = [t for x in case['args'][-1] for t in ((M1, M2) if x == M1 else (x,))]
        if isinstance(case.get('bytes'), list):
            case['bytes'] = False
    if rnd.random() < 0.2:
        case['then'] = [{k: v for k, v in _random_irc_case(rnd, ctors).items() if k not in ('part', 'origin')}
                        for _ in range(rnd.randint(1, 2))]
    return case


def _random_irc_case(rnd, ctors):
    def s(maxlen, pool):
        n = rnd.choice([0, 1, 1, 2, 3, 5, maxlen])
        out = []
        while len(out) < n:
            if rnd.random() < 0.1:
                out += [M1, M2]
            else:
                out.append(rnd.choice(pool))
        return out
    wild = [CR, LF, A, A, A, SP, COLON, NUL, 100 + ord('#'), 100 + ord('b'), 100 + ord('!'), 100 + ord('@')]
    tame = [A, A, A, 100 + ord('b'), 100 + ord('#'), COLON, NUL]
    pool = wild if rnd.random() < 0.5 else tame
    if rnd.random() < 0.35:
        prefix = None
        if rnd.random() < 0.7:
            prefix = s(6, pool) if rnd.random() < 0.5 else tt(b'nick!user@host') if rnd.random() < 0.5 else s(3, tame) + [133] + s(3, tame) + [164] + s(3, tame)
        command = s(6, pool) if rnd.random() < 0.5 else [KW]
        nargs = rnd.randint(0, 4)
        args = [s(8, pool) for _ in range(nargs)]
        if args and rnd.random() < 0.5:
            args[-1] = s(8, pool + [SP, SP, COLON])
        return {'part': 'irc', 'call': 'raw', 'prefix': prefix, 'command': command, 'args': args,
                'bytes': rnd.random() < 0.2, 'origin': 'random'}
    name = rnd.choice(sorted(ctors))
    entry = ctors[name]
    k = rnd.choice(list(arities(entry, maxvar=5)))
    args = [s(8, pool) for _ in range(k)]
    if args and rnd.random() < 0.5:
        args[-1] = s(8, pool + [SP, SP, COLON])
    for i in range(entry[1], k):
        if not entry[3] and rnd.random() < 0.2:
            args[i] = None
    mode = rnd.random()
    return {'part': 'irc', 'call': name, 'args': args,
            'bytes': True if mode < 0.2 else [rnd.random() < 0.5 for _ in args] if mode < 0.4 else False, 'origin': 'random'}


def mutate_irc_trace(rnd, trace):
    lines = [json.loads(json.dumps(ln)) for ln in trace['lines']]
    ks = [ln['k'] for ln in lines]
    if ks[:5] != ['msg', 'wire', 'parsed', 'sent', 'parsed']:
        return None
    how = rnd.choice(['inject', 'noterm', 'args', 'second', 'command', 'cut', 'twice', 'unread', 'peer'])
    if how == 'inject':
        i = rnd.choice([1, 3])
        w = lines[i]['w']
        pos = rnd.randint(0, len(w) - 2)
        lines[i]['w'] = w[:pos] + [rnd.choice([CR, LF])] + w[pos:]
        what = 'CR/LF inserted into the %s form' % lines[i]['k']
    elif how == 'noterm':
        lines[1]['w'] = lines[1]['w'][:-1]
        what = 'LF removed from the terminator'
    elif how == 'cut':
        lines[3]['w'] = lines[3]['w'][:-rnd.choice([1, 2])]
        what = 'written chunk cut before the end of the terminator'
    elif how == 'args':
        lines[2]['a'] = lines[2]['a'] + [[A]]
        what = 'extra parsed argument'
    elif how == 'peer':
        lines[4]['a'] = lines[4]['a'] + [[A]]
        what = 'extra argument parsed by the peer'
    elif how == 'command':
        lines[2]['c'] = lines[2]['c'] + [A]
        what = 'parsed command altered'
    elif how == 'twice':
        lines.insert(5, dict(lines[3]))
        lines.insert(6, dict(lines[4]))
        what = 'the component writes twice for one command'
    elif how == 'unread':
        del lines[4]
        what = 'the peer reads nothing for a written command'
    else:
        lines.insert(3, dict(lines[2]))
        what = 'second parsed line'
    return {'cfg': trace['cfg'], 'lines': lines}, what


# ---------------------------------------------------------------------------

def run_case(case, ctors=None):
    if case['part'] == 'line':
        return run_line_script(case['mode'], case['nsock'], case['script'], bool(case.get('blocks'))), None
    return run_irc_case(case, ctors)


def run_replay(path):
    rec = json.load(open(path))
    case = rec['detail']['case']
    trace, info = run_case(case)
    if case['part'] == 'line':
        verdicts, _ = tlc.validate_traces(SPEC, 'LinesTrace', 'LinesTrace.cfg', [trace], shards=1)
    else:
        verdicts, _ = tlc.validate_traces(SPEC, 'IrcMsgTrace', 'IrcMsgTrace.cfg', [trace], shards=1)
        print('call: %s  outcome: %s %s' % (case['call'], info['outcome'], info['error']))
        for n, b in enumerate(info['blocks'], 1):
            if b['fields'] is not None:
                print('command %d: fields prefix=%r command=%r args=%s' % ((n,) + tuple(b['fields'][:2]) + (repr(b['fields'][2])[:200],)))
                print('   bytes(message) (%d bytes): %s' % (len(b['wire']), repr(b['wire'])[:120] + ' ... ' + repr(b['wire'][-24:])))
                for d in b['sent']:
                    print('   written by the IRC component (%d bytes): ... %s' % (len(d), repr(d[-24:])))
            else:
                print('command %d: refused (%s)' % (n, b['error']))
    for i, ln in enumerate(trace['lines'], 1):
        print('%3d %s' % (i, str(ln)[:300]))
    clause, line = verdicts[0]
    if clause:
        print('VIOLATION property=C18 replay=%s clause=%s line=%d' % (path, clause, line))
        return 1
    print('replay accepted: no clause of C18 fails on this tree')
    return 0


def _maximal(hists):
    keys = {json.dumps(h): h for h in hists}
    prefixes = set()
    for h in keys.values():
        for i in range(len(h)):
            prefixes.add(json.dumps(h[:i]))
    return [keys[k] for k in sorted(set(keys) - prefixes)]


JVM = ('-Xmx4g', '-XX:ParallelGCThreads=2')


def run(tier, replay=None):
    use_repo()
    if replay:
        return run_replay(replay)
    ctx = Ctx('C18', tier)
    rnd = random.Random(ctx.seed * 7919 + 18)
    quick = tier == 'quick'
    sfx = '' if quick else '_thorough'
    ctors = ctor_table()
    t0 = time.time()

    def lap(what):
        if os.environ.get('C18_TIMING'):
            print('[c18 %6.1fs] %s' % (time.time() - t0, what), flush=True)

    # ------------------------------------------------------------------
    # 1. TLC jobs, side by side (a JVM start costs more than most of them)
    tmo = 600 if quick else 3000      # generous: a loaded machine must not turn into a machinery error

    def mc(module, cfg, workers, coverage=True):
        return lambda: tlc.model_check(SPEC, module, cfg, workers=workers, coverage=coverage, jvm_opts=JVM, timeout=tmo)

    lvars = ('variant', 'hist', 'out', 'bad')
    jobs = {
        'lines_server': mc('Lines', 'MC_Lines_server%s.cfg' % sfx, 4 if quick else 8, coverage=quick),
        'hist_irc': lambda: dump_vars('IrcMsg', 'HIST_IrcMsg%s.cfg' % sfx, ('variant', 'stage', 'cs', 'out', 'bad'), workers=4, timeout=tmo),
        'hist_server': lambda: dump_vars('Lines', 'HIST_Lines_server%s.cfg' % sfx, lvars, workers=2 if quick else 4, timeout=tmo),
    }
    # quick: HIST_IrcMsg.cfg has the bounds of MC_IrcMsg_strict_a.cfg and checks the same invariants
    # on its "strict" third, so that dump run *is* the exhaustive check of the reference serialiser
    if not quick:
        jobs['irc_strict_a'] = mc('IrcMsg', 'MC_IrcMsg_strict_a_thorough.cfg', 6, coverage=False)
        # (quick: the two-socket model contains the one-socket behaviours - reads of socket 1 only)
        # coverage statistics only on the smaller runs (they slow TLC down a lot)
        jobs['lines_client'] = mc('Lines', 'MC_Lines_client_thorough.cfg', 6, coverage=False)
        jobs['hist_client'] = lambda: dump_vars('Lines', 'HIST_Lines_client_thorough.cfg', lvars, workers=4, timeout=tmo)
        jobs['irc_strict_b'] = mc('IrcMsg', 'MC_IrcMsg_strict_b_thorough.cfg', 6, coverage=False)
        jobs['irc_strict_c'] = mc('IrcMsg', 'MC_IrcMsg_strict_c_thorough.cfg', 4, coverage=True)
        jobs['lines_server3'] = mc('Lines', 'MC_Lines_server3_thorough.cfg', 6, coverage=True)
    results = {}
    with ThreadPoolExecutor(max_workers=len(jobs)) as ex:
        futs = {name: ex.submit(fn) for name, fn in jobs.items()}
        for name, f in futs.items():
            results[name] = f.result()
    tres = {n: (v[0] if isinstance(v, tuple) else v) for n, v in results.items()}
    lap('tlc jobs: ' + ', '.join('%s %.0fs' % (n, r.wall_s) for n, r in tres.items()))

    mcs = [n for n in results if not n.startswith('hist_')] + ['hist_irc']
    for name in mcs:
        if not _COV.search(tres[name].out):
            continue                      # run without coverage statistics
        dead = dead_actions(tres[name])
        if dead:
            raise tlc.MachineryError('vacuous model (%s): never taken: %s' % (name, dead))
    mc_states = sum(tres[n].distinct for n in mcs)
    mc_trans = sum(tres[n].generated for n in mcs)

    # teeth: TLC's monitor must flag the defective variants somewhere in the dumps,
    # and must never flag the intended ones; the strict IRC serialiser must send
    teeth = {}
    lteeth = [('hist_server', 'code', {'shared': 'C18.cross_socket', 'persegment': 'C18.lines', 'capbuffer': 'C18.tail'})] if quick else \
        [('hist_client', 'code', {'persegment': 'C18.lines'}), ('hist_server', 'code', {'shared': 'C18.cross_socket', 'capbuffer': 'C18.tail'})]
    for job, good, defective in lteeth + [('hist_irc', 'strict', {'pinned': 'C18.extra_line', 'fixed': 'C18.roundtrip',
                                                                    'cut512': 'C18.no_terminator'})]:
        sts = results[job][1]
        if any(st['variant'] == good and st['bad'] for st in sts):
            raise tlc.MachineryError('%s: the monitor flags the "%s" variant of the model' % (job, good))
        for var, clause in defective.items():
            hits = sorted({st['bad'] for st in sts if st['variant'] == var and st['bad']})
            if clause not in hits:
                raise tlc.MachineryError('%s: TLC finds no %s in the "%s" variant (found %s): the model lost its teeth'
                                         % (job, clause, var, hits))
            teeth[var] = hits
    # every action of IrcMsg.tla is alive in every variant: finished cases with arguments, sent and refused
    for var in ('pinned', 'fixed', 'strict', 'cut512'):
        done = [st for st in results['hist_irc'][1] if st['variant'] == var and st['stage'] == 'done']
        sent = sum(1 for st in done if any(ln['k'] == 'wire' for ln in st['out']))
        if not done or sent == 0 or sent == len(done) or not any(len(st['cs']['args']) >= 2 for st in done):
            raise tlc.MachineryError('IrcMsg.tla variant %s is vacuous: %d cases, %d sent' % (var, len(done), sent))

    # ------------------------------------------------------------------
    # 2. line protocol: replay of TLC histories, enumerated cuts, random
    line_cases = []      # (case, model_out or None)
    n_hist = 0
    sources = [('hist_server', 'server', 2)]
    sources.append(('hist_server', 'client', 1) if quick else ('hist_client', 'client', 1))
    for name, mode, nsock in sources:
        states = [st for st in results[name][1] if st['variant'] == 'code' and all(s <= nsock for s, _ in st['hist'])]
        outs = {json.dumps(st['hist']): st['out'] for st in states}
        for h in _maximal([st['hist'] for st in states]):
            n_hist += 1
            script = [[[s, seg]] for s, seg in h]
            line_cases.append(({'part': 'line', 'mode': mode, 'nsock': nsock, 'script': script, 'origin': 'tlc-history'},
                               outs[json.dumps(h)]))
            if mode == 'client':
                # the same single-socket history through the server-mode code path
                line_cases.append(({'part': 'line', 'mode': 'server', 'nsock': 1, 'script': script, 'origin': 'tlc-history'},
                                   outs[json.dumps(h)]))
    nasty = [CR, LF, A, CR, CR, LF, M1, M2, CR] + ([] if quick else [LF, A, LF, CR])
    for mode in ('client', 'server'):
        for c in all_cuts_cases(nasty, mode):
            line_cases.append((c, None))
    n_long_lines = 0
    for c in long_line_cases(quick):
        line_cases.append((c, None))
        n_long_lines += 1
    for _ in range(300 if quick else 2000):
        line_cases.append((random_line_case(rnd, quick), None))
    lap('line cases built: %d' % len(line_cases))

    line_traces = []
    n_cmp = n_match = 0
    for case, mout in line_cases:
        trace, _ = run_case(case)
        line_traces.append((case, trace))
        if mout is not None:
            n_cmp += 1
            real = trace['lines'][:-(case['nsock'] + 1)]   # without the final tails + end
            if real == mout:
                n_match += 1
            else:
                ctx.note_drift('Line (%s) trace differs from the lines of Lines.tla for history %s' % (case['mode'], case['script']))
    lap('line cases run')

    # ------------------------------------------------------------------
    # 3. IRC: replay of the model's cases, enumerated sweep, random
    irc_runs = []        # (case, trace, info)
    seen = set()

    def add_irc(case):
        key = json.dumps([case['call'], case.get('prefix'), case.get('command'), case['args'], case.get('bytes') or False,
                          case.get('then') or []])
        if key in seen:
            return None
        seen.add(key)
        trace, info = run_irc_case(case, ctors)
        irc_runs.append((case, trace, info))
        return trace

    n_icmp = n_imatch = n_models = 0
    by_case = defaultdict(dict)
    for st in results['hist_irc'][1]:
        if st['stage'] == 'done':
            by_case[json.dumps(st['cs'], sort_keys=True)][st['variant']] = st
    for key in sorted(by_case):
        vs = by_case[key]
        n_models += 1
        cs = vs['pinned']['cs']
        variants = []
        for case in cases_of_model_case(cs, ctors):
            variants.append(case)
            if any(case['args']):
                # the same argument strings handed over as bytes (Message accepts both)
                variants.append(dict(case, bytes=True))
                if len(case['args']) > 1:
                    variants.append(dict(case, bytes=[i == len(case['args']) - 1 for i in range(len(case['args']))]))
        for case in variants:
            trace = add_irc(case)
            if trace is None:
                continue
            n_icmp += 1
            # the tree under test is the pinned one or the one with the proposed fix
            if any(trace['lines'] == model_lines_for(vs[v]['out'], case['call']) for v in ('pinned', 'fixed')):
                n_imatch += 1
            else:
                ctx.note_drift('IRC case %s %s: real lines differ from IrcMsg.tla (pinned and fixed variants)'
                               % (case['call'], {k: case.get(k) for k in ('prefix', 'command', 'args')}))
    for n, case in enumerate(sweep_cases(ctors, quick, rnd)):
        add_irc(case)
        if any(case['args']) and n % 3 == 0:
            add_irc(dict(case, bytes=True))
    for case in long_cases(ctors, quick):
        add_irc(case)
    for _ in range(1500 if quick else 30000):
        add_irc(random_irc_case(rnd, ctors))
    lap('irc cases run: %d' % len(irc_runs))

    # ------------------------------------------------------------------
    # 4. TLC judges everything recorded.  Binding demonstration in the same
    #    batch: a corrupted copy of some traces; where the original is accepted
    #    the corrupted one must be rejected.
    def with_mutants(traces, mutate, nm):
        idx = list(range(len(traces)))
        rnd.shuffle(idx)
        muts = []
        for i in idx:
            if len(muts) >= nm:
                break
            m = mutate(rnd, traces[i])
            if m:
                muts.append((i, m[0], m[1]))
        return muts

    nm = 150 if quick else 600
    lt = [t for _, t in line_traces]
    it = [t for _, t, _ in irc_runs]
    lm = with_mutants(lt, mutate_line_trace, nm)
    im = with_mutants(it, mutate_irc_trace, nm)
    with ThreadPoolExecutor(max_workers=2) as ex:
        fl = ex.submit(tlc.validate_traces, SPEC, 'LinesTrace', 'LinesTrace.cfg', lt + [m[1] for m in lm],
                       shards=3 if quick else 10, jvm_opts=JVM, timeout=tmo)
        fi = ex.submit(tlc.validate_traces, SPEC, 'IrcMsgTrace', 'IrcMsgTrace.cfg', it + [m[1] for m in im],
                       shards=2 if quick else 8, jvm_opts=JVM, timeout=tmo)
        lv, lstats = fl.result()
        iv, istats = fi.result()
    lap('traces judged: lines %.0fs, irc %.0fs' % (lstats['wall_s'], istats['wall_s']))
    for name, verd, n, muts in (('LinesTrace', lv, len(lt), lm), ('IrcMsgTrace', iv, len(it), im)):
        tested = 0
        for (i, _, what), (clause, _) in zip(muts, verd[n:]):
            if verd[i][0]:
                continue        # the original is itself rejected: no demonstration
            tested += 1
            if not clause:
                raise tlc.MachineryError('%s accepted a corrupted trace (%s)' % (name, what))
        if tested == 0:
            raise tlc.MachineryError('%s: no accepted trace could be corrupted' % name)
        ctx.coverage['corrupted_traces_rejected_' + name] = tested
    lv, iv = lv[:len(lt)], iv[:len(it)]

    for (case, trace), (clause, line) in zip(line_traces, lv):
        nontrivial = any(ln['k'] == 'line' for ln in trace['lines']) or sum(len(st) for st in case['script']) > 1
        ctx.count_case(case, nontrivial, sample={'case': case, 'trace': trace['lines'][:10], 'verdict': clause or 'accepted'}
                       if case['origin'] == 'random' else None)
        if clause:
            ctx.violation(clause, line_witness(case, trace, line), {'case': case, 'trace': trace, 'line': line})
    n_sent = n_rej = n_written = n_over512 = n_multi = 0
    for (case, trace, info), (clause, line) in zip(irc_runs, iv):
        sent = info['outcome'] == 'sent'
        n_sent += sent
        n_rej += not sent
        n_written += sum(len(b['sent']) for b in info['blocks'])
        n_over512 += sum(1 for b in info['blocks'] if b['sent'] and b['wire'] is not None and len(b['wire']) > 512)
        n_multi += sum(1 for b in info['blocks'] if b['sent']) > 1
        ctx.count_case({k: v for k, v in case.items() if k != 'origin'}, sent,
                       sample={'case': case, 'wire': repr(info['wire']), 'verdict': clause or 'accepted'}
                       if (case['origin'] == 'sweep' and sent and len(case['args']) > 1) else None)
        if clause:
            ctx.violation(clause, irc_witness(case, info, trace, line),
                          {'case': case, 'fields': repr(info['fields'])[:400], 'wire': repr(info['wire'])[:400],
                           'written': [repr(d)[-60:] for b in info['blocks'] for d in b['sent']], 'trace': trace, 'line': line})
    if n_sent == 0 or n_rej == 0:
        raise tlc.MachineryError('IRC cases: %d serialised, %d refused - the enumeration lost one side' % (n_sent, n_rej))
    if n_written == 0 or n_over512 == 0 or n_multi == 0:
        raise tlc.MachineryError('IRC component path not exercised: %d writes for %d serialised cases, %d over 512 bytes, '
                                 '%d cases with several commands in a row' % (n_written, n_sent, n_over512, n_multi))
    lap('verdicts processed')

    return ctx.finish(coverage={
        'states': mc_states, 'transitions': mc_trans,
        'tlc_runs': {n: {'distinct': r.distinct, 'generated': r.generated, 'wall_s': round(r.wall_s, 1)} for n, r in tres.items()},
        'traces_validated_against_impl': len(line_traces) + len(irc_runs),
        'line_traces': len(line_traces), 'long_line_cases': n_long_lines, 'irc_cases': len(irc_runs),
        'irc_serialised': n_sent, 'irc_refused': n_rej,
        'irc_component_writes': n_written, 'irc_writes_of_messages_over_512_bytes': n_over512,
        'irc_cases_with_commands_in_a_row': n_multi,
        'constructors': sorted(ctors),
        'model_histories_replayed': n_hist + n_models,
        'model_line_exact_match': n_match + n_imatch, 'model_line_compared': n_cmp + n_icmp,
        'trace_validation_states': lstats['states'] + istats['states'],
        'teeth_clauses_found_by_tlc_in_defective_variants': teeth,
        'rule': 'cases = (a) line protocol: (mode, sockets, script of read events) from every maximal environment history TLC '
                'dumps for Lines.tla, all cuts of a fixed stream, seeded random streams/cuts/interleavings/bursts; non-trivial = at '
                'least one line event or more than one read; (b) IRC: (call, prefix, command, args) from every case of IrcMsg.tla, '
                'every constructor of commands.py x arity x argument strings over the token alphabet, raw Message prefix/command '
                'strings, seeded random; non-trivial = the code serialised the message (refusals are allowed and counted apart); '
                'distinct by hash of the case',
        'exhaustive': False,
    }, assumptions=[
        'bytes outside the token alphabet (CR LF a 0xC3 0xA9 SP : NUL) appear only in the random part and in constructor names',
        'the reader used for the round trip is the repository\'s own: splitLines + parsemsg (what IRC.line does)',
        'an absent prefix and an empty prefix are not distinguished (the parser cannot)',
        'read events are delivered through Manager.fire/tick in one thread; the Line component has no other input',
    ])
