"""C12 - every connection: one connect, ordered reads, one disconnect, then no trace.

Pipeline (DESIGN 5/C12, design.d/C12.md):
  1. TLC checks spec/io/Conn.tla exhaustively (peer / application actions on up
     to NConn connections, Settle = the loop run to quiescence, shaped like
     Server.write/close/_accept/_read/_on_write/_close) against the C12 monitor
     of ConnOps and the direct invariant NoTrace, for Select, Poll, EPoll and
     TCP / AF_UNIX; with the deviations of the pinned code switched on
     (Defects) the model must violate C12.residue and C12.lifecycle.
  2. TLC dumps every environment history up to the bound; a seeded, stratified
     sample (all shapes of counterexample first) is replayed on the REAL
     TCPServer and UNIXServer under the REAL Select, Poll and EPoll with real
     peer sockets on loopback / AF_UNIX paths under .work (harness/drivers/
     c12_world.py: the Manager is never started, every wait has timeout 0).
  3. The three pollers' lines of one history form one trace; TLC judges all
     traces with spec/io/ConnTrace.tla (same monitor), incl. C12.poller_disagree.
     Seeded random longer histories (3 connections, large payloads) likewise.
  4. TCPClient / UNIXClient against a raw listening socket: C12.client_pairs.
  5. The model's lines are compared with the real ones (drift); corrupted real
     traces must be rejected.
"""

import json
import os
import random
import re
import shutil
import sys

from .. import tlc
from ..core import Ctx, use_repo, VERIF

SPEC = 'spec/io'
POLLERS = ['select', 'poll', 'epoll']
FAMS = ['tcp', 'unix']
EVENTS = ('connect', 'read', 'disconnect', 'error')
PINNED = ['latewrite', 'lateclose', 'onwrite', 'epollmap', 'acceptreset']
# short TLC runs on a shared machine: few GC threads, no C2 compilation
JVM_SHORT = ('-Xmx3g', '-XX:ParallelGCThreads=2', '-XX:TieredStopAtLevel=1')


def W():
    from . import c12_world
    return c12_world


def line(k, p='', c=0, a=0, b=0, t=''):
    return {'k': k, 'p': p, 'c': c, 'a': a, 'b': b, 't': t}


# ---------------------------------------------------------------------------
# replay

def replay_history(hist, fam, pollers=POLLERS, scale=1):
    """One history on every poller -> (combined trace, per-poller step lines, notes)."""
    w = W()
    runs = {p: w.run_history(p, fam, hist, scale) for p in pollers}
    n = len(runs[pollers[0]][0])
    lines = []
    for i in range(n):
        for p in pollers:
            lines += runs[p][0][i]
        lines.append(line('endstep'))
    notes = []
    for p in pollers:
        notes += ['%s: %s' % (p, x) for x in runs[p][1][:6]]
    return lines, {p: runs[p][0] for p in pollers}, notes


def only(lines, p):
    return [ln for ln in lines if ln['p'] == p]


def norm(lines):
    """Normal form of one world's lines for comparing the model with the code:
    per settle, per connection: connect / total bytes read / disconnect /
    tables holding the dead socket.  What real sockets leave open is dropped:
    read segmentation, error events, the order of events of different
    connections, and - for a connection that may have been aborted - how many
    bytes got through, whether a connect was announced and which tables the
    error path went through."""
    out = []
    dirty, gone = set(), set()
    env = []
    block = {}
    for ln in lines:
        k, c = ln['k'], ln['c']
        if k in ('pconnect', 'psend', 'pshut', 'pclose', 'preset', 'pstop', 'swrite', 'sclose', 'lwrite', 'lclose'):
            env.append((k, c, ln['a'] if k == 'pclose' else 0))
            if k == 'preset' or (k == 'pclose' and ln['a'] == 1):
                dirty.add(c)
            if k in ('pclose', 'preset'):
                gone.add(c)
            if k in ('swrite', 'lwrite') and c in gone:
                dirty.add(c)
        elif k in EVENTS or k == 'residue':
            e = block.setdefault(c, {'connect': 0, 'read': 0, 'disconnect': 0, 'residue': set()})
            if k == 'read':
                e['read'] += ln['b']
            elif k == 'residue':
                e['residue'].add(ln['t'])
            elif k != 'error':
                e[k] += 1
        elif k == 'quiet':
            row = []
            for c in sorted(block):
                e = block[c]
                if c in dirty:
                    if e['disconnect']:
                        row.append((c, 'aborted', e['disconnect']))
                else:
                    row.append((c, e['connect'], e['read'], e['disconnect'], tuple(sorted(e['residue']))))
            out.append((tuple(env), tuple(row)))
            env, block = [], {}
    if env:
        out.append((tuple(env), ()))
    return out


# ---------------------------------------------------------------------------
# TLC state dump: only kind, fam, hist, out, bad of every state

def dump_histories(cfg, timeout=3000, workers=4, jvm_opts=JVM_SHORT):
    wd = tlc.workdir('dump')
    dump = os.path.join(wd, 'states')
    try:
        res = tlc.run_tlc(SPEC, 'Conn', cfg, timeout=timeout, workers=workers, extra=['-dump', dump], jvm_opts=jvm_opts)
        if res.violated:
            raise tlc.MachineryError('model Conn (%s) violates %s:\n%s' % (cfg, res.violated, res.out[-3000:]))
        with open(dump + '.dump') as f:
            text = f.read()
        model, bads, cover = {}, {}, {}
        need = ('kind', 'fam', 'hist', 'out', 'bad')
        absvars = ('pst', 'rdg', 'acc', 'pend', 'kfin', 'krst', 'sw', 'sv', 'T', 'evq')
        rx = re.compile(r'^/\\ (\w+) = ', re.M)
        hdr = re.compile(r'^State \d+:.*$', re.M)
        heads = [m.end() for m in hdr.finditer(text)] + [len(text)]
        for a, b in zip(heads, heads[1:]):
            block = text[a:b]
            ms = list(rx.finditer(block))
            raw = {}
            for i, m in enumerate(ms):
                end = ms[i + 1].start() if i + 1 < len(ms) else len(block)
                raw[m.group(1)] = (m.end(), end)
            if any(v not in raw for v in need + absvars):
                raise tlc.MachineryError('state dump not understood near offset %d' % a)
            cur = {v: tlc.tlaval.parse_prefix(block, raw[v][0])[0] for v in need}
            h = hkey(cur['hist'])
            key = (cur['kind'], cur['fam'], h)
            model[key] = cur['out']
            if cur['bad']:
                bads[key] = cur['bad']
            # state cover: the shortest history reaching each distinct model state (monitor and history aside)
            ak = (cur['kind'], cur['fam']) + tuple(' '.join(block[raw[v][0]:raw[v][1]].split()) for v in absvars)
            if ak not in cover or (len(h), repr(h)) < (len(cover[ak]), repr(cover[ak])):
                cover[ak] = h
        if len(model) != res.distinct:
            raise tlc.MachineryError('state dump not understood: %d states read, TLC reported %d' % (len(model), res.distinct))
        return res, model, bads, set(cover.values())
    finally:
        shutil.rmtree(wd, ignore_errors=True)


def hkey(h):
    return tuple((x[0], x[1], x[2]) for x in h)


def maximal(keys):
    keys = set(keys)
    prefixes = set()
    for k in keys:
        for i in range(len(k)):
            prefixes.add(k[:i])
    return sorted(keys - prefixes, key=repr)


# ---------------------------------------------------------------------------
# seeded random longer histories (3 connections, large payloads)

def random_history(rnd, maxlen, nconn=3):
    h = []
    st = {}           # c -> dict(peer: idle/open/shut/closed, acc: accepted & seen connected, disc)
    for c in range(1, nconn + 1):
        st[c] = {'peer': 'idle', 'conn': False, 'disc': False, 'settled': False, 'reading': True}
    n = rnd.randint(4, maxlen)
    since = 0
    while len(h) < n:
        c = rnd.randint(1, nconn)
        s = st[c]
        r = rnd.random()
        if since and (r < 0.28 or since >= 4):
            h.append(('settle', 0, 0))
            since = 0
            for d in st.values():
                if d['peer'] != 'idle':
                    d['settled'] = True
            continue
        ops = []
        if s['peer'] == 'idle':
            if all(st[d]['peer'] != 'idle' for d in range(1, c)):
                ops += ['connect'] * 4
        else:
            alive = s['peer'] in ('open', 'shut')
            if s['peer'] == 'open':
                ops += ['send'] * 4 + ['shut']
            if alive:
                ops += ['close', 'close', 'reset']
                if s['reading']:
                    ops += ['stop']
            if s['settled']:
                ops += ['swrite', 'swrite', 'sclose']
        if not ops:
            continue
        op = rnd.choice(ops)
        arg = 0
        if op == 'connect':
            s['peer'] = 'open'
        elif op == 'send':
            arg = rnd.choice([1, 3, 100, 4096, 5000, 12000, 70000])
        elif op == 'shut':
            s['peer'] = 'shut'
        elif op in ('close', 'reset'):
            s['peer'] = 'closed'
        elif op == 'stop':
            s['reading'] = False
        elif op == 'swrite':
            arg = rnd.choice([1, 1, 2])
        h.append((op, c, arg))
        since += 1
    return h


# ---------------------------------------------------------------------------
# client components

def client_scripts(rnd, n, fam):
    """Scripts for TCPClient / UNIXClient against a raw listening socket.
    ops: connect, ssend n (the raw peer sends), sfin (peer closes), srst (peer
    aborts), cwrite n, cclose, settle."""
    fixed = [
        ['connect', 'settle', ('ssend', 5), 'settle', 'sfin', 'settle'],
        ['connect', 'settle', 'cclose', 'settle'],
        ['connect', 'settle', 'srst', 'settle'],
        ['connect', 'settle', ('cwrite', 3), 'cclose', 'settle'],
        ['connect', 'settle', ('cwrite', 200000), 'cclose', 'settle'],
        ['connect', 'settle', ('cwrite', 200000), 'srst', 'settle'],
        ['connect', 'settle', ('ssend', 9000), 'sfin', 'settle', 'cclose', 'settle'],
        ['connect', 'settle', 'cclose', 'cclose', 'settle', 'sfin', 'settle'],
        ['connect', 'settle', 'sfin', 'cclose', 'settle'],
        ['connect', 'settle', ('cwrite', 10), 'sfin', ('cwrite', 10), 'settle'],
        ['cclose', 'settle', 'connect', 'settle', 'sfin', 'settle'],
    ]
    if fam == 'tcp':
        fixed += [
            ['connect', 'settle', 'sfin', 'settle', 'connect', 'settle', 'cclose', 'settle'],
            ['connect', 'settle', 'cclose', 'settle', 'connect', 'settle', 'srst', 'settle', 'connect', 'settle'],
        ]
    out = [list(s) for s in fixed]
    while len(out) < n:
        s = ['connect', 'settle']
        up = True
        for _ in range(rnd.randint(1, 7)):
            r = rnd.random()
            if not up:
                if fam == 'tcp' and r < 0.5:
                    s += ['connect', 'settle']
                    up = True
                else:
                    s.append(rnd.choice(['cclose', 'settle']))
                continue
            if r < 0.25:
                s.append(('ssend', rnd.choice([1, 100, 5000, 40000])))
            elif r < 0.45:
                s.append(('cwrite', rnd.choice([1, 100, 5000, 200000])))
            elif r < 0.6:
                s.append('settle')
            elif r < 0.75:
                s += ['sfin']
                up = False
            elif r < 0.85:
                s += ['srst']
                up = False
            else:
                s += ['cclose']
                up = False
        s.append('settle')
        out.append(s)
    return out


def run_client_script(pname, fam, script):
    from . import c12_client
    return c12_client.run_script(pname, fam, script)


# ---------------------------------------------------------------------------
# classification of a failure (known findings are matched on this)

def witness_of(lines, badline, clause, fam):
    ln = lines[badline - 1]
    p, c = ln['p'], ln['c']
    w = {'family': fam, 'poller': p or 'all', 'line': ln['k']}
    if ln['k'] == 'endstep' or ln['k'].startswith('c') and ln['k'] != 'connect':
        return w
    mine = [l for l in lines[:badline] if l['p'] == p]
    phase = 'none'
    late_write = late_close = wrote = errored = close_req = False
    aborted_before_accept = False
    nsettle = 0
    connected_at = None
    for l in mine[:-1]:
        if l['k'] == 'quiet':
            nsettle += 1
        if l['c'] != c:
            continue
        k = l['k']
        if k == 'pconnect':
            connected_at = nsettle
        elif k == 'preset' and phase == 'none' and connected_at == nsettle:
            aborted_before_accept = True
        elif k == 'connect':
            phase = 'connected'
        elif k == 'disconnect':
            phase = 'disconnected'
        elif k == 'error':
            errored = True
        elif k == 'swrite':
            wrote = True
            late_write = late_write or close_req      # handled after the close of the same batch
        elif k == 'sclose':
            late_close = late_close or close_req
            close_req = True
        elif k == 'lwrite':
            late_write = True
        elif k == 'lclose':
            late_close = True
    w['phase'] = phase
    if clause == 'C12.residue':
        j = badline - 1
        tabs = set()
        while j < len(lines) and not (lines[j]['k'] == 'quiet' and lines[j]['p'] == p):
            if lines[j]['k'] == 'residue' and lines[j]['p'] == p and lines[j]['c'] == c:
                tabs.add(lines[j]['t'])
            j += 1
        j = badline - 2
        while j >= 0 and lines[j]['k'] == 'residue':
            if lines[j]['p'] == p and lines[j]['c'] == c:
                tabs.add(lines[j]['t'])
            j -= 1
        w['table'] = ln['t']
        w['buffered_bytes'] = ln['a']
        w['tables_at_that_point'] = ','.join(sorted(tabs))
        w['late_write'] = late_write
        w['late_close'] = late_close
        w['error_while_writing'] = wrote and errored
    if clause == 'C12.lifecycle':
        w['aborted_before_accept'] = aborted_before_accept
    return w


# ---------------------------------------------------------------------------
# corrupted traces (binding demonstration)

def corrupt(rnd, lines):
    """Corrupt a real trace so that a new failure must be reported:
    (lines, description, acceptable clauses, line number of the failure or 0,
    (world, connection) of the failure or None), or None."""
    out = [dict(l) for l in lines]
    idx = {k: [i for i, l in enumerate(lines) if l['k'] == k] for k in ('connect', 'read', 'disconnect', 'quiet', 'cdisconnected')}
    if idx['cdisconnected']:
        i = rnd.choice(idx['cdisconnected'])
        out.insert(i, dict(out[i]))
        return out, 'cdisconnected twice at line %d' % (i + 1), ('C12.client_pairs',), i + 2, None
    if any(l['k'] in ('cconnected', 'cquiet') for l in lines):
        return None
    announced = {(l['p'], l['c']) for l in lines if l['k'] == 'connect'}
    discs = [i for i in idx['disconnect'] if (lines[i]['p'], lines[i]['c']) in announced]
    how = rnd.choice(['dup_disc', 'dup_read', 'shift_read', 'drop_connect', 'late_read', 'residue', 'drop_disc'])
    if how == 'dup_disc' and discs:
        i = rnd.choice(discs)
        out.insert(i + 1, dict(out[i]))
        return out, 'disconnect twice at line %d' % (i + 1), ('C12.disconnect_count',), i + 2, None
    if how == 'dup_read' and idx['read']:
        i = rnd.choice(idx['read'])
        out.insert(i + 1, dict(out[i]))
        return out, 'read twice at line %d' % (i + 1), ('C12.read_gap',), i + 2, None
    if how == 'shift_read' and idx['read']:
        i = rnd.choice(idx['read'])
        out[i]['a'] += 1
        return out, 'read offset +1 at line %d' % (i + 1), ('C12.read_gap',), i + 1, None
    if how == 'drop_connect' and idx['connect']:
        i = rnd.choice(idx['connect'])
        p, c = out[i]['p'], out[i]['c']
        if any(l['p'] == p and l['c'] == c and l['k'] in ('read', 'disconnect') for l in lines[i + 1:]):
            del out[i]
            return out, 'connect dropped at line %d' % (i + 1), ('C12.lifecycle',), 0, (p, c)
    if how == 'late_read' and discs:
        i = rnd.choice(discs)
        out.insert(i + 1, line('read', out[i]['p'], out[i]['c'], 0, 1))
        return out, 'read after disconnect at line %d' % (i + 1), ('C12.lifecycle',), i + 2, None
    if how == 'residue' and discs:
        i = rnd.choice(discs)
        p, c = out[i]['p'], out[i]['c']
        q = [j for j in idx['quiet'] if j > i and lines[j]['p'] == p]
        if q:
            out.insert(q[0], line('residue', p, c, 0, 0, '_clients'))
            return out, '_clients residue before line %d' % (q[0] + 1), ('C12.residue',), q[0] + 1, None
    if how == 'drop_disc':
        # where the peer closed or aborted, the missing disconnect must be noticed at quiescence
        for i in discs:
            p, c = out[i]['p'], out[i]['c']
            if any(l['k'] in ('pclose', 'preset') and l['p'] == p and l['c'] == c for l in lines[:i]):
                del out[i]
                return out, 'disconnect dropped at line %d' % (i + 1), ('C12.disconnect_count',), 0, None
    return None


def corruption_noticed(m, verdict):
    out, desc, clauses, at, pc = m
    for clause, ln in verdict:
        if clause not in clauses:
            continue
        if at and ln != at:
            continue
        if pc and (out[ln - 1]['p'], out[ln - 1]['c']) != pc:
            continue
        return True
    return False


# ---------------------------------------------------------------------------

def judge(traces, shards, timeout=1800):
    """Judge traces with ConnTrace.  Returns (verdicts, stats): verdicts[i] =
    list of (clause, line number) - every distinct failure of the trace, in
    order; [] = accepted."""
    import time as _time
    from concurrent.futures import ThreadPoolExecutor
    n = len(traces)
    if n == 0:
        return [], {'states': 0, 'wall_s': 0.0, 'shards': 0}
    shards = max(1, min(shards, (n + 7) // 8))
    chunks = [list(range(i, n, shards)) for i in range(shards)]
    wd = tlc.workdir('tv')
    t0 = _time.time()
    try:
        def one(k):
            idxs = chunks[k]
            path = os.path.join(wd, 'traces%d.json' % k)
            with open(path, 'w') as f:
                json.dump([traces[i] for i in idxs], f)
            res = tlc.run_tlc(SPEC, 'ConnTrace', 'ConnTrace.cfg', workers=1, timeout=timeout, env={'TRACE_FILE': path},
                              jvm_opts=JVM_SHORT)
            if res.violated:
                raise tlc.MachineryError('trace spec ConnTrace reported %s (it must be total):\n%s' % (res.violated, res.out[-3000:]))
            part = {}
            for m in tlc._VERDICT.finditer(res.out):
                try:
                    v, _ = tlc.tlaval.parse_prefix(res.out, m.start())
                except tlc.tlaval.TlaParseError:
                    continue
                if isinstance(v, list) and len(v) >= 5:
                    first = [(v[2], v[3])] if v[2] else []
                    rest = [(x[0], x[1]) for x in v[4]]
                    if first and first[0] not in rest:
                        rest = first + rest
                    part[idxs[v[1] - 1]] = rest
            missing = [i for i in idxs if i not in part]
            if missing:
                raise tlc.MachineryError('trace spec ConnTrace gave no verdict for %d traces:\n%s' % (len(missing), res.out[-3000:]))
            return res, part

        verdicts = [None] * n
        states = 0
        with ThreadPoolExecutor(max_workers=shards) as ex:
            for res, part in ex.map(one, range(shards)):
                states += res.distinct
                for i, v in part.items():
                    verdicts[i] = v
        return verdicts, {'states': states, 'wall_s': _time.time() - t0, 'shards': shards}
    finally:
        shutil.rmtree(wd, ignore_errors=True)


def fmt(ln):
    s = '%s %s c=%d' % (ln['p'] or '-', ln['k'], ln['c'])
    if ln['a'] or ln['b']:
        s += ' a=%d b=%d' % (ln['a'], ln['b'])
    if ln['t']:
        s += ' ' + ln['t']
    return s


def run_replay(path):
    rec = json.load(open(path))
    d = rec['detail']
    if d.get('kind') == 'client':
        lines, notes = run_client_script(d['poller'], d['family'], [tuple(x) if isinstance(x, list) else x for x in d['script']])
    else:
        lines, _, notes = replay_history([tuple(x) for x in d['hist']], d['family'], d.get('pollers') or POLLERS, d.get('scale', 1))
    verdicts, _ = judge([lines], 1)
    for i, l in enumerate(lines, 1):
        print('%3d %s' % (i, fmt(l)))
    for n in notes:
        print('note:', n)
    if verdicts[0]:
        for clause, ln in verdicts[0]:
            print('VIOLATION property=C12 replay=%s clause=%s line=%d %s witness=%s' % (
                path, clause, ln, fmt(lines[ln - 1]), json.dumps(witness_of(lines, ln, clause, d['family']), sort_keys=True)))
        return 1
    print('replay accepted: no clause of C12 fails on this tree')
    return 0


def run(tier, replay=None):
    use_repo()
    if replay:
        return run_replay(replay)
    ctx = Ctx('C12', tier)
    rnd = random.Random(ctx.seed * 7919 + 12)
    quick = tier == 'quick'
    nfd0 = len(os.listdir('/proc/self/fd'))
    phases = {}
    import time as _time      # reporting only: no verdict depends on it
    t_last = [_time.time()]

    def phase(name):
        now = _time.time()
        phases[name] = round(now - t_last[0], 1)
        t_last[0] = now
        if os.environ.get('VERIF_DEBUG'):
            print('C12 phase %-10s %6.1fs' % (name, phases[name]), file=sys.stderr)

    # 1. the property on the design.  Intended algorithm (Defects = {}): every history up to the bound,
    #    all invariants (quick: the dump run itself is the exhaustive check; thorough: deeper bounds
    #    with a VIEW, 2 and 3 connections).  Pinned algorithm: must violate C12.residue and
    #    C12.lifecycle in the model (thorough: every deviation on its own must).
    res_f, model_f, bads_f, _ = dump_histories('HIST_Conn_fixed.cfg' if quick else 'HIST_Conn_fixed_thorough.cfg')
    if bads_f:
        raise tlc.MachineryError('the intended algorithm of Conn.tla violates %r' % (sorted(set(bads_f.values())),))
    mc_states, mc_trans = res_f.distinct, res_f.generated
    seen_ops = {x[0] for k in model_f for x in k[2]}
    for op in ('connect', 'send', 'shut', 'close', 'reset', 'stop', 'swrite', 'sclose', 'lwrite', 'lclose', 'settle'):
        if op not in seen_ops:
            raise tlc.MachineryError('vacuous model: operation %s never taken' % op)
    phase('mc')
    single = {}
    if not quick:
        for cfg in ('MC_Conn_thorough.cfg', 'MC_Conn_thorough3.cfg'):
            mc = tlc.model_check(SPEC, 'Conn', cfg, workers=8, timeout=6000)
            mc_states += mc.distinct
            mc_trans += mc.generated
        for d in PINNED:
            r = tlc.run_tlc(SPEC, 'Conn', 'MC_Conn_%s.cfg' % d, workers=4, timeout=3000, jvm_opts=JVM_SHORT)
            if r.violated != 'Conforms':
                raise tlc.MachineryError('MC_Conn_%s.cfg: expected a violation of Conforms, got %r' % (d, r.violated))
            single[d] = [st.get('bad') for _, st in r.error_trace][-1] if r.error_trace else 'Conforms'
        phase('mc_thorough')
    res, model, bads, cover = dump_histories('HIST_Conn.cfg' if quick else 'HIST_Conn_thorough.cfg')
    teeth = sorted(set(bads.values()))
    if 'C12.residue' not in teeth or 'C12.lifecycle' not in teeth:
        raise tlc.MachineryError('the pinned variant of Conn.tla no longer violates C12.residue and C12.lifecycle: %r' % (teeth,))
    allh = {k[2] for k in model}
    if {k[2] for k in model_f} != allh:
        raise tlc.MachineryError('the two variants of Conn.tla do not have the same environment histories')
    mx = maximal(allh)
    bad_h = sorted({k[2] for k in bads if k[2] in set(mx)}, key=repr)
    # what is replayed: the shortest counterexample per (clause, poller, family); the state cover (the
    # shortest history reaching each distinct state of the model: every distinct behaviour of a
    # following Settle occurs once); a seeded sample of the remaining maximal histories
    first = {}
    for k in sorted(bads, key=lambda k: (len(k[2]), repr(k))):
        first.setdefault((bads[k], k[0], k[1]), k[2])
    chosen = {}
    for key, h in first.items():
        chosen[h] = 'tlc-counterexample'
    for h in sorted(cover, key=repr):
        if h:
            chosen.setdefault(h, 'tlc-state-cover')
    n_cover = len(cover)
    n_bad, n_rest = (20, 40) if quick else (500, 1000)
    rest = [h for h in bad_h if h not in chosen]
    for h in rnd.sample(rest, min(n_bad, len(rest))):
        chosen.setdefault(h, 'tlc-counterexample')
    rest = [h for h in mx if h not in chosen]
    for h in rnd.sample(rest, min(n_rest, len(rest))):
        chosen.setdefault(h, 'tlc-history')
    phase('dump')

    traces = []     # (meta, lines)
    per_world = []  # per trace: {poller: steps}
    for h in sorted(chosen, key=repr):
        for fam in FAMS:
            scales = [1] if quick or rnd.random() < 0.7 else [1, 1700]
            for scale in scales:
                lines, steps, notes = replay_history(h, fam, POLLERS, scale)
                traces.append(({'kind': 'server', 'family': fam, 'hist': [list(x) for x in h], 'origin': chosen[h],
                                'scale': scale, 'notes': notes}, lines))
                per_world.append(steps if scale == 1 else None)
    n_model = len(traces)
    phase('replay')

    # 3. seeded random longer histories, 3 connections
    nrand = 50 if quick else 1200
    for i in range(nrand):
        h = random_history(rnd, 12 if quick else 22)
        fam = FAMS[i % 2]
        lines, steps, notes = replay_history(h, fam, POLLERS, 1)
        traces.append(({'kind': 'server', 'family': fam, 'hist': [list(x) for x in h], 'origin': 'random', 'scale': 1,
                        'notes': notes}, lines))
        per_world.append(None)
    phase('random')

    # 4. client components
    ncli = 24 if quick else 300
    n_client = 0
    for fam in FAMS:
        for j, script in enumerate(client_scripts(rnd, ncli, fam)):
            p = POLLERS[j % 3] if quick else None
            for pname in ([p] if p else POLLERS):
                lines, notes = run_client_script(pname, fam, script)
                traces.append(({'kind': 'client', 'family': fam, 'poller': pname, 'script': script, 'origin': 'client',
                                'notes': notes}, lines))
                per_world.append(None)
                n_client += 1
    phase('client')

    verdicts, stats = judge([t[1] for t in traces], 3 if quick else 8)
    phase('judge')
    accepted = []
    n_events = 0
    by_clause = {}
    for (meta, lines), vs in zip(traces, verdicts):
        nev = sum(1 for l in lines if l['k'] in EVENTS or l['k'] in ('cconnected', 'cdisconnected'))
        n_events += nev
        case = [meta['kind'], meta['family'], meta.get('hist') or [meta['poller'], meta['script']], meta.get('scale', 1)]
        ctx.count_case(case, nev > 0, sample={'family': meta['family'], 'origin': meta['origin'],
                                              'history': meta.get('hist') or meta.get('script'), 'lines': len(lines),
                                              'verdict': [v[0] for v in vs] or 'accepted'})
        if not vs:
            accepted.append(lines)
        for clause, ln in vs:
            w = witness_of(lines, ln, clause, meta['family'])
            by_clause[clause] = by_clause.get(clause, 0) + 1
            d = dict(meta)
            d.update({'line': ln, 'failing_line': lines[ln - 1], 'trace': lines, 'pollers': POLLERS})
            ctx.violation(clause, w, d)

    # 5. conformance drift: the model's lines against the real ones, per poller and family
    cmp_n = cmp_ok = 0
    variant_hits = {'pinned_only': 0, 'intended_only': 0, 'both': 0}
    for (meta, lines), steps in zip(traces[:n_model], per_world[:n_model]):
        if steps is None:
            continue
        h = hkey(meta['hist'])
        for p in POLLERS:
            real = norm([l for st in steps[p] for l in st])
            cmp_n += 1
            hit = set()
            shown = None
            for name, mdl in (('pinned', model), ('intended', model_f)):
                ml = []
                for i in range(1, len(h) + 1):
                    part = mdl.get((p, meta['family'], h[:i]))
                    if part is None:
                        ml = None
                        break
                    ml += part
                if ml is None:
                    continue
                mn = norm(ml)
                shown = shown or mn
                # the real run always ends with a settle; the model's history may be cut by the bound before one
                if real[:len(mn)] == mn or (mn and not mn[-1][1] and real[:len(mn) - 1] == mn[:-1] and real[len(mn) - 1][0] == mn[-1][0]):
                    hit.add(name)
            if hit:
                cmp_ok += 1
                variant_hits['both' if len(hit) == 2 else list(hit)[0] + '_only'] += 1
            else:
                ctx.note_drift('%s/%s: real lines differ from the model\'s for history %s%s' % (
                    p, meta['family'], meta['hist'],
                    (' model=%r real=%r' % ([r[1] for r in shown or []], [r[1] for r in real])) if os.environ.get('VERIF_DEBUG') else ''))
    phase('compare')

    # 6. binding demonstration: corrupted real traces must be rejected at the corruption
    muts = []
    hard = ('C12.read_gap', 'C12.lifecycle', 'C12.disconnect_count', 'C12.poller_disagree', 'C12.client_pairs')
    pool = [t[1] for t, vs in zip(traces, verdicts) if not any(c in hard for c, _ in vs)]
    rnd.shuffle(pool)
    for lines in pool:
        if len(muts) >= (60 if quick else 400):
            break
        m = corrupt(rnd, lines)
        if m:
            muts.append(m)
    corrupt_by_clause = {}
    selftest = ''
    if muts:
        mv, _ = judge([m[0] for m in muts], shards=1 if quick else 4)
        missed = [(m[1], v) for m, v in zip(muts, mv) if not corruption_noticed(m, v)]
        if missed:
            selftest = 'trace spec mis-judged %d corrupted traces, e.g. %s -> %r' % (len(missed), missed[0][0], missed[0][1])
        for m in muts:
            corrupt_by_clause[m[2][0]] = corrupt_by_clause.get(m[2][0], 0) + 1
    phase('corrupt')

    nfd1 = len(os.listdir('/proc/self/fd'))
    if nfd1 > nfd0:
        raise tlc.MachineryError('descriptor leak in the harness: %d -> %d open descriptors' % (nfd0, nfd1))
    left = [f for f in os.listdir(os.path.join(VERIF, '.work')) if f.startswith('c12-%d-' % os.getpid())]
    if left:
        raise tlc.MachineryError('socket paths left behind: %r' % (left,))

    rc = ctx.finish(coverage={
        'states': mc_states, 'transitions': mc_trans, 'single_deviation_counterexamples': single,
        'traces_validated_against_impl': len(traces),
        'model_histories_replayed': len(chosen), 'model_histories_enumerated': len(mx), 'state_cover_histories': n_cover,
        'server_world_runs': (len(traces) - n_client) * 3, 'client_runs': n_client,
        'random_histories': nrand,
        'history_dump_states': res.distinct + res_f.distinct,
        'pinned_variant_counterexample_states': len(bads), 'pinned_variant_clauses': teeth,
        'events_observed': n_events,
        'model_line_exact_match': cmp_ok, 'model_line_compared': cmp_n, 'model_variant_matched': variant_hits,
        'rejected_by_clause': by_clause,
        'trace_validation_states': stats['states'], 'phase_seconds': phases,
        'corrupted_traces_rejected': len(muts), 'corrupted_traces_by_clause': corrupt_by_clause,
        'rule': 'cases = (family, environment history over <= 3 connections: connect / send n / shutdown / close / abort / stop reading / '
                'server write small|big / server close / late write / late close / settle), each replayed on the real TCPServer or '
                'UNIXServer under the real Select, Poll and EPoll (one combined trace); histories: a seeded stratified sample of the '
                'maximal histories TLC enumerates for Conn.tla (every shape of counterexample of the pinned variant first), seeded random '
                'longer ones, plus client scripts on TCPClient / UNIXClient; non-trivial = at least one connection event observed; '
                'distinct by hash of (family, history, scale)',
        'exhaustive': False,
    }, assumptions=[
        'the kernel is real (loopback TCP, AF_UNIX); what it did is measured (bytes accepted by send(), FIN / RST visible on the raw '
        'descriptor, queue sizes by ioctl) and logged, never predicted, for the verdict',
        'quiescence = event log, tables, buffered bytes and kernel queues unchanged over 3 zero-timeout iterations and nothing measured in '
        'flight; the real-time cap only produces a machinery error',
        'a listening socket subclass (passed as bind) records accept() results; descriptor numbers of closed server side sockets are kept '
        'busy so that the poller\'s number-keyed map cannot be overwritten by a later accept',
        'connections that may have been aborted (RST, close with unconsumed server bytes, write to a closed peer) are only required to '
        'deliver a gap-free prefix and are exempt from the poller comparison',
    ])
    if selftest:
        if rc == 0:
            raise tlc.MachineryError(selftest)
        print('C12: self-test of the trace specification failed as well: %s' % selftest, file=sys.stderr)
    return rc
