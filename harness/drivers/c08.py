"""C08 - run()/stop(): started once, everything queued is drained, stopped once."""

import itertools

from ..kernelcheck import run_kernel_check

CODES = [None, 0, 3, 's']
STOPS = ['stopmgr', 'exit', 'kbint', 'stop2']


def _h(names, prio, script):
    return {'comp': 1, 'names': names, 'chan': None, 'prio': prio, 'script': script}


def make_program(place, kind, code, where, gen, after_stop_fire):
    """a chain started -> x0 -> x1 -> x2 with one stop of the given kind placed in the
    handler of `place`, before or after that handler's own fire; optionally in a later
    generator step; optionally a `stopped` handler that fires one more event."""
    chain = {'started': 'x0', 'x0': 'x1', 'x1': 'x2', 'x2': None}
    handlers = {}
    hid = 0
    for name, nxt in chain.items():
        ops = []
        fire = [['fire', {'name': nxt, 'prio': 0, 'flags': 0, 'ch': None}]] if nxt else [['ret', 1]]
        stop = []
        if name == place:
            stop = [[kind, code]] if kind != 'kbint' else [['kbint']]
            if gen:
                stop = [['yield', None]] + stop
        ops = (stop + fire) if where == 'before' and not gen else (fire + stop)
        if gen and name == place and where == 'before':
            ops = stop + fire
        hid += 1
        handlers[str(hid)] = _h([name], 0, {name: ops})
    # a second handler of x0 with lower priority: must it still run after a stop in the first?
    hid += 1
    handlers[str(hid)] = _h(['x0'], -1, {'x0': [['ret', 2]]})
    if after_stop_fire:
        hid += 1
        handlers[str(hid)] = _h(['stopped'], 0, {'stopped': [['fire', {'name': 'x2', 'prio': 0, 'flags': 0, 'ch': None}]]})
    return {'comps': {'1': {'chan': 'a'}}, 'handlers': handlers, 'dyn': []}


def fam_runstop(quick):
    progs = []
    for place, kind, code, where, gen, asf in itertools.product(
            ['started', 'x0', 'x2'], STOPS, [None, 3], ['before', 'after'], [False], [False, True]):
        if kind == 'kbint' and code is not None:
            continue
        if quick and (where == 'after' and asf):
            continue
        p = make_program(place, kind, code, where, gen, asf)
        p.update({'ext': [{'name': 'x1'}], 'ops': ['run', 'fire', 'stop'], 'pre': [], 'maxops': 2 if quick else 3,
                  'firers': [1], 'flushers': [1]})
        progs.append(p)
    p = make_program('none', 'stopmgr', None, 'before', False, True)
    p.update({'ext': [{'name': 'x1'}], 'ops': ['run', 'fire', 'stop'], 'pre': [], 'maxops': 3, 'firers': [1], 'flushers': [1]})
    progs.append(p)
    return progs


def cases(rnd, quick):
    out = []
    for place, kind, code, where, gen, asf in itertools.product(
            ['started', 'x0', 'x1', 'x2'], STOPS, CODES, ['before', 'after'], [False, True], [False, True]):
        if kind == 'kbint' and code is not None:
            continue
        out.append(((place, kind, code, where, gen, asf), make_program(place, kind, code, where, gen, asf)))
    if quick:
        rnd.shuffle(out)
        out = out[:260]
    for key, prog in out:
        hist = [['run', 1, 4]]
        r = rnd.random()
        if r < 0.3:
            hist = [['fire', 1, {'name': 'x1', 'prio': 0, 'flags': 0, 'ch': None}]] + hist
        if r > 0.6:
            hist = hist + [['stop', 1], ['run', 1, 4]]          # stop() on a stopped manager, then run again
        yield prog, hist
    # a chain that is deeper than the four ticks run() makes after the loop: everything fired as a
    # consequence of stopping must still be dispatched before run() returns
    for place, kind, code in [('started', 'stopmgr', None), ('x0', 'exit', None), ('x1', 'kbint', None), ('x2', 'stop2', None),
                              ('started', 'stopmgr', 3)]:
        prog = make_program(place, kind, code, 'after', False, True)
        n = len(prog['handlers'])
        names = ['x2', 'y3', 'y4', 'y5', 'y6', 'y7', 'y8', 'y9']
        for h in prog['handlers'].values():
            if h['names'] == ['x2']:
                h['script'] = {'x2': [['fire', {'name': 'y3', 'prio': 0, 'flags': 0, 'ch': None}]]}
        for i, nm in enumerate(names[1:], 1):
            nxt = names[i + 1] if i + 1 < len(names) else None
            prog['handlers'][str(n + i)] = _h([nm], 0, {nm: ([['fire', {'name': nxt, 'prio': 0, 'flags': 0, 'ch': None}]] if nxt else [['ret', 1]])})
        yield prog, [['run', 1, 4]]
        yield prog, [['run', 1, 4], ['run', 1, 4]]
    # a handler of the chain fails (with an Exception, or with an error that is not one): that is isolated, the loop
    # goes on until the stop further down the chain, `stopped` is dispatched, run() returns
    for exc, place, stopkind in itertools.product(['raise', 'raiseb'], ['started', 'x0', 'x1'], ['stopmgr', 'exit']):
        prog = make_program('x2', stopkind, None, 'after', False, True)
        for h in prog['handlers'].values():
            if h['names'] == [place] and h['prio'] == 0:
                h['script'][place] = h['script'][place] + [[exc]]
        yield prog, [['run', 1, 4]]
        yield prog, [['run', 1, 4], ['run', 1, 4]]
    # a cycle that ends with an exit code, then - the stopping handler removed - a cycle that ends without one
    # (stopped from a second thread when idle): the code of the earlier cycle must not come back
    for kind, code, place in itertools.product(['stopmgr', 'exit', 'stop2'], [3, 0, 's'], ['x0', 'x2']):
        prog = make_program(place, kind, code, 'after', False, True)
        hid = [int(h) for h, hd in prog['handlers'].items() if hd['names'] == [place] and hd['prio'] == 0][0]
        prog['dyn'] = [hid]
        yield prog, [['run', 1, 4], ['rmh', hid], ['run', 1, 3]]
        yield prog, [['run', 1, 4], ['rmh', hid], ['run', 1, 3], ['addh', hid], ['run', 1, 4], ['rmh', hid], ['run', 1, 3]]
    # stop() called on a child component while the root runs: a manager that is not running -> no effect
    for code in (None, 3):
        prog = make_program('none', 'stopmgr', None, 'before', False, True)
        prog['comps']['2'] = {'chan': 'a'}
        n = len(prog['handlers'])
        prog['handlers'][str(n + 1)] = {'comp': 2, 'names': ['x1'], 'chan': None, 'prio': 1, 'script': {'x1': [['stopmgr', code], ['ret', 9]]}}
        yield prog, [['reg', 2, 1], ['run', 1, 3]]
        yield prog, [['reg', 2, 1], ['run', 1, 3], ['run', 1, 3]]
    # no stop in the program: a second thread stops the idle loop
    for asf in (False, True):
        prog = make_program('none', 'stopmgr', None, 'before', False, asf)
        yield prog, [['run', 1, 3]]
        yield prog, [['stop', 1], ['run', 1, 3], ['run', 1, 3]]


def witness(prog, lines, clause, line):
    """the first stop request of the run() the failing line belongs to"""
    start = 0
    for i, ln in enumerate(lines[:line]):
        if ln['k'] == 'api' and ln['n'] == 'run':
            start = i
    ops = [ln for ln in lines[start:line] if ln['k'] in ('op', 'api') and ln['n'] in ('stopmgr', 'exit', 'kbint', 'stop2', 'stop')]
    first = ops[0] if ops else None
    inside_gen = False
    if first is not None and first['k'] == 'op':
        idx = lines.index(first)
        inside_gen = any(ln['k'] == 'step' and ln['e'] == first['e'] and ln['h'] == first['h'] for ln in lines[:idx])
    return {'stop_kind': first['n'] if first else 'none', 'code': ('none' if first is None or first['x'] == -1 else 'given'),
            'in_generator_step': inside_gen}


def mutate(rnd, prog, lines):
    out = [dict(ln) for ln in lines]
    rr = [i for i, ln in enumerate(lines) if ln['k'] == 'runret']
    if not rr:
        return None
    i = rnd.choice(rr)
    how = rnd.choice(['queued', 'started', 'code'])
    if how == 'queued':
        out[i]['d'] = 1
        return out, 'run() returned with an event still queued'
    if how == 'started':
        st = [j for j, ln in enumerate(lines[:i]) if ln['k'] == 'disp' and ln['n'] == 'started']
        if not st:
            return None
        out.insert(st[-1] + 1, dict(lines[st[-1]]))
        out[st[-1] + 1]['k'] = 'noop'
        # a second dispatch of started
        dup = dict(lines[st[-1]])
        fire = [ln for ln in lines if ln['k'] == 'fire' and ln['e'] == dup['e']]
        return None
    out[i]['x'] = 1 - out[i]['x']
    out[i]['v'] = 7 if out[i]['x'] == 1 else -1
    return out, 'exit code / way of returning changed'


def run(tier, replay=None):
    spec = {
        'own': ['C08'],
        # the model is checked and replayed in its intended form (exit code remembered, taken at the end of run());
        # the form that describes the pinned tree before the repair must be found in violation by TLC (teeth)
        'families': [{'name': 'runstop', 'programs': fam_runstop(tier == 'quick'), 'variants': {'ExitDeferred': True},
                      'hist_programs': fam_runstop(tier == 'quick'), 'hist_variants': {'ExitDeferred': True}}],
        'teeth': [{'name': 'runstop/pinned-exit', 'programs': fam_runstop(True), 'variants': {'ExitDeferred': False},
                   'expect': {'ConformsC08'}}],
        'random': cases, 'witness': witness, 'mutators': mutate,
        'nontrivial': lambda p, ls: any(ln['k'] == 'runret' for ln in ls),
        'rule': 'cases = (program, history): the chain started -> x0 -> x1 -> x2 with a stop placed in every handler (before / after its own '
                'fire, in a plain segment or a later generator step) x {stop(code), raise SystemExit(code), KeyboardInterrupt, stop(code) '
                'from a second thread at a scripted rendezvous} x codes {None, 0, 3, "s"} x {with / without a `stopped` handler that fires a '
                'further event}, run() executed in the checking thread with virtual idle waits; histories add events queued before run(), '
                'stop() on a stopped manager and a second run(); non-trivial = run() returned; distinct by hash',
        'assumptions': ['idle waits are virtual (threading.Event double); a loop that goes idle without a stop request is stopped from a second thread',
                        'signal handlers installed by run() are restored by the harness'],
    }
    return run_kernel_check('C08', tier, spec, replay)
