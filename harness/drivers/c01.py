"""C01 - events reach exactly the matching handlers, once, from the live set."""

from .. import kernelgen
from ..kernelcheck import run_kernel_check


def _h(comp, names, chan, prio, script=None, live0=True):
    d = {'comp': comp, 'names': names, 'chan': chan, 'prio': prio, 'script': script or {}}
    if not live0:
        d['live0'] = False
    return d


def fam_matching(maxops):
    prog = {
        'comps': {'1': {'chan': 'a'}, '2': {'chan': 'b'}, '3': {'chan': '*'}},
        'handlers': {
            '1': _h(1, ['x'], None, 3, {'x': [['ret', 1]]}),
            '2': _h(2, [], None, 2),                    # catch-all on the component's channel b
            '3': _h(2, [], '*', 1),                     # global
            '4': _h(3, ['x'], 'a', 0, {'x': [['ret', 4]]}),     # channel override
            '5': _h(3, ['x'], '#1', -1),                # listens on the instance of component 1
            '6': _h(1, ['x', 'y'], None, -2, live0=False),      # dynamic
        },
        'ext': [{'name': 'x', 'ch': None}, {'name': 'x', 'ch': '*'}, {'name': 'x', 'ch': '#1'}, {'name': 'y', 'ch': 'b'}],
        'ops': ['fire', 'flush', 'addh', 'rmh'], 'pre': [['reg', 2, 1], ['reg', 3, 2]],
        # dynamic: a named handler that is not installed initially and the installed global one
        'maxops': 2 + maxops, 'firers': [1, 3], 'flushers': [1], 'dyn': [3, 6],
    }
    return prog


def fam_structure(maxops):
    prog = {
        'comps': {'1': {'chan': 'a'}, '2': {'chan': 'a'}, '3': {'chan': 'b'}},
        'handlers': {
            '1': _h(1, ['x'], None, 2),
            '2': _h(2, ['x'], None, 1),
            '3': _h(3, ['x'], '*', 0),
        },
        'ext': [{'name': 'x', 'ch': None}],
        'ops': ['fire', 'flush', 'reg', 'unreg'], 'pre': [],
        'maxops': maxops, 'firers': [1, 2], 'flushers': [1, 2, 3], 'dyn': [],
    }
    return prog


def fam_detach(extra):
    """A component that was a root (its handler cache filled), became a child,
    gained a handler, and is detached again: the events it then dispatches as a
    root must see the handler (stale cache on the pinned tree)."""
    prog = {
        'comps': {'1': {'chan': 'a'}, '2': {'chan': 'a'}},
        'handlers': {
            '1': _h(2, ['x'], None, 1, {'x': [['ret', 1]]}),
            '2': _h(2, ['x'], None, 0, {'x': [['ret', 2]]}, live0=False),
        },
        'ext': [{'name': 'x', 'ch': None}],
        'ops': ['fire', 'flush', 'addh', 'unreg'],
        'pre': [['fire', 2, 1], ['flush', 2], ['reg', 2, 1], ['flush', 1]],
        'maxops': 4 + extra, 'firers': [2], 'flushers': [1, 2], 'dyn': [2],
    }
    return prog


def fam_uncache(maxops):
    """one component, a named, a global and a catch-all handler for the same event; the dispatch of an
    event fills the handler cache, removing / adding any of them afterwards must be reflected"""
    return {
        'comps': {'1': {'chan': 'a'}},
        'handlers': {
            '1': _h(1, ['x'], None, 1, {'x': [['ret', 1]]}),
            '2': _h(1, [], '*', 0),              # global
            '3': _h(1, [], None, -1),            # catch-all on the component's channel
        },
        'ext': [{'name': 'x', 'ch': None}],
        'ops': ['fire', 'flush', 'rmh', 'addh'], 'pre': [], 'maxops': maxops, 'firers': [1], 'flushers': [1], 'dyn': [1, 2, 3],
    }


def fam_leave(extra):
    """events dispatched by the old tree while an unregistration is pending (the leaving component
    still receives them) and after it has completed (it must not): the handler cache must be
    invalidated at both moments"""
    return {
        'comps': {'1': {'chan': 'a'}, '2': {'chan': 'a'}, '3': {'chan': 'a'}},
        'handlers': {
            '1': _h(1, ['x'], None, 2, {'x': [['ret', 1]]}),
            '2': _h(2, ['x'], None, 1, {'x': [['ret', 2]]}),
            '3': _h(3, ['x'], None, 0, {'x': [['ret', 3]]}),
        },
        'ext': [{'name': 'x', 'ch': None}],
        'ops': ['fire', 'flush', 'unreg'],
        'pre': [['reg', 2, 1], ['reg', 3, 2], ['fire', 1, 1], ['flush', 1]],
        'maxops': 4 + extra, 'firers': [1], 'flushers': [1], 'dyn': [],
    }


RANDOM_OPTS = {
    'ncomp': 4, 'shapes': ['plain', 'plain', 'class', 'implicit'], 'nhandlers': (3, 8), 'prios': [-1, 0, 0, 1, 2],
    'kinds': ['named', 'named', 'catchall', 'global', 'override', 'instance'], 'nnames': 3,
    'script_ops': ['ret', 'fire', 'addh', 'rmh', 'stop'], 'flags': [0], 'maxfire': 1,
    'targets': [None, None, 'a', 'b', '*', '#'], 'p_dynamic': 0.25, 'p_removable': 0.25, 'p_script': 0.5,
    'hist_ops': ['fire', 'fire', 'flush', 'flush', 'addh', 'rmh', 'reg', 'unreg'], 'histlen': (3, 9), 'ext_names': 3,
    'p_preset': 0.25, 'p_multichannel': 0.2,
}


def gen_random(rnd, quick):
    n = 300 if quick else 6000
    for i in range(n):
        prog = kernelgen.gen_program(rnd, RANDOM_OPTS)
        yield prog, kernelgen.gen_history(rnd, RANDOM_OPTS, prog)
    # a Component subclass with a public method marked @handler(False): it is no handler
    prog = {'comps': {'1': {'chan': 'a', 'shape': 'implicit'}, '2': {'chan': 'a', 'shape': 'plain'}},
            'handlers': {'1': {'comp': 1, 'names': ['x0'], 'chan': None, 'prio': 0, 'script': {}},
                         '2': {'comp': 1, 'names': ['x1'], 'chan': None, 'prio': 0, 'script': {}, 'nohandler': True, 'live0': False},
                         '3': {'comp': 2, 'names': ['x1'], 'chan': None, 'prio': 1, 'script': {}}},
            'dyn': []}
    for ch in (None, '*', '#1', 'a'):
        yield prog, [['reg', 2, 1], ['fire', 1, {'name': 'x1', 'ch': ch}], ['fire', 2, {'name': 'x0', 'ch': ch}], ['flush', 1]]
    # class Sub(A, Mixin), A(Base): A.k says override=True (it replaces Base.k), Mixin.k is an additional handler
    prog = {'comps': {'1': {'chan': 'a', 'shape': 'mixin'}},
            'handlers': {'1': {'comp': 1, 'names': ['x0'], 'chan': None, 'prio': 2, 'cls': 'base', 'meth': 'k', 'live0': False, 'script': {}},
                         '2': {'comp': 1, 'names': ['x0'], 'chan': None, 'prio': 1, 'cls': 'a', 'meth': 'k', 'override': True, 'script': {}},
                         '3': {'comp': 1, 'names': ['x0'], 'chan': None, 'prio': 0, 'cls': 'mixin', 'meth': 'k', 'script': {}},
                         '4': {'comp': 1, 'names': ['x0'], 'chan': None, 'prio': -1, 'cls': 'mixin', 'meth': 'j', 'script': {}},
                         '5': {'comp': 1, 'names': ['x1'], 'chan': None, 'prio': 0, 'cls': 'base', 'meth': 'b', 'script': {}}},
            'dyn': []}
    yield prog, [['fire', 1, {'name': 'x0', 'ch': None}], ['fire', 1, {'name': 'x1', 'ch': None}], ['flush', 1]]
    # the derived-class shape: base handler with and without override
    for ov in (True, False):
        prog = {'comps': {'1': {'chan': 'a', 'shape': 'derived'}},
                'handlers': {'1': {'comp': 1, 'names': ['x0'], 'chan': None, 'prio': 1, 'base': True, 'meth': 'm',
                                   'live0': not ov, 'script': {}},
                             '2': {'comp': 1, 'names': ['x0'], 'chan': None, 'prio': 0, 'meth': 'm', 'override': ov,
                                   'script': {}},
                             '3': {'comp': 1, 'names': ['x0'], 'chan': None, 'prio': -1, 'base': True, 'meth': 'k',
                                   'script': {}}},
                'dyn': []}
        yield prog, [['fire', 1, {'name': 'x0', 'ch': None}], ['flush', 1]]


def witness(prog, lines, clause, line):
    detach_done = any(ln['k'] == 'fire' and ln['y'] == 8 for ln in lines[:line])
    return {'after_a_detach': detach_done}


def mutate(rnd, prog, lines):
    invs = [i for i, ln in enumerate(lines) if ln['k'] == 'inv' and i + 1 < len(lines) and lines[i + 1]['k'] == 'ret'
            and lines[i + 1]['f'] == 0]
    def plain_dispatch(i):
        # the invocation belongs to a dispatch during which nothing structural happened and
        # which was not stopped (otherwise a missing / repeated invocation can be legitimate)
        e = lines[i]['e']
        d = max((j for j in range(i) if lines[j]['k'] == 'disp' and lines[j]['e'] == e), default=None)
        ends = [j for j in range(i, len(lines)) if lines[j]['k'] == 'dend' and lines[j]['e'] == e]
        if d is None or not ends or lines[ends[0]]['f'] == 1:
            return False
        if any(ln['k'] == 'fire' and ln['e'] == e and ln['d'] >= 100 for ln in lines):
            return False      # multi-channel fire: not judged for C01
        return not any(ln['k'] in ('op', 'api') and ln['n'] in ('addh', 'rmh', 'reg', 'unreg', 'stop', 'flush')
                       for ln in lines[d:ends[0]])
    invs = [i for i in invs if plain_dispatch(i)]
    if not invs:
        return None
    i = rnd.choice(invs)
    out = [dict(ln) for ln in lines]
    how = rnd.choice(['drop', 'dup'])
    if how == 'drop':
        del out[i:i + 2]
        return out, 'invocation of h%d for e%d removed' % (lines[i]['h'], lines[i]['e'])
    out[i + 2:i + 2] = [dict(lines[i]), dict(lines[i + 1])]
    return out, 'invocation of h%d for e%d duplicated' % (lines[i]['h'], lines[i]['e'])


def run(tier, replay=None):
    quick = tier == 'quick'
    spec = {
        'own': ['C01'],
        'families': [
            {'name': 'matching', 'programs': [fam_matching(3 if quick else 4)], 'hist_programs': [fam_matching(2 if quick else 3)]},
            {'name': 'structure', 'programs': [fam_structure(4 if quick else 5)], 'hist_programs': [fam_structure(3 if quick else 4)]},
            {'name': 'detach', 'programs': [fam_detach(5)], 'hist_programs': [fam_detach(5)]},
            {'name': 'leave', 'programs': [fam_leave(5)], 'hist_programs': [fam_leave(5)]},
            {'name': 'uncache', 'programs': [fam_uncache(5)], 'hist_programs': [fam_uncache(5)], 'hist_cap_quick': 2500},
        ],
        'teeth': [{'name': 'detach/StaleCache', 'programs': [fam_detach(5)], 'variants': {'StaleCache': True},
                   'expect': {'CacheCoherent', 'ConformsC01'}}],
        'random': gen_random,
        'witness': witness,
        'mutators': mutate,
        'rule': 'cases = (program, external history): every complete history TLC generates for the model families '
                '(matching kinds / structure changes / detach-after-cache-fill) replayed on the real classes, plus seeded random '
                'forests (4 components, plain/class/implicit shapes, named/catch-all/global/override/instance handlers, dynamic '
                'add/remove, register/unregister, fires on string, wildcard and instance channels); non-trivial = at least one '
                'handler was invoked; distinct by hash of (program, history)',
        'assumptions': ['handler invocations are observed through generated handler functions and the guarded tracer hook of Manager',
                        'single target channel per fire (multi-channel fires are outside the property)'],
    }
    return run_kernel_check('C01', tier, spec, replay)
