"""C20 - realisation functions: credential class -> concrete bytes on the wire.

The TLA+ specifications (spec/auth) enumerate *classes* (records of short
strings and small ints).  This module turns each class into the concrete
``Authorization`` header (computing real MD5 digests with hashlib, RFC 2617),
the concrete user table / encrypt callable of a configuration, the concrete
session cookies and the concrete VirtualHosts configuration.  Nothing here
decides a verdict: TLC does, on the recorded decision.
"""

import base64
import hashlib

REALM = 'Test'
WRONG_REALM = 'Other'
KNOWN = 'alice'
OTHER = 'carol'          # a second table entry (cross-user password class "other")
UNKNOWN = 'mallory'      # not in the table
PW = {KNOWN: 'wonderland', OTHER: 'looking-glass'}
URI = '/'
NONCE = '5f2a9c1e7b3d4a60'
CNONCE = '0a4f113b'
NC = '00000001'
OPAQUE = '7c1d'
SECRET_BODY = 'PROTECTED-RESULT-7f3a91'

REQUIRED = ('username', 'realm', 'nonce', 'uri', 'response')   # bit i of `pres`


def md5hex(s):
    return hashlib.md5(s.encode('utf-8')).hexdigest()


# -- configuration -----------------------------------------------------------

def stored(enc, user):
    """What the user table holds for `user` under configuration `enc`."""
    return PW[user] if enc == 'plain' else md5hex(PW[user])


def table(enc, tbl):
    """The `users` argument: a dict, a callable returning the dict, or a
    callable returning the password of one user (all three are documented)."""
    d = {u: stored(enc, u) for u in (KNOWN, OTHER)}
    if tbl == 'dict':
        return d
    if tbl == 'fdict':
        return lambda: dict(d)
    if tbl == 'fpw':
        return lambda username: d.get(username)
    raise ValueError(tbl)


REALM_B = 'Admin'        # the realm of an independent second protection domain
PW_B = {'root': 'S3cr3t!'}   # its user table: no entry for alice, carol or mallory


def domain(enc, tbl, dom):
    """(realm, users) of the protection domain a check is configured for.
    dom: "same" = the domain the credential classes are described for;
    "tbl" = same realm, another user table; "realm" = another realm, same
    table; "both"."""
    realm = REALM_B if dom in ('realm', 'both') else REALM
    if dom in ('tbl', 'both'):
        d = {u: (p if enc == 'plain' else md5hex(p)) for u, p in PW_B.items()}
        users = d if tbl == 'dict' else (lambda: dict(d)) if tbl == 'fdict' else (lambda username: d.get(username))
    else:
        users = table(enc, tbl)
    return realm, users


def encrypt_of(enc):
    """encrypt=str with a clear-text table (tests/web/test_basicauth.py), or the
    default (None: md5) with a table of md5 hex digests (examples/web/authdemo.py)."""
    return str if enc == 'plain' else None


# -- credentials -------------------------------------------------------------

def secret_string(scheme, enc, user, sec):
    """The secret the client types, for secret class `sec`."""
    known = user == 'known'
    if sec == 'right':
        # Basic: the clear-text password; Digest: the table entry is the password
        return PW[KNOWN] if scheme == 'basic' else stored(enc, KNOWN)
    if sec == 'other':
        return PW[OTHER] if scheme == 'basic' else stored(enc, OTHER)
    if sec == 'wrong':
        return 'wr0ng-guess'
    if sec == 'none':
        return 'None'
    if sec == 'empty':
        return ''
    if sec == 'derived':
        if not known:
            return md5hex('None')
        if scheme == 'basic':
            # the stored form itself (pass-the-hash) / the hash of the clear text
            return md5hex(PW[KNOWN])
        return md5hex(stored(enc, KNOWN))
    raise ValueError(sec)


def digest_response(username, realm, password, method, uri, nonce, qop, nc, cnonce, alg):
    """RFC 2617 request-digest as a client computes it."""
    a1 = '%s:%s:%s' % (username, realm, password)
    if alg == 'MD5-sess':
        a1 = '%s:%s:%s' % (md5hex(a1), nonce, cnonce or '')
    ha1 = md5hex(a1)
    if qop == 'auth-int':
        a2 = '%s:%s:%s' % (method, uri, md5hex(''))
    else:
        a2 = '%s:%s' % (method, uri)
    ha2 = md5hex(a2)
    if qop:
        return md5hex('%s:%s:%s:%s:%s:%s' % (ha1, nonce, nc or '', cnonce or '', qop, ha2))
    return md5hex('%s:%s:%s' % (ha1, nonce, ha2))


QOP = {'none': None, 'auth': 'auth', 'authint': 'auth-int', 'bogus': 'bogus'}
ALG = {'none': None, 'opaque': None, 'algmd5': 'MD5', 'algsess': 'MD5-sess', 'algbogus': 'SHA-512-256'}
OTHER_METHOD = {'GET': 'POST', 'POST': 'GET', 'HEAD': 'GET', 'PUT': 'GET'}


def authorization(cfg, cred):
    """-> value of the Authorization header, or None (no header).

    cfg: dict(api, enc, tbl, m); cred: dict(sch, form, user, sec, realm, pres,
    extra, qop, qf, hm)."""
    sch = cred['sch']
    enc = cfg['enc']
    username = KNOWN if cred['user'] == 'known' else UNKNOWN
    if sch == 'none':
        return None
    if sch in ('basic', 'nospace', 'unknown') and cred['form'] != 'digestx':
        pw = secret_string('basic', enc, cred['user'], cred['sec'])
        payload = base64.b64encode(('%s:%s' % (username, pw)).encode('utf-8')).decode('ascii')
        if sch == 'nospace':
            # no space between scheme and parameters / a bare scheme word
            return 'Basic' if cred['form'] == 'bare' else 'Basic' + payload
        if sch == 'unknown':
            return 'Bearer ' + payload
        form = cred['form']
        if form == 'ok':
            return 'Basic ' + payload
        if form == 'upper':
            return 'BASIC ' + payload
        if form == 'bad':
            return 'Basic %%%%~~~~'            # not base64 at all
        if form == 'nocolon':
            return 'Basic ' + base64.b64encode((username + pw).encode('utf-8')).decode('ascii')
        raise ValueError(form)
    # digest parameters (also used for the unknown scheme word "Digestx")
    realm = REALM if cred['realm'] == 'right' else WRONG_REALM
    pw = secret_string('digest', enc, cred['user'], cred['sec'])
    qop = QOP[cred['qop']]
    qf = cred['qf']
    nc = NC if qf in ('both', 'nocnonce') else None
    cnonce = CNONCE if qf in ('both', 'nonc') else None
    alg = ALG[cred['extra']]
    method = cfg['m'] if cred['hm'] == 'same' else OTHER_METHOD[cfg['m']]
    resp = digest_response(username, realm, pw, method, URI, NONCE, qop, nc, cnonce, alg)
    fields = [('username', '"%s"' % username), ('realm', '"%s"' % realm), ('nonce', '"%s"' % NONCE),
              ('uri', '"%s"' % URI), ('response', '"%s"' % resp)]
    parts = ['%s=%s' % (k, v) for i, (k, v) in enumerate(fields) if cred['pres'] & (1 << i)]
    if alg:
        parts.append('algorithm=%s' % alg)
    if cred['extra'] == 'opaque':
        parts.append('opaque="%s"' % OPAQUE)
    if qop:
        parts.append('qop=%s' % qop)
    if nc:
        parts.append('nc=%s' % nc)
    if cnonce:
        parts.append('cnonce="%s"' % cnonce)
    word = 'Digestx' if sch == 'unknown' else 'Digest'
    # an HTTP parser strips the field value: "Digest" followed by nothing has no space left
    return (word + ' ' + ', '.join(parts)).strip()


# -- sessions ----------------------------------------------------------------

IPS = {'a1': '192.0.2.10', 'a2': '198.51.100.7'}
AGENTS = {'u1': 'Mozilla/5.0 (X11; Linux x86_64) Firefox/115.0', 'u2': 'curl/8.4.0'}
# a second pair of clients whose texts overlap: address a1d = a1 followed by a digit, agent du1 =
# that digit followed by u1, so that a1 + du1 and a1d + u1 are the same text although both the
# address and the agent differ
IPS['a1d'] = IPS['a1'] + '2'
AGENTS['du1'] = '2' + AGENTS['u1']


def fp_index(ip, agent):
    """1..4, as FpIdx in Sessions.tla."""
    return (0 if ip == 'a1' else 2) + (1 if agent == 'u1' else 2)


def extra_header(xh, xa):
    """A further header the client sets freely, naming address `xa` -> (name, value) or None."""
    if xh == 'none':
        return None
    addr = IPS[xa]
    return {
        'xff': ('X-Forwarded-For', addr),
        'xfflist': ('X-Forwarded-For', '%s, 10.9.8.7' % addr),
        'xrealip': ('X-Real-IP', addr),
        'forwarded': ('Forwarded', 'for=%s;proto=http' % addr),
        'via': ('Via', '1.1 %s' % addr),
        'clientip': ('Client-IP', addr),
        'xclientip': ('X-Client-IP', addr),
    }[xh]


XNAMES = ('xff', 'xfflist', 'xrealip', 'forwarded', 'via', 'clientip', 'xclientip')


def who_of(ip, agent):
    """The fingerprint suffix as an attacker computes it (public algorithm)."""
    return hashlib.sha1(('%s%s' % (IPS[ip], AGENTS[agent])).encode('utf-8')).hexdigest()


# -- virtual hosts -----------------------------------------------------------

# texts chosen so that "1" + address and address + "0" are again plausible IPv4 texts and no
# address is an affix of another one
GATEWAY = '10.0.0.1'
GATEWAY2 = '10.20.30.4'
OTHER_ADDR = '98.51.100.9'
DOMAINS = {'a.example': 'a', 'b.example': 'b'}
REMOTES = {'g': GATEWAY, 'g2': GATEWAY2, 'other': OTHER_ADDR}


def remote_text(remote, rpre, rpost):
    """The peer address as a token sequence <<rpre, remote, rpost>> -> text:
    ("1", g, "") = 110.0.0.1 has the gateway 10.0.0.1 as proper suffix, ("", g, "0")
    = 10.0.0.10 as proper prefix, ("v6", g, "") = ::ffff:10.0.0.1 is the IPv4-mapped form."""
    return {'': '', '1': '1', 'v6': '::ffff:'}[rpre] + REMOTES[remote] + rpost


def trusted_of(t):
    return {'none': None, 'empty': [], 'g': [GATEWAY], 'gg2': (GATEWAY, GATEWAY2), 'gset': {GATEWAY}}[t]


def host_header(h):
    """-> Host header value; None = no Host header at all (an HTTP/1.0 request)"""
    return {'mapped': 'a.example', 'unmapped': 'www.example', 'empty': '', 'absent': None}[h]


def xfh_header(x):
    return {'absent': None, 'mapped': 'b.example', 'list': 'B.Example , c.example',
            'unmapped': 'zzz.example', 'empty': ''}[x]
