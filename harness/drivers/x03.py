"""X03 - circuits.core.workers: a task runs exactly once in the pool, its result
or exception becomes the value of the task event exactly once, the waiting
handler is resumed with it, nothing is lost at stop / unregister.

(An extra specification: the statement is ours, see extras/X03.md.)

Pipeline:
  1. TLC checks spec/extra/Workers.tla exhaustively (application, main loop -
     one action per tick -, pool; intended and pinned shut-down at once) against
     the monitor of WorkersOps.tla and direct state invariants, and dumps one
     environment history per distinct state.  Broken algorithms (MUT_*.cfg) must
     be flagged with the clause they break (teeth).
  2. Every dumped history (quick: a seeded sample of the maximal ones, all that
     end in quiescence) is replayed on the REAL Worker under a Manager ticked
     by hand, with the pool replaced by a deterministic double whose jobs run
     and whose results become ready when the history says so; TLC drives the
     model along the same histories (WorkersConf.tla) and the lines it emits are
     compared with the real lines (normal form: the order in which one tick
     steps unrelated tasks is a set-iteration order).  Histories in
     which every job's end is published at once are also replayed on the real
     multiprocessing ThreadPool (jobs gated by the driver).
  3. Seeded random scripts (more tasks, all outcomes, task_complete, no
     environment restriction) on the double, on the gated real pool and on the
     free-running real pool (bounded waits; the verdict never depends on timing:
     a wait that times out is a machinery error).
  4. TLC judges every recorded trace (WorkersTrace.tla); corrupted copies of
     accepted traces must be rejected with the clause the corruption calls for.
"""

import json
import os
import random
import re
import time
from concurrent.futures import ThreadPoolExecutor

from .. import tlc
from ..core import Ctx, use_repo, VERIF

SPEC = 'spec/extra'
JVM = ('-Xmx4g', '-XX:TieredStopAtLevel=1')
MUTANTS = {
    'noloop': ('X03.blocks_on_unfinished',),
    'resubmit': ('X03.resubmitted',),
    'nojoin': ('X03.pool_not_shut_down', 'X03.result_lost_at_stop'),
    'terminate': ('X03.result_lost_at_stop', 'X03.lost_task'),
    'anyunreg': ('X03.pool_closed_early',),
}
MODE = {1: 'fire', 2: 'call'}


# ---------------------------------------------------------------------------
# TLC output

_REC = re.compile(r'\[([^\[\]]*)\]')
_FLD = re.compile(r'(\w+) \|-> ("[^"]*"|-?\d+)')
_TUP = re.compile(r'<<"(\w)", (\d+), (\d+)>>')


def _var(block, name):
    """text of variable `name` in one state block of a TLC dump"""
    m = re.search(r'^/\\ %s = ' % name, block, re.M)
    if not m:
        return ''
    e = re.search(r'^/\\ \w+ = ', block[m.end():], re.M)
    return block[m.end():m.end() + e.start()] if e else block[m.end():]


def parse_dump(text):
    """-> [(variant, hist, out lines, bad)] ; hist = [(op, a, b)]"""
    out = []
    for block in re.split(r'^State \d+:.*$', text, flags=re.M)[1:]:
        hist = [(a, int(b), int(c)) for a, b, c in _TUP.findall(_var(block, 'hist'))]
        lines = []
        for rec in _REC.findall(_var(block, 'out')):
            d = {}
            for k, v in _FLD.findall(rec):
                d[k] = v[1:-1] if v.startswith('"') else int(v)
            lines.append(d)
        variant = _var(block, 'variant').strip().strip('"')
        bad = _var(block, 'bad').strip().strip('"')
        out.append((variant, hist, lines, bad))
    return out


def model_check_and_dump(cfg, workers):
    """exhaustive run (a violation of the model is a machinery error) that also dumps every distinct state"""
    wd = tlc.workdir('x03dump')
    dump = os.path.join(wd, 'states')
    try:
        res = tlc.run_tlc(SPEC, 'Workers', cfg, workers=workers, timeout=3000, extra=['-dump', dump], jvm_opts=JVM)
        if res.violated:
            raise tlc.MachineryError('model Workers.tla (%s) violates %s:\n%s' % (cfg, res.violated, res.out[-3000:]))
        if res.distinct == 0:
            raise tlc.MachineryError('TLC reported no states for Workers.tla:\n%s' % res.out[-2000:])
        with open(dump + '.dump') as f:
            text = f.read()
        return res, parse_dump(text)
    finally:
        import shutil
        shutil.rmtree(wd, ignore_errors=True)


# ---------------------------------------------------------------------------
# scripts on the real code

def script_of(hist, rot=0):
    """model history -> script; rot: a job that returns a value returns a falsy one in some replays
    (same lines, class 2 instead of 1)"""
    out = []
    t = 0
    for op, a, b in hist:
        if op == 'F':
            t += 1
            code = b
            if code == 1 and (rot + t) % 3 == 0:
                code = 2
            out.append(['F', t, MODE[a], code])
        elif op in ('X', 'P'):
            out.append([op, a])
        else:
            out.append([op])
    return out


def run_script(script, pool='fake', workers=None, gated=True, complete=False, free=False):
    """Run a script on the real Worker; -> (lines, notes)."""
    from .x03_world import NotDriven, World
    w = World(pool=pool, workers=workers, gated=gated, complete=complete)
    notes = []
    try:
        return _drive(w, script, notes)
    except NotDriven as e:
        raise NotDriven('%s [script %s on pool %s, workers %s, gated %s; last lines %s]'
                        % (e, script, pool, workers, gated, [(ln['k'], ln['t'], ln['v']) for ln in w.log[-8:]]))
    finally:
        w.teardown()


def _drive(w, script, notes):
    for st in script:
        op = st[0]
        if op == 'F':
            w.fire(st[1], st[2], st[3])
        elif op == 'T':
            w.tick()
        elif op == 'X':
            if not w.exec(st[1]):
                notes.append('exec-not-applicable')
        elif op == 'P':
            if not w.publish(st[1]):
                notes.append('publish-not-applicable')
        elif op == 'S':
            w.stop()
        elif op == 'U':
            w.unregister()
        elif op == 'O':
            w.unregister_other()
        elif op == 'W':
            # free-running real pool: tick (with tiny sleeps) until every task fired so far has been announced
            w.run_until_announced()
        elif op == 'Q':
            break
    w.script_end = len(w.log)       # what follows is the driver's quiescence
    w.quiesce()
    if w.exceptions and not any(ln['k'] == 'failure' for ln in w.log):
        notes.append('exception-event-without-failure')
    run_script.last_script_end = w.script_end
    return list(w.log), notes


def norm(lines, sub=None):
    """Normal form for comparing the model's lines with the real ones: within a stretch of lines of tasks
    (between two lines that belong to no task) the tasks are independent and one tick steps them in the
    iteration order of a set, so each stretch is sorted by task (stable)."""
    out = []
    seg = []
    for ln in lines:
        if ln['k'] == 'complete':
            continue
        v = ln['v']
        if sub and ln['t'] in sub and ln['k'] in ('fire', 'value', 'success', 'resume') and v == 1:
            v = 2
        item = (ln['k'], ln['t'], v, ln['r'])
        if ln['t'] == 0:
            out.extend(sorted(seg, key=lambda x: x[1]))
            seg = []
            out.append(item)
        else:
            seg.append(item)
    out.extend(sorted(seg, key=lambda x: x[1]))
    return out


def atomic_pool(hist):
    """every Exec is immediately followed by the Publish of the same job (what the real pool can be made to do)"""
    for i, (op, a, b) in enumerate(hist):
        if op == 'X' and not (i + 1 < len(hist) and hist[i + 1][0] == 'P' and hist[i + 1][1] == a):
            return False
        if op == 'P' and not (i > 0 and hist[i - 1][0] == 'X' and hist[i - 1][1] == a):
            return False
    return True


def tree_variant():
    """Which shut-down does the tree under test have?  'intended': the pool is closed when the Worker is
    unregistered; 'pinned': it is not."""
    lines, _ = run_script([['U'], ['T'], ['T'], ['T'], ['T']])
    return 'intended' if any(ln['k'] == 'closed' for ln in lines) else 'pinned'


def random_script(rnd, ntasks, maxlen, real=False):
    """No environment restriction: tasks may be fired at a Worker that is being removed (out of scope for
    the monitor) or after stop (they must be refused loudly)."""
    script = []
    fired = 0
    submitted_guess = []
    stopped = unreg = other = False
    for _ in range(rnd.randint(3, maxlen)):
        r = rnd.random()
        if fired < ntasks and r < 0.25:
            fired += 1
            script.append(['F', fired, rnd.choice(['fire', 'call']), rnd.choice([1, 1, 2, 3, 4])])
        elif r < 0.6:
            script.append(['T'])
        elif r < 0.8 and fired:
            t = rnd.randint(1, fired)
            if real:
                script.append(['X', t])
                script.append(['P', t])
            else:
                script.append([rnd.choice(['X', 'P']), t])
                if rnd.random() < 0.5:
                    script.append(['P', t])
        elif r < 0.86 and not stopped:
            stopped = True
            script.append(['S'])
        elif r < 0.92 and not unreg:
            unreg = True
            script.append(['U'])
        elif r < 0.96 and not other:
            other = True
            script.append(['O'])
        else:
            script.append(['T'])
    return script


def free_script(rnd, ntasks):
    """free-running real pool: fire some tasks, let the loop run, maybe stop / unregister in between"""
    script = []
    t = 0
    for _ in range(rnd.randint(1, 3)):
        for _ in range(rnd.randint(1, max(1, ntasks // 2))):
            if t < ntasks:
                t += 1
                script.append(['F', t, rnd.choice(['fire', 'call']), rnd.choice([1, 2, 3, 4])])
        for _ in range(rnd.randint(0, 3)):
            script.append(['T'])
        r = rnd.random()
        if r < 0.5:
            script.append(['W'])
        elif r < 0.65:
            script.append(['S'])
            break
        elif r < 0.75:
            script.append(['U'])
            break
    return script


# ---------------------------------------------------------------------------
# corrupted traces (binding demonstration)

def corrupt(rnd, lines):
    """-> (lines, expected clauses, description) or None"""
    idx = {}
    for i, ln in enumerate(lines):
        idx.setdefault(ln['k'], []).append(i)
    out = [dict(ln) for ln in lines]
    # only tasks the monitor judges
    scope_lost = {ln['t'] for ln in lines if ln['k'] == 'taken' and ln['v'] == 0}
    unreg_at = idx.get('unreg', [len(lines)])[0]
    for i in idx.get('fire', []):
        if i > unreg_at:
            scope_lost.add(lines[i]['t'])

    def ok(i):
        return lines[i]['t'] not in scope_lost

    how = rnd.choice(['dup_exec', 'drop_note', 'wrong_value', 'early_value', 'dup_submit', 'pool_open', 'dup_resume',
                      'get_unready', 'early_close'])
    if how == 'dup_exec':
        c = [i for i in idx.get('exec', []) if ok(i)]
        if c:
            i = rnd.choice(c)
            out.insert(i + 1, dict(lines[i]))
            return out, ('X03.ran_twice',), 'exec line %d doubled' % (i + 1)
    elif how == 'drop_note':
        c = [i for i in idx.get('success', []) + idx.get('failure', []) if ok(i)]
        if c:
            i = rnd.choice(c)
            del out[i]
            return out, ('X03.lost_task', 'X03.result_lost_at_stop'), 'announcement line %d dropped' % (i + 1)
    elif how == 'wrong_value':
        c = [i for i in idx.get('success', []) if ok(i)]
        if c:
            i = rnd.choice(c)
            out[i]['v'] = 5
            return out, ('X03.wrong_result',), 'success line %d carries another value' % (i + 1)
    elif how == 'early_value':
        c = [i for i in idx.get('ready', []) if ok(i) and any(lines[j]['k'] == 'value' and lines[j]['t'] == lines[i]['t']
                                                            for j in range(i + 1, len(lines)))]
        if c:
            i = rnd.choice(c)
            j = [j for j in range(i + 1, len(lines)) if lines[j]['k'] == 'value' and lines[j]['t'] == lines[i]['t']][0]
            ln = out.pop(j)
            out.insert(i, ln)
            return out, ('X03.value_before_ready',), 'value line %d moved before ready line %d' % (j + 1, i + 1)
    elif how == 'dup_submit':
        c = [i for i in idx.get('submit', []) if ok(i) and lines[i]['r'] == '']
        if c:
            i = rnd.choice(c)
            out.insert(i + 1, dict(lines[i]))
            return out, ('X03.resubmitted',), 'submit line %d doubled' % (i + 1)
    elif how == 'pool_open':
        if idx.get('stopped') and idx.get('closed'):
            out = [ln for ln in out if ln['k'] not in ('closed', 'joined')]
            return out, ('X03.pool_not_shut_down',), 'closed / joined lines dropped'
    elif how == 'dup_resume':
        c = [i for i in idx.get('resume', []) if ok(i)]
        if c:
            i = rnd.choice(c)
            out.insert(i + 1, dict(lines[i]))
            return out, ('X03.resumed_twice',), 'resume line %d doubled' % (i + 1)
    elif how == 'get_unready':
        c = [i for i in idx.get('get', []) if ok(i) and lines[i]['v'] == 1]
        if c:
            i = rnd.choice(c)
            out[i]['v'] = 0
            return out, ('X03.blocks_on_unfinished',), 'get line %d on an unfinished job' % (i + 1)
    elif how == 'early_close':
        c = idx.get('closed', [])
        first_req = min(idx.get('stop', [len(lines)])[0], unreg_at)
        if c and first_req < len(lines) and first_req > 0:
            i = c[0]
            ln = out.pop(i)
            out.insert(0, ln)
            return out, ('X03.pool_closed_early',), 'closed line moved to the start'
    return None


# ---------------------------------------------------------------------------

def witness_of(meta, lines, clause, badline):
    ks = [ln['k'] for ln in lines[:max(badline, 0)] ]
    if 'unreg' in ks and 'stop' in ks:
        trig = 'stop_after_unregister' if ks.index('unreg') < ks.index('stop') else 'unregister_after_stop'
    elif 'unreg' in ks:
        trig = 'unregister'
    elif 'stop' in ks:
        trig = 'stop'
    else:
        trig = 'none'
    w = {'pool': meta['pool'], 'shutdown': trig}
    if 0 < badline <= len(lines) and lines[badline - 1]['t']:
        t = lines[badline - 1]['t']
        for ln in lines:
            if ln['k'] == 'fire' and ln['t'] == t:
                w['mode'] = ln['r']
                w['job'] = {1: 'value', 2: 'falsy', 3: 'none', 4: 'raises'}.get(ln['v'], '?')
    return w


# ---------------------------------------------------------------------------
# the model driven along given histories (WorkersConf.tla)

_LINES = re.compile(r'<<\s*"LINES",\s*(\d+),\s*"([^"]*)",')


def hist_of(script):
    """script -> the model's history format, or None if the script has steps the model has no action for"""
    out = []
    t = 0
    for st in script:
        op = st[0]
        if op == 'F':
            t += 1
            if st[1] != t:
                return None
            out.append(['F', 1 if st[2] == 'fire' else 2, st[3]])
        elif op in ('X', 'P'):
            out.append([op, st[1], 0])
        elif op in ('T', 'S', 'U', 'O', 'Q'):
            out.append([op, 0, 0])
        else:
            return None
    return out


def model_lines(items, shards):
    """items: [(variant, hist)] -> [(bad, lines) or None (the history is not a behaviour of the model)]"""
    n = len(items)
    if n == 0:
        return [], 0
    shards = max(1, min(shards, n))
    wd = tlc.workdir('x03conf')
    try:
        chunks = [list(range(i, n, shards)) for i in range(shards)]

        def one(k):
            path = os.path.join(wd, 'hist%d.json' % k)
            with open(path, 'w') as f:
                json.dump([{'variant': items[i][0], 'hist': items[i][1]} for i in chunks[k]], f)
            res = tlc.run_tlc(SPEC, 'WorkersConf', 'WorkersConf.cfg', workers=2, timeout=3000, env={'TRACE_FILE': path}, jvm_opts=JVM)
            if res.violated:
                raise tlc.MachineryError('WorkersConf reported %s:\n%s' % (res.violated, res.out[-3000:]))
            got = {}
            ms = list(_LINES.finditer(res.out))
            for j, m in enumerate(ms):
                end = ms[j + 1].start() if j + 1 < len(ms) else len(res.out)
                lines = []
                for rec in _REC.findall(res.out[m.end():end]):
                    d = {}
                    for kk, v in _FLD.findall(rec):
                        d[kk] = v[1:-1] if v.startswith('"') else int(v)
                    if 'k' in d:
                        lines.append(d)
                got[int(m.group(1))] = (m.group(2), lines)
            return res.distinct, {chunks[k][j - 1]: got.get(j) for j in range(1, len(chunks[k]) + 1)}

        out = [None] * n
        states = 0
        with ThreadPoolExecutor(max_workers=shards) as ex:
            for distinct, part in ex.map(one, range(shards)):
                states += distinct
                for i, v in part.items():
                    out[i] = v
        return out, states
    finally:
        import shutil
        shutil.rmtree(wd, ignore_errors=True)


def run_replay(path):
    rec = json.load(open(path))
    d = rec['detail']
    lines, notes = run_script(d['script'], **d.get('world', {}))
    verdicts, _ = tlc.validate_traces(SPEC, 'WorkersTrace', 'WorkersTrace.cfg', [lines], shards=1, jvm_opts=JVM)
    clause, line = verdicts[0]
    for i, ln in enumerate(lines, 1):
        print('%3d %-13s t=%d v=%d %s' % (i, ln['k'], ln['t'], ln['v'], ln['r']))
    if clause:
        print('VIOLATION property=X03 replay=%s clause=%s line=%d' % (path, clause, line))
        return 1
    print('replay accepted: no clause of X03 fails on this tree')
    return 0


def run(tier, replay=None):
    use_repo()
    from .x03_world import NotDriven
    try:
        if replay:
            return run_replay(replay)
        return _run(tier)
    except NotDriven as e:
        raise tlc.MachineryError(str(e))


def _run(tier):
    ctx = Ctx('X03', tier)
    rnd = random.Random(ctx.seed * 7919 + 303)
    quick = tier == 'quick'
    t_start = time.time()

    traces = []          # (meta, lines)
    compare = []         # (trace index, variant, hist, substituted tasks, script end, from TLC?)

    # 0. process pools first (the process is still single-threaded: fork is safe)
    n_proc = 3 if quick else 40
    for i in range(n_proc):
        nt = rnd.randint(1, 6)
        script = free_script(rnd, nt)
        world = {'pool': 'process', 'workers': rnd.choice([1, 2, 3]), 'gated': False, 'complete': i % 5 == 0}
        lines, notes = run_script(script, **world)
        traces.append(({'pool': 'process', 'script': script, 'world': world, 'origin': 'random-process', 'notes': notes}, lines))

    # 1. TLC: exhaustive check + one history per distinct state; broken algorithms must be flagged
    cfgs = ['MC_Workers_quick.cfg', 'MC_Workers_quick_other.cfg'] if quick else ['MC_Workers_thorough.cfg', 'MC_Workers_thorough3.cfg']
    ex = ThreadPoolExecutor(max_workers=10)
    f_mc = [ex.submit(model_check_and_dump, c, 6 if quick else 8) for c in cfgs]
    f_mut = {v: ex.submit(tlc.run_tlc, SPEC, 'Workers', 'MUT_Workers_%s.cfg' % v, workers=2, jvm_opts=JVM) for v in MUTANTS}

    # 3. (while TLC runs) seeded random scripts (code -> spec; those that are behaviours of the model also spec -> code)
    tv = tree_variant()
    n_fake = 400 if quick else 6000
    n_gated = 40 if quick else 500
    n_free = 40 if quick else 500
    try:
        for i in range(n_fake):
            script = random_script(rnd, rnd.randint(1, 6), 18 if quick else 40)
            world = {'pool': 'fake', 'complete': i % 5 == 0}
            lines, notes = run_script(script, **world)
            traces.append(({'pool': 'fake', 'script': script, 'world': world, 'origin': 'random', 'notes': notes}, lines))
            h = hist_of(script)
            if h and not notes and not world['complete']:
                compare.append((len(traces) - 1, tv, h, set(), run_script.last_script_end, False))
        for i in range(n_gated):
            nt = rnd.randint(1, 4)
            script = random_script(rnd, nt, 16 if quick else 30, real=True)
            world = {'pool': 'real', 'workers': max(2, nt), 'complete': i % 5 == 0}
            lines, notes = run_script(script, **world)
            traces.append(({'pool': 'real', 'script': script, 'world': world, 'origin': 'random-gated', 'notes': notes}, lines))
            h = hist_of(script)
            if h and not notes and not world['complete']:
                compare.append((len(traces) - 1, tv, h, set(), run_script.last_script_end, False))
        for i in range(n_free):
            nt = rnd.randint(1, 8)
            script = free_script(rnd, nt)
            world = {'pool': 'real', 'workers': rnd.choice([1, 2, 3, 10]), 'gated': False, 'complete': i % 5 == 0}
            lines, notes = run_script(script, **world)
            traces.append(({'pool': 'real-free', 'script': script, 'world': world, 'origin': 'random-free', 'notes': notes}, lines))
        t_rand = time.time() - t_start

        mcs = [f.result() for f in f_mc]
        teeth = {}
        for v, f in f_mut.items():
            r = f.result()
            got = ''
            if r.violated and r.error_trace:
                got = r.error_trace[-1][1].get('bad', '')
            if not r.violated or got not in MUTANTS[v]:
                raise tlc.MachineryError('the broken variant %r of Workers.tla is not flagged with %s (got %r / %r): '
                                         'the model lost its teeth' % (v, MUTANTS[v], r.violated, got))
            teeth[v] = got
    finally:
        ex.shutdown(wait=True)
    t_tlc = time.time() - t_start

    states = [st for mc, sts in mcs for st in sts]
    kinds = set()
    for variant, hist, out, bad in states:
        for h in hist:
            kinds.add(h[0])
    dead = set('FTXPSUOQ') - kinds
    if dead:
        raise tlc.MachineryError('vacuous model: actions %s never taken' % sorted(dead))
    if not any(v == 'pinned' and bad == 'X03.pool_not_shut_down' for v, h, o, bad in states):
        raise tlc.MachineryError('the pinned variant of Workers.tla no longer leaves the pool of an unregistered Worker running')

    # 2. replay of the model's histories (spec -> code)
    keys = {(variant, tuple(hist)) for variant, hist, out, bad in states if hist}
    prefixes = set()
    for (variant, h) in keys:
        for i in range(1, len(h)):
            prefixes.add((variant, h[:i]))
    maximal = sorted(k for k in keys if k not in prefixes)
    ended = [k for k in maximal if k[1][-1][0] == 'Q']
    cut = [k for k in maximal if k[1][-1][0] != 'Q']
    if not quick and len(cut) > 30000:
        rnd.shuffle(cut)
        cut = sorted(cut[:30000])
    chosen = ended + cut

    n_real_replays = 0
    real_budget = 40 if quick else 600
    t_rep = time.time()
    for idx, key in enumerate(chosen):
        variant, h = key
        script = script_of(h, rot=idx)
        sub = {st[1] for st in script if st[0] == 'F' and st[3] == 2}
        pools = ['fake']
        if atomic_pool(h) and n_real_replays < real_budget and any(x[0] == 'F' for x in h) and idx % 7 == 0:
            pools.append('real')
            n_real_replays += 1
        for pool in pools:
            world = {'pool': pool, 'workers': 4 if pool == 'real' else None}
            lines, notes = run_script(script, **world)
            traces.append(({'pool': pool, 'script': script, 'world': world, 'origin': 'tlc-history', 'notes': notes}, lines))
            if not (variant == tv or not any(x[0] == 'U' for x in h)):
                continue        # a history of the other shut-down variant that unregisters the Worker: judged by the monitor only
            if notes:
                ctx.note_drift('%s pool: a step of the model\'s history %s does not apply to the real run: %s'
                               % (pool, [list(x) for x in h], notes))
            else:
                compare.append((len(traces) - 1, variant, [list(x) for x in h], sub, run_script.last_script_end, True))
    t_exec = t_rand + time.time() - t_rep

    # 4. TLC judges every trace (corrupted copies, expected clause known, ride in the same batch) and, in
    #    parallel, drives the model along the histories: its lines against the real ones
    muts = []
    cand = [lines for meta, lines in traces if any(ln['k'] == 'exec' for ln in lines)]
    rnd.shuffle(cand)
    for lines in cand:
        if len(muts) >= (120 if quick else 800):
            break
        m = corrupt(rnd, lines)
        if m:
            muts.append((lines, m))
    batch = [lines for meta, lines in traces] + [m[0] for _, m in muts] + [orig for orig, _ in muts]
    t4 = time.time()
    with ThreadPoolExecutor(max_workers=2) as ex:
        f_val = ex.submit(tlc.validate_traces, SPEC, 'WorkersTrace', 'WorkersTrace.cfg', batch, shards=8 if quick else 12, jvm_opts=JVM)
        f_conf = ex.submit(model_lines, [(c[1], c[2]) for c in compare], 4 if quick else 10)
        verdicts, stats = f_val.result()
        mlines, conf_states = f_conf.result()
    t_val = time.time() - t4

    n_cmp = n_match = n_not_model = 0
    for (ti, variant, h, sub, send, from_tlc), ml in zip(compare, mlines):
        meta, lines = traces[ti]
        if ml is None:
            if from_tlc:
                raise tlc.MachineryError('a history dumped by TLC is not a behaviour of WorkersConf: %s' % h)
            n_not_model += 1        # a random script outside the model's environment (e.g. a task fired at a Worker being removed)
            continue
        n_cmp += 1
        mn = norm(ml[1], sub)
        rl = norm(lines) if h[-1][0] == 'Q' else norm(lines[:send])
        if rl == mn:
            n_match += 1
        else:
            k = next((i for i in range(min(len(mn), len(rl))) if mn[i] != rl[i]), min(len(mn), len(rl)))
            ctx.note_drift('%s pool: real lines differ from the model\'s (%s) at line %d for history %s: model %s, real %s'
                           % (meta['pool'], variant, k + 1, h, mn[k] if k < len(mn) else None, rl[k] if k < len(rl) else None))

    n = len(traces)
    nm = len(muts)
    for (meta, lines), (clause, line) in zip(traces, verdicts[:n]):
        nontrivial = any(ln['k'] == 'exec' for ln in lines)
        ctx.count_case([meta['pool'], meta['script'], meta['world']], nontrivial,
                       sample={'pool': meta['pool'], 'script': meta['script'], 'trace_head': lines[:10], 'verdict': clause or 'accepted'})
        if clause == 'X03.malformed':
            raise tlc.MachineryError('inconsistent trace (line %d) for script %s on %s' % (line, meta['script'], meta['world']))
        if clause:
            ctx.violation(clause, witness_of(meta, lines, clause, line),
                          {'script': meta['script'], 'world': meta['world'], 'trace': lines, 'line': line, 'origin': meta['origin']})
    missed = []
    for j, (orig, (mlines_, expect, desc)) in enumerate(muts):
        c_mut = verdicts[n + j][0]
        c_orig = verdicts[n + nm + j][0]
        if c_orig:
            continue        # the original was rejected itself (a finding): its corruption proves nothing
        if c_mut not in expect:
            missed.append((desc, expect, c_mut))
    if missed:
        raise tlc.MachineryError('trace spec did not reject %d corrupted traces as expected, e.g. %s' % (len(missed), missed[0]))

    return ctx.finish(coverage={
        'states': sum(mc.distinct for mc, _ in mcs), 'transitions': sum(mc.generated for mc, _ in mcs),
        'depth': max(mc.depth for mc, _ in mcs),
        'states_per_configuration': {c: mc.distinct for c, (mc, _) in zip(cfgs, mcs)},
        'broken_variants_flagged': teeth,
        'tree_shutdown_variant': tv,
        'model_histories_replayed': len(chosen), 'model_histories_available': len(maximal),
        'replayed_on_real_threadpool': n_real_replays,
        'model_line_compared': n_cmp, 'model_line_exact_match': n_match,
        'random_scripts_outside_model_environment': n_not_model,
        'conformance_states': conf_states,
        'traces_validated_against_impl': n,
        'random_scripts': {'double': n_fake, 'real_gated': n_gated, 'real_free': n_free, 'process_pool': n_proc},
        'trace_validation_states': stats['states'],
        'corrupted_traces_rejected': nm,
        'seconds_until_model_checked': round(t_tlc, 1), 'seconds_executing_real_code': round(t_exec, 1),
        'seconds_trace_validation_and_conformance': round(t_val, 1),
        'rule': 'cases = (pool kind, script, world options); from the environment history TLC dumps for every distinct state of '
                'Workers.tla (maximal ones; quick: seeded sample) on the pool double and - where the history publishes every '
                'result at once - on the real ThreadPool, plus seeded random scripts on the double, the gated and the free-running '
                'real ThreadPool; non-trivial = at least one job ran; distinct by hash of the case',
        'exhaustive': False,
    }, assumptions=[
        'the statement is ours (extras/X03.md), derived from the docstrings, tests and code of circuits.core.workers',
        'multiprocessing.pool.ThreadPool / AsyncResult are trusted; the double mimics apply_async / ready / get / close / join / terminate',
        'a tick is atomic with respect to the pool (each result is polled at one point of a tick; tasks share no state)',
        'process pools (Worker(process=True)) are exercised free-running only (executions counted in shared memory by the children)',
    ])
