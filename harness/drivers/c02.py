"""C02 - dispatch order: priority then FIFO per pass; handler priority; stop()."""

from .. import kernelgen
from ..kernelcheck import run_kernel_check


def _h(comp, names, prio, script):
    return {'comp': comp, 'names': names, 'chan': None, 'prio': prio, 'script': script}


def fam_events(maxops):
    """fire(priority=p) from outside and from handlers (nesting x0 -> x1 -> x2), two roots' worth of passes."""
    return {
        'comps': {'1': {'chan': 'a'}},
        'handlers': {
            '1': _h(1, ['x0'], 0, {'x0': [['fire', {'name': 'x1', 'prio': 1}], ['fire', {'name': 'x1', 'prio': -1}]]}),
            '2': _h(1, ['x1'], 0, {'x1': [['fire', {'name': 'x2', 'prio': 0}]]}),
            '3': _h(1, ['x2'], 0, {'x2': [['ret', 1]]}),
        },
        'ext': [{'name': 'x0', 'prio': 0}, {'name': 'x1', 'prio': -1}, {'name': 'x2', 'prio': 2}, {'name': 'x1', 'prio': 1}],
        'ops': ['fire', 'flush'], 'pre': [], 'maxops': maxops, 'firers': [1], 'flushers': [1], 'dyn': [],
    }


def fam_handlers(maxops):
    """handler priorities and stop(): five handlers of x0 with priorities 2,1,0,-1,-2; the middle ones stop."""
    return {
        'comps': {'1': {'chan': 'a'}, '2': {'chan': 'a'}},
        'handlers': {
            '1': _h(1, ['x0'], 2, {'x0': [['ret', 1]]}),
            '2': _h(2, ['x0'], 1, {'x0': [['fire', {'name': 'x1', 'prio': 0}]]}),
            '3': _h(1, ['x0', 'x1'], 0, {'x0': [['stop'], ['ret', 3]], 'x1': [['ret', 3]]}),
            '4': _h(2, ['x0', 'x1'], -1, {'x0': [['ret', 4]], 'x1': [['stop']]}),
            '5': _h(1, ['x0', 'x1'], -2, {'x0': [['ret', 5]], 'x1': [['ret', 5]]}),
        },
        'ext': [{'name': 'x0', 'prio': 0}, {'name': 'x1', 'prio': -1}],
        'ops': ['fire', 'flush', 'rmh', 'addh'], 'pre': [['reg', 2, 1]], 'maxops': 1 + maxops, 'firers': [1], 'flushers': [1],
        'dyn': [3],
    }


RANDOM_OPTS = {
    'ncomp': 3, 'shapes': ['plain', 'class'], 'nhandlers': (3, 8), 'prios': [-2, -1, 0, 0, 1, 2, 3],
    'kinds': ['named', 'named', 'catchall', 'global'], 'nnames': 4,
    'script_ops': ['ret', 'fire', 'fire', 'stop', 'stop', 'cancel', 'raise'], 'flags': [0], 'maxfire': 3, 'maxops_script': 4,
    'p_raise_base': 0.3,
    'eprios': [-2, -1, 0, 0, 1, 2, 3], 'targets': [None, '*', 'a', 'b'], 'p_script': 0.8, 'p_multichannel': 0.3,
    'hist_ops': ['fire', 'fire', 'fire', 'flush', 'tick', 'cancel'], 'histlen': (3, 10), 'ext_names': 3, 'p_attach': 1.0,
    'p_noevent': 0.25, 'p_age': 0.15,
}
# prioritised events queued on components that are still detached, then registered (the queue migrates)
MIGRATE_OPTS = dict(RANDOM_OPTS, p_attach=0.3, p_multichannel=0.0, p_age=0.0,
                    hist_ops=['fire', 'fire', 'fire', 'reg', 'reg', 'flush', 'tick'], histlen=(4, 10))


# handlers that flush() themselves: the nested call continues the pass in progress and must not
# pull in events fired since it began
FLUSH_OPTS = dict(RANDOM_OPTS, script_ops=['ret', 'fire', 'fire', 'flush', 'stop'], p_multichannel=0.0)


def nested_flush_cases():
    """a handler fires an event (priority below / equal / above the pending ones) and then calls flush()
    itself while events queued before the pass are still pending"""
    for p, pend, where in [(p, pend, w) for p in (-1, 0, 1, 2) for pend in (0, 1) for w in ('first', 'second')]:
        prog = {'comps': {'1': {'chan': 'a'}},
                'handlers': {
                    '1': _h(1, ['x0'], 0, {'x0': [['fire', {'name': 'x1', 'prio': p}], ['flush'], ['ret', 1]]}),
                    '2': _h(1, ['x1'], 0, {'x1': [['ret', 2]]}),
                    '3': _h(1, ['x2'], 0, {'x2': [['fire', {'name': 'x3', 'prio': 0}]]}),
                    '4': _h(1, ['x3'], 0, {'x3': [['ret', 4]]})},
                'dyn': []}
        fires = [['fire', 1, {'name': 'x2', 'prio': pend, 'ch': None}], ['fire', 1, {'name': 'x2', 'prio': 0, 'ch': None}]]
        x0 = ['fire', 1, {'name': 'x0', 'prio': 0, 'ch': None}]
        hist = ([x0] + fires) if where == 'first' else ([fires[0], x0, fires[1]])
        yield prog, hist + [['flush', 1]]


def stop_cases():
    """stop() in a handler that then leaves by raising (the `try: ... finally: event.stop()` idiom), and stop() in a handler
    that forwards the very event object it handles to another channel: no handler of lower priority runs for the event"""
    for how, pstop in [(h, p) for h in ('raise', 'raiseb', 'refire', 'refire-first', 'ret') for p in (2, 1, 0)]:
        tail = {'raise': [['stop'], ['raise']], 'raiseb': [['stop'], ['raiseb']], 'refire': [['stop'], ['refire', 'b'], ['ret', 7]],
                'refire-first': [['refire', 'b'], ['stop'], ['ret', 7]], 'ret': [['stop'], ['ret', 7]]}[how]
        prog = {'comps': {'1': {'chan': 'a'}, '2': {'chan': 'b'}},
                'handlers': {
                    '1': _h(1, ['x0'], 3, {'x0': [['ret', 1]]}),
                    '2': _h(1, ['x0'], pstop, {'x0': tail}),
                    '3': _h(1, ['x0'], -1, {'x0': [['ret', 3]]}),
                    '4': _h(1, ['x0'], -2, {'x0': [['fire', {'name': 'x1', 'prio': 0, 'flags': 0, 'ch': None}]]}),
                    '5': _h(2, ['x0'], 1, {'x0': [['ret', 5]]}),
                    '6': _h(2, ['x0'], -1, {'x0': [['ret', 6]]}),
                    '7': _h(1, ['x1'], 0, {'x1': [['ret', 8]]})},
                'dyn': []}
        yield prog, [['reg', 2, 1], ['fire', 1, {'name': 'x0', 'prio': 0, 'flags': 0, 'ch': 'a'}], ['flush', 1], ['flush', 1], ['flush', 1]]


def gen_random(rnd, quick):
    yield from nested_flush_cases()
    yield from stop_cases()
    for i in range(300 if quick else 6000):
        opts = FLUSH_OPTS if i % 3 == 2 else MIGRATE_OPTS if i % 7 == 3 else RANDOM_OPTS
        prog = kernelgen.gen_program(rnd, opts)
        yield prog, kernelgen.gen_history(rnd, opts, prog)


def witness(prog, lines, clause, line):
    return {'kind_of_line': lines[line - 1]['k'] if 0 < line <= len(lines) else ''}


def mutate(rnd, prog, lines):
    out = [dict(ln) for ln in lines]
    # (a) a pass that dispatched two events of equal priority: pretend the first was fired with a larger priority value
    disp = [i for i, ln in enumerate(lines) if ln['k'] == 'disp' and ln['f'] == 0]
    fire_at = {ln['e']: i for i, ln in enumerate(lines) if ln['k'] == 'fire'}
    cands = []
    for a, b in zip(disp, disp[1:]):
        ea, eb = lines[a]['e'], lines[b]['e']
        if ea in fire_at and eb in fire_at and fire_at[eb] < a and fire_at[ea] < a and \
                not any(ln['k'] == 'api' for ln in lines[a:b]) and lines[fire_at[ea]]['p'] == lines[fire_at[eb]]['p'] \
                and lines[fire_at[ea]]['c'] == lines[fire_at[eb]]['c']:
            cands.append((ea, eb))
    if any(ln['k'] == 'op' and ln['n'] == 'flush' for ln in lines):
        cands = []      # a handler that flushes starts passes of its own: consecutive dispatches need not share a pass
    if cands and rnd.random() < 0.6:
        ea, eb = rnd.choice(cands)
        out[fire_at[ea]]['p'] += 1
        return out, 'priority of e%d raised although it was dispatched before e%d' % (ea, eb)
    # (b) swap two consecutive handler invocations of different priority
    invs = [i for i, ln in enumerate(lines) if ln['k'] == 'inv' and i + 3 < len(lines) and lines[i + 1]['k'] == 'ret'
            and lines[i + 2]['k'] == 'inv' and lines[i + 3]['k'] == 'ret' and lines[i + 2]['e'] == ln['e']
            and prog['handlers'][str(ln['h'])].get('prio', 0) != prog['handlers'][str(lines[i + 2]['h'])].get('prio', 0)]
    if invs:
        i = rnd.choice(invs)
        out[i], out[i + 1], out[i + 2], out[i + 3] = out[i + 2], out[i + 3], out[i], out[i + 1]
        return out, 'handler invocations swapped at line %d' % (i + 1)
    return None


def run(tier, replay=None):
    quick = tier == 'quick'
    spec = {
        'own': ['C02'],
        'families': [
            {'name': 'events', 'programs': [fam_events(4 if quick else 5)], 'hist_programs': [fam_events(3 if quick else 4)]},
            {'name': 'handlers', 'programs': [fam_handlers(3 if quick else 4)], 'hist_programs': [fam_handlers(2 if quick else 3)]},
        ],
        'teeth': [],
        'random': gen_random, 'witness': witness, 'mutators': mutate,
        'nontrivial': lambda p, ls: sum(1 for ln in ls if ln['k'] == 'disp') >= 2,
        'rule': 'cases = (program, external history): every complete history TLC generates for the model families (prioritised fires '
                'from outside and from handlers nested to depth 3; five handler priorities with stop() placements) replayed on the '
                'real classes, plus seeded random programs (priorities incl. negative and fractional, fires/stop/cancel in handlers, '
                'fire/flush/tick/cancel from outside); non-trivial = at least two events dispatched; distinct by hash',
        'assumptions': ['fire and dispatch-begin times come from the guarded tracer hook in Manager._fire/_dispatcher',
                        'a third of the random programs call flush() inside handlers: the re-entrancy clause is then not judged (a handler that flushes asks for nested dispatch), the order and pass clauses are'],
    }
    return run_kernel_check('C02', tier, spec, replay)
