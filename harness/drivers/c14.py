"""C14 - any bytes on an HTTP connection: wait, one valid error response, or close; never a crash.

Pipeline (DESIGN 6/C14):
  1. TLC checks spec/web/HttpConn.tla exhaustively: two interleaved connections,
     <= 4 inputs each over the input classes, disconnect at every point; the
     intended table discipline (Variant = "fixed": everything keyed by the socket
     is released when `disconnect(sock)` is delivered) obeys the C14 monitor of
     HttpConnOps; the discipline of the pinned code (Variant = "pinned": the parser
     table is only released on some exits) must violate it (defect generator).
  2. TLC dumps the environment histories (HIST_*.cfg: `hist` in the state); each
     is replayed on the real circuits.web.http.HTTP component (harness/httpdouble.py:
     real HTTP + Dispatcher + a trivial root controller over a socket double), each
     input class realised by seeded concrete mutants of the grammar in
     c14_grammar.py.  Further enumerated families: every mutant of every class on a
     fresh and on a kept-alive connection, truncation at EVERY offset of every base
     request (then disconnect / then the rest), seeded random scripts and byte fuzz.
  3. What the component does is recorded as trace lines (request / httperror /
     exception / close / disconnect events in real order; the bytes written are
     decoded by http.client.HTTPResponse, an independent implementation; the
     component's dict/set attributes are searched for the socket after every step;
     a probe event shows the loop is alive) and judged by TLC with
     spec/web/HttpConnTrace.tla (same monitor).  The model's predicted lines are
     compared with the real ones (conformance drift).
"""

import binascii
import http.client
import io
import json
import os
import random
import re
import sys
import time

from .. import tlc
from ..core import Ctx, use_repo, VERIF
from . import c14_grammar as G

SPEC = 'spec/web'
PID = 'C14'
SETTLE_TICKS = 400          # a legitimate exchange settles in < 20 ticks (measured); a livelock never does
MAX_QUEUE = 2000            # events queued at once; a legitimate exchange queues < 10
MAXC = 3                    # connection ids the monitor knows (HttpConnOps!ConnIds)

KEYS = ('k', 'c', 'cls', 'wf', 'st', 'pr', 'sc', 'a', 'b')


def line(k, c=0, cls='', wf='', st=0, pr='', sc=False, a=0, b=0):
    return {'k': k, 'c': c, 'cls': cls, 'wf': wf, 'st': st, 'pr': pr, 'sc': sc, 'a': a, 'b': b}


# ---------------------------------------------------------------------------
# the independent decoder: the client's view of the bytes written in one step

# http.client refuses lines over 64 KiB and more than 100 header fields: limits of that
# client, not of the message syntax (a 301 repeats a 300 000-byte target in Location)
http.client._MAXLINE = 1 << 24
http.client._MAXHEADERS = 10000

class _Bio(io.BytesIO):
    def close(self):            # HTTPResponse closes its file when a message ends
        pass


class _FakeSock:
    def __init__(self, bio):
        self.bio = bio

    def makefile(self, *a, **kw):
        return self.bio


_VERSION = re.compile(rb'HTTP/1\.([01]) ')
MARKER = 'C14-Injected'        # header name the cookie mutants of the grammar try to smuggle into the response head


def _decode(data, method, limit):
    out = []
    pos = 0
    while pos < len(data) and len(out) < limit:
        bio = _Bio(data[pos:])
        r = http.client.HTTPResponse(_FakeSock(bio), method=method)
        try:
            r.begin()
        except (http.client.HTTPException, ValueError, OSError, UnicodeError) as e:
            out.append((len(data), 0, 'garbage', False, type(e).__name__, 0))
            return out
        m = _VERSION.match(data, pos)
        if not m:
            out.append((len(data), 0, 'garbage', False, 'ForeignVersion', 0))
            return out
        ver = 1000 + int(m.group(1))
        if r.headers.get(MARKER) is not None:
            out.append((len(data), r.status, 'garbage', False, 'InjectedHeader', ver))
            return out
        toks = [t.strip() for t in ','.join(r.headers.get_all('Connection') or []).lower().split(',')]
        sc = 'close' in toks or (r.version == 10 and 'keep-alive' not in toks) or \
            (r.length is None and not r.chunked)          # close-delimited body
        short = False
        try:
            r.read()
        except (http.client.HTTPException, ValueError, OSError) as e:
            out.append((len(data), r.status, 'incomplete', sc, type(e).__name__, ver))
            return out
        if not r.chunked and r.length not in (None, 0):     # read() came back short without raising
            short = True
        pos += bio.tell()
        out.append((pos, r.status, 'incomplete' if short else 'ok', sc, '', ver))
    return out


def decode_responses(data, method='GET', limit=6):
    """Successive responses in `data` -> [(end offset, status, parse, announces_close, why, version)].
    parse: "ok" | "garbage" | "incomplete" (headers fine, body shorter than announced).
    garbage: http.client finds no status line it accepts / the headers do not parse (why =
    class name of its exception); the status line is not labelled HTTP/1.0 or HTTP/1.1 - the
    versions this server speaks; `HTTP/0.9 400`, `HTTP/1.380 400`, `HTTP/2.0 505` are no
    responses of any HTTP version an HTTP/1.x client can interpret (why = "ForeignVersion");
    the head contains a header field the request smuggled in through a cookie value (why =
    "InjectedHeader": raw CR LF inside a field value = response splitting).
    version = 1000 * major + minor of the status line (0 if garbage).
    When the message was a HEAD request the response has no body; if the message was not
    understood as such (bad request line) a body is legitimate too: the reading that
    decodes cleanly is taken."""
    out = _decode(data, method, limit)
    if method == 'HEAD' and not (len(out) == 1 and out[0][2] == 'ok'):
        alt = _decode(data, 'GET', limit)
        if len(alt) == 1 and alt[0][2] == 'ok':
            return alt
    return out


# ---------------------------------------------------------------------------
# the world: real HTTP component + dispatcher + trivial root controller

class World:
    """One Manager with the real HTTP component; up to MAXC connections; every
    observation is appended to self.lines in real order."""

    def __init__(self):
        from ..httpdouble import HttpHarness
        from circuits import BaseComponent, Event, handler
        from circuits.web import Controller

        world = self
        self.lines = []
        self.notes = []          # diagnostics (exception texts, decoder complaints) - not part of the trace
        self.conns = {}          # c -> Conn
        self.cid = {}            # id(sock) -> c
        self.peer = set()        # connections whose disconnect the harness injected
        self.linger = set()      # connections whose transport lingers after the component's close
        self.sclosed = set()     # connections for which the component fired close(sock)
        self.gone_set = set()    # connections whose disconnect(sock) was dispatched
        self.dead = False
        self.decoder = []        # what the decoder complained about (exception class names, ...)
        self.method = {}         # c -> method of the message being answered (HEAD: no body)
        self._writes = {}        # c -> [(index in self.lines where the write happened, bytes)]
        self._probe_seen = 0

        class c14probe(Event):
            """fired by the harness after every step: is the loop still dispatching?"""

        self._probe_event = c14probe

        class Root(Controller):
            def index(self, *args, **kwargs):
                return 'Hello C14'

        class Recorder(BaseComponent):
            channel = 'web'

            @handler('write', priority=200.0)
            def _w(self, sock, data):
                c = world.cid.get(id(sock), 0)
                world._writes.setdefault(c, []).append((len(world.lines), bytes(data)))

            @handler('close', priority=200.0)
            def _c(self, sock=None):
                world.sclosed.add(world.cid.get(id(sock), 0))
                world.lines.append(line('close', world.cid.get(id(sock), 0)))

            @handler('disconnect', priority=200.0)
            def _d(self, sock=None):
                c = world.cid.get(id(sock), 0)
                world.gone_set.add(c)
                world.lines.append(line('disc', c, a=1 if c in world.peer else 0))

            @handler('request', priority=200.0)
            def _r(self, event, req, res, *args, **kwargs):
                rid = '%s %s%s' % (req.method, req.path, ('?' + req.qs) if req.qs else '')
                if len(rid) > 60 or not all(32 < ord(ch) < 127 or ch == ' ' for ch in rid) or '"' in rid or '\\' in rid:
                    rid = 'other'
                world.lines.append(line('req', world.cid.get(id(req.sock), 0), pr=rid))

            @handler('httperror', priority=200.0)
            def _e(self, event, req, res, code=None, **kwargs):
                world.lines.append(line('rej', world.cid.get(id(getattr(req, 'sock', None)), 0), st=int(event.code or 0)))

            @handler('exception', channel='*', priority=200.0)
            def _x(self, etype, evalue, tb, handler=None, fevent=None):
                c = 0
                args = getattr(fevent, 'args', ())
                for a in args[:2]:
                    s = a if id(a) in world.cid else getattr(getattr(a, 'request', a), 'sock', None)
                    if id(s) in world.cid:
                        c = world.cid[id(s)]
                        break
                world.lines.append(line('exc', c))
                world.notes.append('exception in %s handling %s: %s: %s' % (
                    getattr(handler, '__name__', handler), getattr(fevent, 'name', None), etype.__name__, str(evalue)[:120]))

            @handler('c14probe', priority=200.0)
            def _p(self, *a):
                world._probe_seen += 1

        self.h = HttpHarness(Root())
        self.recorder = Recorder().register(self.h.server)
        self.h.settle()

    # -- observation -----------------------------------------------------------
    def tables(self, sock):
        """(entries keyed by `sock` in parser/buffer tables, in other tables) over the
        dict / set / list attributes of the HTTP component; names of the tables."""
        nb = nc = 0
        names = []
        for name, val in sorted(vars(self.h.http).items()):
            if name in ('_handlers', '_cache', '_globals', 'components', '_queue', '_tasks', '_flush_batch'):
                continue
            try:
                if isinstance(val, dict):
                    hit = sock in val or any(getattr(getattr(v, 'request', v), 'sock', None) is sock
                                             for v in val.values() if not isinstance(v, (tuple, list)))
                    hit = hit or any(any(getattr(x, 'sock', None) is sock for x in v)
                                     for v in val.values() if isinstance(v, (tuple, list)))
                elif isinstance(val, (set, frozenset, list, tuple)) or type(val).__name__ == 'deque':
                    hit = sock in val
                else:
                    continue
            except TypeError:
                continue
            if hit:
                names.append(name)
                if 'buf' in name.lower() or 'pars' in name.lower():
                    nb += 1
                else:
                    nc += 1
        return nb, nc, names

    def _flush_writes(self):
        """Decode what was written to each connection during this step and insert a
        `resp` line where the write that completed each response happened."""
        inserts = []      # (position, order, line)
        for c, ws in self._writes.items():
            data = b''.join(w[1] for w in ws)
            ends, tot = [], 0
            for pos, d in ws:
                tot += len(d)
                ends.append((tot, pos))
            for n, (end, st, pr, sc, why, ver) in enumerate(decode_responses(data, self.method.get(c, 'GET'))):
                pos = next(p for t, p in ends if t >= min(end, tot))
                inserts.append((pos, n, line('resp', c, st=st, pr=pr, sc=sc, a=ver)))
                if why:
                    self.decoder.append(why)
                    self.notes.append('decoder on connection %d: %s; bytes %r' % (c, why, data[:80]))
        self._writes = {}
        for pos, n, ln in sorted(inserts, key=lambda t: (-t[0], -t[1])):
            self.lines.insert(pos, ln)

    def settle(self):
        """Tick until nothing is queued and no task is pending.  Not quiescent after
        SETTLE_TICKS ticks, or more than MAX_QUEUE events queued (events that multiply:
        each failing retry fires several more), is a livelock - the manager is abandoned
        as it is, nothing is waited for."""
        from ..httpdouble import NotQuiescent
        root = self.h.root
        for _ in range(SETTLE_TICKS):
            n = len(root)
            if not n and not root._tasks:
                return
            if n > MAX_QUEUE:
                break
            root.tick()
        raise NotQuiescent('web pipeline does not settle (%d events queued)' % len(root))

    def _end_step(self, c):
        """Settle, decode, probe, tables."""
        from ..httpdouble import NotQuiescent
        why = ''
        try:
            self.settle()
        except NotQuiescent:
            why = 'livelock'
        except Exception as e:     # an exception left tick()
            why = 'escaped'
            self.notes.append('exception left tick(): %r' % (e,))
        self._flush_writes()
        if not why:
            seen = self._probe_seen
            try:
                self.h.fire(self._probe_event())
                self.settle()
            except NotQuiescent:
                why = 'livelock'
            except Exception as e:
                why = 'escaped'
                self.notes.append('exception left tick(): %r' % (e,))
            if not why and self._probe_seen != seen + 1:
                why = 'noprobe'
            self._flush_writes()
        self.lines.append(line('alive', c, pr=why, a=0 if why else 1))
        if why:
            self.dead = True
        for k in sorted(self.conns):
            nb, nc, _ = self.tables(self.conns[k].sock)
            self.lines.append(line('tab', k, a=nb, b=nc))

    # -- driving ---------------------------------------------------------------
    def connect(self, c, linger=False):
        """linger: the transport does not disconnect at once when the component fires
        close(sock) (circuits.net.sockets.Server defers the close while its write buffer
        drains and goes on delivering reads): the harness fires disconnect(sock) later
        (transport_disconnect).  The stub of httpdouble.py disconnects at once unless it
        takes the connection for closed already, so that flag is set beforehand (the
        stub's own bookkeeping of output is not used by this driver)."""
        self.lines.append(line('conn', c, a=1 if linger else 0))
        conn = self.h.connect(settle=False)
        self.conns[c] = conn
        self.cid[id(conn.sock)] = c
        if linger:
            self.linger.add(c)
            conn.closed = True
        self._end_step(c)

    def transport_disconnect(self, c):
        """The lingering transport has drained its buffer: disconnect(sock) after the close."""
        from circuits.net.events import disconnect
        self.h.fire(disconnect(self.conns[c].sock))
        self._end_step(c)

    def feed(self, c, msg, then_disconnect=False):
        """Deliver msg.data as one read event; then_disconnect: the peer's hang-up is
        queued right behind the read (no tick in between)."""
        self.lines.append(line('in', c, cls=msg.cls, wf=msg.wf, pr=msg.want, a=min(len(msg.data), 10 ** 9)))
        self.method[c] = msg.method
        self.conns[c].feed(msg.data, settle=False)
        if then_disconnect:
            self.peer.add(c)
            self.conns[c].disconnect(settle=False)
        self._end_step(c)

    def disconnect(self, c):
        self.peer.add(c)
        self.conns[c].disconnect(settle=False)
        self._end_step(c)

    def gone(self, c):
        return c in self.gone_set or c in self.peer

    def closing(self, c):
        return c in self.sclosed and not self.gone(c)

    def waiting(self, c):
        """The last message delivered on c has drawn no reaction yet."""
        for ln in reversed(self.lines):
            if ln['c'] == c and ln['k'] in ('req', 'rej', 'resp', 'close', 'conn'):
                return False
            if ln['c'] == c and ln['k'] == 'in':
                return True
        return False

    def close(self):
        self.h.close()


# ---------------------------------------------------------------------------
# scripts: [('conn', c) | ('connl', c) | ('in', c, Msg) | ('inx', c, Msg) | ('disc', c) | ('tdisc', c)]
# ('connl' = connection with a lingering transport, 'tdisc' = that transport's disconnect after
#  the component's close; 'inx' = read with the peer's disconnect queued right behind it)

def run_script(script, strict=False):
    """Replay a concrete script on the real component -> (lines, notes, steps done).
    Steps addressed to a connection that is already gone are skipped (the model
    only produces them when the code reacts differently from the model); with
    strict (model histories) so are inputs other than Rest on a connection whose
    previous message is still unanswered: the model takes them to start a new
    message, for the component they would continue the old one."""
    w = World()
    done = []
    last = {}                # c -> the last message delivered on c
    try:
        for step in script:
            if w.dead:
                break
            op, c = step[0], step[1]
            if op in ('conn', 'connl'):
                if c in w.conns:
                    continue
                w.connect(c, linger=(op == 'connl'))
            elif c not in w.conns or w.gone(c):
                done.append(None)
                continue
            elif op == 'tdisc' and not w.closing(c):
                done.append(None)          # nothing to drain: the component has not closed
                continue
            elif strict and w.closing(c) and (op in ('inx', 'disc') or (op == 'in' and step[2].cls == 'Rest')):
                done.append(None)          # the model delivers plain reads only to a closing connection
                continue
            elif strict and op in ('in', 'inx') and step[2].cls != 'Rest' and w.waiting(c):
                done.append(None)
                continue
            elif strict and op in ('in', 'inx') and step[2].cls == 'Rest' and not (
                    last.get(c) is not None and last[c].cls == 'Truncate' and last[c].rest == step[2].data
                    and last[c].sub == step[2].sub):
                done.append(None)          # its Truncate was skipped: nothing to complete
                continue
            elif op == 'in':
                w.feed(c, step[2])
                last[c] = step[2]
            elif op == 'inx':
                w.feed(c, step[2], then_disconnect=True)
                last[c] = step[2]
            elif op == 'disc':
                w.disconnect(c)
            elif op == 'tdisc':
                w.transport_disconnect(c)
            done.append(step)
        return w.lines, w.notes + ['decoder:' + d for d in w.decoder], done
    finally:
        w.close()


def script_to_json(script):
    out = []
    for st in script:
        if st[0] in ('in', 'inx'):
            m = st[2]
            out.append([st[0], st[1], {'cls': m.cls, 'sub': m.sub, 'wf': m.wf, 'base': m.base, 'want': m.want, 'method': m.method,
                                       'hex': binascii.hexlify(m.data).decode(), 'resthex': binascii.hexlify(m.rest).decode()}])
        else:
            out.append(list(st))
    return out


def script_from_json(js):
    out = []
    for st in js:
        if st[0] in ('in', 'inx'):
            d = st[2]
            out.append((st[0], st[1], G.Msg(d['cls'], d['sub'], d['wf'], binascii.unhexlify(d['hex']),
                                            binascii.unhexlify(d.get('resthex', '')), d.get('base', ''),
                                            d.get('want', ''), d.get('method', 'GET'))))
        else:
            out.append(tuple(st))
    return out


def describe(script, maxbytes=70):
    out = []
    for st in script:
        if st[0] in ('in', 'inx'):
            m = st[2]
            out.append('%s c%d %s/%s[%s] %d bytes %r' % (st[0], st[1], m.cls, m.sub, m.wf, len(m.data), m.data[:maxbytes]))
        else:
            out.append('%s c%d' % (st[0], st[1]))
    return out


# ---------------------------------------------------------------------------
# histories of the model -> scripts; predictions

def dump_histories(cfg, workers=4, timeout=1800):
    """Exhaustive TLC run with -dump on a HIST cfg -> (result, [(dv, hist, out)]).
    Like tlc.dump_states, but reads only the three variables needed, with Python's
    own parser (the values are nested tuples of strings, numbers and booleans):
    the dumps of the thorough tier have 10^5 states."""
    import re
    import shutil
    wd = tlc.workdir('dump')
    dump = os.path.join(wd, 'states')
    try:
        res = tlc.run_tlc(SPEC, 'HttpConn', cfg, workers=workers, timeout=timeout, extra=['-dump', dump])
        if res.violated:
            raise tlc.MachineryError('model HttpConn (%s) violates %s:\n%s' % (cfg, res.violated, res.out[-2000:]))
        with open(dump + '.dump') as f:
            text = f.read()
    finally:
        shutil.rmtree(wd, ignore_errors=True)
    var = re.compile(r'^/\\ (\w+) = ', re.M)
    env = {'__builtins__': {}, 'TRUE': True, 'FALSE': False}
    out = []
    for block in re.split(r'^State \d+:.*$', text, flags=re.M)[1:]:
        ms = list(var.finditer(block))
        vals = {}
        for i, m in enumerate(ms):
            if m.group(1) not in ('dv', 'hist', 'out'):
                continue
            v = block[m.end():ms[i + 1].start() if i + 1 < len(ms) else len(block)]
            v = ' '.join(v.split())
            if m.group(1) == 'dv':
                vals['dv'] = frozenset(re.findall(r'"(\w+)"', v))
            else:
                v = v.replace('<<>>', '()').replace('<<', '(').replace('>>', ',)')
                vals[m.group(1)] = eval(v, env)        # text written by TLC: tuples of literals only
        if len(vals) != 3:
            raise tlc.MachineryError('cannot read a state of the dump for %s: %s' % (cfg, block[:300]))
        out.append((vals['dv'], vals['hist'], vals['out']))
    if len(out) != res.distinct:
        raise tlc.MachineryError('dump for %s has %d states, TLC reports %d' % (cfg, len(out), res.distinct))
    return res, out


def hist_key(h):
    return tuple((x[0], x[1], x[2]) for x in h)


def realise_history(h, rnd, rep):
    """Model history [["C"|"I"|"X"|"D", c, cls]] -> concrete script.  The mutant of
    each class is drawn from rnd; Rest is the remainder of the connection's
    preceding Truncate."""
    script = []
    trunc = {}
    for op, c, cls in h:
        if op == 'C':
            script.append(('connl' if cls == 'linger' else 'conn', c))
        elif op == 'D':
            script.append(('disc', c))
        elif op == 'T':
            script.append(('tdisc', c))
        else:
            if cls == 'Rest':
                m = G.rest_of(trunc[c])
            else:
                m = G.realise(cls, rnd)
                if cls == 'Truncate':
                    trunc[c] = m
            script.append(('in' if op == 'I' else 'inx', c, m))
    return script


def effective_history(done):
    out = []
    for st in done:
        if st is None:
            continue
        if st[0] in ('conn', 'connl'):
            out.append(('C', st[1], 'linger' if st[0] == 'connl' else ''))
        elif st[0] == 'disc':
            out.append(('D', st[1], ''))
        elif st[0] == 'tdisc':
            out.append(('T', st[1], ''))
        else:
            out.append(('I' if st[0] == 'in' else 'X', st[1], st[2].cls))
    return tuple(out)


def norm_real(lines):
    """The projection of a real trace the model commits itself to (tuples shaped
    like HttpConn!Compact): the size of an input and the version label of a response
    are not predicted."""
    return tuple((ln['k'], ln['c'], ln['cls'], ln['st'], '' if ln['k'] in ('in', 'req') else ln['pr'], bool(ln['sc']),
                  0 if ln['k'] in ('in', 'resp') else ln['a'], ln['b']) for ln in lines)


def norm_model(out):
    return tuple((o[0], o[1], o[2], o[3], '' if o[0] in ('in', 'req') else o[4], bool(o[5]), o[6], o[7]) for o in out)


# ---------------------------------------------------------------------------
# enumerated families (code -> spec)

def scripts_every_mutant(rnd, quick):
    """Every mutant of every bad class: on a fresh connection and on a connection
    kept alive by a good request; followed by silence, by the peer's hang-up, or
    with the hang-up queued right behind the read."""
    out = []
    for cls, sub in G.all_subs():
        for ctxname in ('fresh', 'keptalive'):
            for ending in ('disc', 'race', 'silence'):
                if quick and ending == 'silence' and ctxname == 'keptalive':
                    continue
                m = G.realise(cls, rnd, sub=sub)
                sc = [('conn', 1)]
                if ctxname == 'keptalive':
                    sc.append(('in', 1, G.realise('GoodKA', rnd)))
                sc.append(('inx' if ending == 'race' else 'in', 1, m))
                if ending == 'disc':
                    sc.append(('disc', 1))
                out.append(('mutant:%s:%s' % (ctxname, ending), sc))
    return out


def scripts_truncations(rnd, quick):
    """A well-formed request cut at EVERY offset: then the peer hangs up / hangs up
    right behind the read / sends the rest; and the same on a second connection
    while the first stays usable."""
    out = []
    for b, off in G.truncations():
        t = G.realise('Truncate', rnd, base=b, offset=off)
        out.append(('trunc:disc', [('conn', 1), ('in', 1, t), ('disc', 1)]))
        out.append(('trunc:rest', [('conn', 1), ('in', 1, t), ('in', 1, G.rest_of(t)), ('disc', 1)]))
        if not quick or off % 3 == 0:
            out.append(('trunc:race', [('conn', 1), ('inx', 1, t)]))
        if not quick or off % 5 == 0:
            g = G.realise('GoodKA', rnd)
            out.append(('trunc:two', [('conn', 1), ('in', 1, g), ('conn', 2), ('in', 2, t), ('in', 1, g), ('disc', 2),
                                      ('in', 1, g), ('disc', 1)]))
    return out


ONE_BYTE = G.realise('Truncate', None, base=G.BASE['get11'], offset=1)


def scripts_late(rnd, quick):
    """Reads that arrive after the component has answered and fired close(sock), while
    the transport lingers: one byte, a longer proper prefix of a request, a complete
    request - after every mutant of every class and after the closing good requests."""
    out = []
    firsts = [(cls, sub) for cls, sub in G.all_subs()] + [('GoodClose', i) for i in range(len(G.CLOSE_BASES))]
    for cls, sub in firsts:
        for kind in ('byte', 'prefix', 'good', 'two'):
            if quick and kind == 'two' and cls not in ('BadHeader', 'BadLine'):
                continue
            m = G.realise(cls, rnd, sub=sub)
            if kind == 'byte':
                late = [ONE_BYTE]
            elif kind == 'prefix':
                late = [G.realise('Truncate', rnd)]
            elif kind == 'good':
                late = [G.realise('GoodKA', rnd)]
            else:
                t = G.realise('Truncate', rnd)
                late = [t, G.rest_of(t)]
            out.append(('late:' + kind, [('connl', 1), ('in', 1, m)] + [('in', 1, x) for x in late] + [('tdisc', 1), ('disc', 1)]))
    return out


def scripts_tls_cuts(rnd, quick):
    """A TLS / SSLv2 client hello cut at every offset as the FIRST read of a connection
    (and of a kept-alive one): then the rest, or the peer's hang-up."""
    out = []
    for name, hello, off in G.tls_truncations():
        t = G.Msg('TlsCut', '%s@%d' % (name, off), 'partial', hello[:off], hello[off:], name)
        out.append(('tlscut:disc', [('conn', 1), ('in', 1, t), ('disc', 1)]))
        if not quick or off <= 12 or off % 4 == 0:
            rest = G.Msg('Fuzz', 'tlsrest', 'hostile', t.rest, b'', name)
            out.append(('tlscut:rest', [('conn', 1), ('in', 1, t), ('in', 1, rest), ('disc', 1)]))
            out.append(('tlscut:keptalive', [('conn', 1), ('in', 1, G.realise('GoodKA', rnd)), ('in', 1, t), ('disc', 1)]))
    # single bytes with the high bit set, and a few without
    for b in [0x80, 0x81, 0x8f, 0xa5, 0xc0, 0xfe, 0xff, 0x16, 0x00, 0x7f]:
        t = G.Msg('TlsCut', 'byte%02x' % b, 'partial' if b >= 0x80 or b == 0x16 else 'hostile', bytes([b]), b'', 'byte')
        out.append(('tlscut:byte', [('conn', 1), ('in', 1, t), ('disc', 1)]))
        out.append(('tlscut:byte', [('connl', 1), ('in', 1, G.realise('BadHeader', rnd, sub='host_missing_11')), ('in', 1, t), ('tdisc', 1)]))
    return out


def scripts_after_head(rnd, quick):
    """A HEAD request answered on a kept-alive connection (its response has no body), then
    every mutant / every good request on the same connection; and runs of good requests of
    all kinds (each must be dispatched as what it is)."""
    out = []
    for i, (cls, sub) in enumerate(G.all_subs()):
        h = G.realise('GoodHead', rnd, sub=i)
        out.append(('afterhead:mutant', [('conn', 1), ('in', 1, h), ('in', 1, G.realise(cls, rnd, sub=sub)), ('disc', 1)]))
    goods = [('GoodKA', i) for i in range(len(G.KEEP_BASES))] + [('GoodClose', i) for i in range(len(G.CLOSE_BASES))] + \
        [('GoodHead', i) for i in range(len(G.HEAD_BASES))]
    for hi in range(len(G.HEAD_BASES)):
        for cls, i in goods:
            out.append(('afterhead:good', [('conn', 1), ('in', 1, G.realise('GoodHead', rnd, sub=hi)),
                                           ('in', 1, G.realise(cls, rnd, sub=i)), ('in', 1, G.realise('GoodKA', rnd)), ('disc', 1)]))
            t = G.realise('Truncate', rnd)
            out.append(('afterhead:trunc', [('connl', 1), ('in', 1, G.realise(cls, rnd, sub=i)), ('in', 1, G.realise('GoodHead', rnd, sub=hi)),
                                            ('in', 1, t), ('in', 1, G.rest_of(t)), ('tdisc', 1), ('disc', 1)]))
    for _ in range(20 if quick else 200):
        sc = [('conn', 1)]
        for _ in range(rnd.randint(3, 6)):
            cls, i = rnd.choice(goods)
            sc.append(('in', 1, G.realise(cls, rnd, sub=i)))
        out.append(('afterhead:run', sc + [('disc', 1)]))
    return out


def scripts_badlen(rnd, quick):
    """A non-numeric / empty / conflicting Content-Length with only the header block in the
    first read; the "body" - bytes that look like a request - follows in a later read."""
    out = []
    for head, body in G.badlen_splits(rnd):
        out.append(('badlen:split', [('conn', 1), ('in', 1, head), ('in', 1, body), ('disc', 1)]))
        out.append(('badlen:linger', [('connl', 1), ('in', 1, head), ('in', 1, body), ('tdisc', 1), ('disc', 1)]))
        out.append(('badlen:keptalive', [('conn', 1), ('in', 1, G.realise('GoodKA', rnd)), ('in', 1, head), ('in', 1, body),
                                         ('disc', 1)]))
        out.append(('badlen:headonly', [('conn', 1), ('in', 1, head), ('disc', 1)]))
        out.append(('badlen:race', [('conn', 1), ('inx', 1, head)]))
    return out


def scripts_random(rnd, n, fuzz):
    """Seeded random scripts over <= 3 connections; after an unanswered message
    anything may follow (continuation bytes of an arbitrary class)."""
    out = []
    for _ in range(n):
        nconn = rnd.choice([1, 2, 2, 3])
        sc = [('connl' if rnd.random() < 0.4 else 'conn', 1)]
        opened = {1}
        trunc = {}
        for _ in range(rnd.randint(2, 8)):
            c = rnd.randint(1, nconn)
            if c not in opened:
                sc.append(('connl' if rnd.random() < 0.4 else 'conn', c))
                opened.add(c)
                continue
            r = rnd.random()
            if r < 0.12:
                sc.append(('disc' if rnd.random() < 0.6 else 'tdisc', c))
                continue
            if fuzz and r < 0.55:
                m = G.random_garbage(rnd)
            elif r < 0.3 and c in trunc:
                m = G.rest_of(trunc.pop(c))
            else:
                cls = rnd.choice(['GoodKA', 'GoodKA', 'GoodClose', 'GoodHead', 'Truncate', 'Truncate', 'TlsCut'] + G.BAD_CLASSES)
                m = G.realise(cls, rnd)
                if cls == 'Truncate':
                    trunc[c] = m
            sc.append(('inx' if rnd.random() < 0.1 else 'in', c, m))
        out.append(('fuzz' if fuzz else 'random', sc))
    return out


# ---------------------------------------------------------------------------
# witnesses

def witness_of(lines, badline, notes):
    """Classify a rejected trace for known-finding matching: what happened on the
    connection concerned since its last message began."""
    bl = lines[badline - 1]
    c = bl['c']
    if bl['k'] == 'alive' and bl['a'] == 1:
        # close owed: find the connection that announced close and was not closed
        st = {}
        for ln in lines[:badline - 1]:
            k = ln['k']
            d = st.setdefault(ln['c'], {'sc': False, 'closed': False, 'gone': False})
            if k == 'in':
                d['sc'] = False
            elif k == 'resp':
                d['sc'] = ln['sc']
            elif k == 'close':
                d['closed'] = True
            elif k == 'disc':
                d['gone'] = True
        owed = [k for k, d in st.items() if d['sc'] and not d['closed'] and not d['gone']]
        c = owed[0] if owed else c
    # where the message concerned began (mirror of HttpConnOps!Apply: a message that has
    # drawn no reaction is continued by the next read)
    start, ph, nresp, nin, first = 0, 'none', 0, 0, None
    for i, ln in enumerate(lines[:badline]):
        if ln['c'] != c:
            continue
        k = ln['k']
        if k == 'in':
            if ph == 'recv' and nresp == 0:
                nin += 1
            else:
                start, ph, nresp, nin, first = i, 'recv', 0, 1, ln
        elif k in ('req', 'rej') and ph == 'recv':
            ph = 'disp' if k == 'req' else 'rej'
        elif k == 'resp':
            nresp += 1
    mine = [ln for ln in lines[start:badline] if ln['c'] == c]
    ins = [first] if first else []
    cls = first['cls'] if first else ''
    wf = _msg_before(lines, badline - 1, c)[0] if first else ''
    rej = [ln['st'] for ln in mine if ln['k'] == 'rej']
    req = any(ln['k'] == 'req' for ln in mine)
    resp = [ln for ln in mine if ln['k'] == 'resp']
    closed = any(ln['k'] == 'close' for ln in mine)
    discs = [ln['a'] for ln in lines[:badline] if ln['k'] == 'disc' and ln['c'] == c]
    if not ins:
        outcome = 'nomessage'
    elif req:
        outcome = 'dispatched'
    elif rej or resp:
        outcome = 'rejected'
    elif closed:
        outcome = 'plainclose'
    else:
        outcome = 'waiting'
    w = {'cls': cls, 'wf': wf, 'outcome': outcome, 'rej': rej[0] if rej else 0,
         'status': resp[0]['st'] if resp else 0, 'parse': resp[0]['pr'] if resp else '',
         'nresp': len(resp), 'exc': any(ln['k'] == 'exc' for ln in lines[start:badline]),
         'hangup': '' if not discs else ('peer' if discs[0] == 1 else 'server'),
         'continued': nin > 1}
    # was the message delivered after the component had fired close(sock) on this connection,
    # and how had the message before it been answered
    before = [ln for ln in lines[:start] if ln['c'] == c]
    w['late'] = any(ln['k'] == 'close' for ln in before)
    pstart = max([i for i, ln in enumerate(before) if ln['k'] == 'in'] or [0])
    prev = before[pstart:]
    prej = [ln['st'] for ln in prev if ln['k'] == 'rej']
    w['prev_rej'] = prej[0] if prej else 0
    w['prev_exc'] = any(ln['k'] == 'exc' for ln in prev)
    if bl['k'] == 'tab':
        w['table'] = 'parser' if bl['a'] and not bl['b'] else ('client' if bl['b'] and not bl['a'] else 'both')
    if bl['k'] == 'alive':
        w['why'] = bl['pr'] or 'close_owed'
    if bl['k'] == 'close':
        w['why'] = 'closed_after_keepalive_response' if resp else 'closed_without_answer'
    w['respver'] = resp[0]['a'] if resp else 0
    if bl['k'] == 'req':
        w['want'] = (first or {}).get('pr', '')
        w['got'] = bl['pr']
    excs = [n for n in notes if n.startswith('exception in ')]
    if excs:      # 'exception in <handler> handling <event>: <Type>: ...'
        parts = excs[-1 if bl['k'] == 'alive' else 0].split()     # a dead loop: what was raised last
        w['exc_in'] = '%s:%s' % (parts[2], parts[5].rstrip(':')) if len(parts) > 5 else ''
    heads = [ln for ln in before if ln['k'] == 'in' and ln['cls'] == 'GoodHead']
    w['after_head'] = bool(heads)
    dec = sorted({n.split(':', 1)[1] for n in notes if n.startswith('decoder:')} - {'version'})
    if bl['k'] == 'resp' and dec:
        w['decoder'] = dec[0]
    return w


# ---------------------------------------------------------------------------
# corrupted traces (binding demonstration)

HOWS = ['residue', 'two', 'garbage', 'incomplete', 'noclose', 'keptbutclosed', 'dead', 'dispatch', 'status', 'goodclosed',
        'partial', 'wrongreq', 'gooderror', 'unsup200']


def mutate_trace(rnd, lines, how):
    """Corrupt an accepted real trace so that one named clause must reject it."""
    out = [dict(ln) for ln in lines]
    idx = {k: [i for i, ln in enumerate(out) if ln['k'] == k] for k in ('resp', 'tab', 'alive', 'rej', 'close', 'req', 'in')}
    peer_gone = set()
    if how == 'wrongreq':
        # the request dispatched is that of another message
        cands = [i for i, ln in enumerate(out) if ln['k'] == 'req' and ln['pr'] and _want_before(out, i, ln['c']) == ln['pr']
                 and not any(x['k'] == 'disc' and x['a'] == 1 and x['c'] == ln['c'] for x in out[:i])]
        if not cands:
            return None
        i = rnd.choice(cands)
        out[i]['pr'] = 'HEAD /head11' if out[i]['pr'] != 'HEAD /head11' else 'GET /get11?a=1&b=two'
        return out, 'C14.wrong_request', 'request of another message dispatched at line %d' % (i + 1)
    if how in ('gooderror', 'unsup200'):
        cands = []
        for i, ln in enumerate(out):
            if ln['k'] != 'resp' or any(x['k'] == 'disc' and x['a'] == 1 and x['c'] == ln['c'] for x in out[:i]):
                continue
            j = _last_in(out, i, ln['c'])
            if any(out[k]['k'] == 'resp' and out[k]['c'] == ln['c'] for k in range(j, i)):
                continue
            wf, ph = _wf_before(out, i, ln['c']), _phase_before(out, i, ln['c'])
            if how == 'gooderror' and wf == 'good' and ph == 'disp' and ln['pr'] == 'ok' and ln['st'] < 400:
                cands.append(i)
            if how == 'unsup200' and wf in ('unsup', 'badlen') and ln['pr'] == 'ok' and ln['st'] >= 400:
                cands.append(i)
        if not cands:
            return None
        i = rnd.choice(cands)
        c = out[i]['c']
        if how == 'unsup200':
            out[i]['st'] = 200
            return out, 'C14.invalid_response', 'unsupported version answered 200 at line %d' % (i + 1)
        # the request is refused instead of dispatched
        j = max(k for k in range(i) if out[k]['k'] == 'req' and out[k]['c'] == c)
        out[j] = line('rej', c, st=400)
        out[i]['st'] = 400
        return out, 'C14.error_for_wellformed', 'good request refused with 400 at line %d' % (i + 1)
    if how == 'partial':
        # a proper prefix of a message, delivered where a message starts, is answered
        cands = []
        for i, ln in enumerate(out):
            if ln['k'] == 'in' and ln['wf'] == 'partial' and i + 1 < len(out) and out[i + 1]['k'] == 'alive' \
                    and _phase_before(out, i + 1, ln['c']) == 'recv' and _wf_before(out, i + 1, ln['c']) == 'partial' \
                    and not any(x['k'] == 'disc' and x['a'] == 1 and x['c'] == ln['c'] for x in out[:i]):
                cands.append(i)
        if not cands:
            return None
        i = rnd.choice(cands)
        c = out[i]['c']
        out[i + 1:i + 1] = [line('rej', c, st=400), line('resp', c, st=400, pr='ok', sc=True, a=1001), line('close', c)]
        return out, 'C14.two_responses', 'a proper prefix answered at line %d' % (i + 3)
    if how == 'residue':
        gone = set()
        cands = []
        for i, ln in enumerate(out):
            if ln['k'] == 'disc':
                gone.add(ln['c'])
            if ln['k'] == 'tab' and ln['c'] in gone:
                cands.append(i)
        if not cands:
            return None
        i = rnd.choice(cands)
        out[i]['a' if rnd.random() < 0.5 else 'b'] = 1
        return out, 'C14.residue', 'table entry after disconnect at line %d' % (i + 1)
    # responses whose connection's peer has not hung up before them
    live = []
    for i, ln in enumerate(out):
        if ln['k'] == 'disc' and ln['a'] == 1:
            peer_gone.add(ln['c'])
        if ln['k'] == 'resp' and ln['c'] not in peer_gone:
            live.append(i)
    if how == 'dead':
        i = rnd.choice(idx['alive'])
        out[i]['a'] = 0
        out[i]['pr'] = rnd.choice(['livelock', 'escaped', 'noprobe'])
        return out, 'C14.loop_dead', 'loop dead at line %d' % (i + 1)
    if not live:
        return None
    i = rnd.choice(live)
    c = out[i]['c']
    if how == 'two':
        out.insert(i + 1, dict(out[i]))
        return out, 'C14.two_responses', 'response repeated at line %d' % (i + 2)
    if how in ('garbage', 'incomplete'):
        out[i]['pr'] = how
        return out, 'C14.invalid_response', 'response %s at line %d' % (how, i + 1)
    if how == 'noclose':
        if not out[i]['sc']:
            return None
        j = next((j for j in range(i + 1, len(out)) if out[j]['k'] == 'close' and out[j]['c'] == c), None)
        if j is None:
            return None
        # neither the close nor the transport's disconnect that follows it
        cut = [j] + [k for k in range(j + 1, min(j + 3, len(out))) if out[k]['k'] == 'disc' and out[k]['c'] == c]
        if any(out[k]['k'] in ('disc', 'close') and out[k]['c'] == c for k in range(0, j)):
            return None        # (an earlier close of a lingering connection already covers it)
        out = [ln for k, ln in enumerate(out) if k not in cut]
        return out, 'C14.close_mismatch', 'announced close never fired (response at line %d)' % (i + 1)
    if how == 'keptbutclosed':
        if out[i]['sc'] or any(ln['k'] == 'disc' and ln['c'] == c for ln in out[:i]):
            return None
        out.insert(i + 1, line('close', c))
        return out, 'C14.close_mismatch', 'close after a keep-alive response at line %d' % (i + 2)
    if how == 'dispatch':
        rj = [j for j in idx['rej'] if out[j]['c'] == c and j < i and not any(
            out[k]['k'] in ('req', 'in') and out[k]['c'] == c for k in range(j + 1, i)) and not any(
            out[k]['k'] == 'req' and out[k]['c'] == c for k in range(max(0, j - 3), j))]
        rj = [j for j in rj if _phase_before(out, j, c) == 'recv']
        if not rj:
            return None
        j = rj[-1]
        out.insert(j + 1, line('req', c))
        return out, 'C14.dispatch_after_reject', 'request dispatched after the rejection at line %d' % (j + 1)
    if how == 'status':
        # a component-generated answer to malformed input with a 2xx status
        if _phase_before(out, i, c) != 'rej' or _wf_before(out, i, c) != 'mal':
            return None
        out[i]['st'] = 200
        return out, 'C14.invalid_response', '2xx for a rejected malformed message at line %d' % (i + 1)
    if how == 'goodclosed':
        # a complete well-formed request is closed on instead of answered
        if _wf_before(out, i, c) != 'good' or any(ln['k'] == 'disc' and ln['c'] == c for ln in out[:i]):
            return None
        if any(out[k]['k'] == 'resp' and out[k]['c'] == c for k in range(_last_in(out, i, c), i)):
            return None
        out[i] = line('close', c)
        return out, 'C14.close_mismatch', 'good request closed on without an answer at line %d' % (i + 1)
    return None


def _last_in(lines, i, c):
    j = i
    while j > 0 and not (lines[j]['k'] == 'in' and lines[j]['c'] == c):
        j -= 1
    return j


def _phase_before(lines, i, c):
    """Monitor phase of connection c before line i (mirror of HttpConnOps!Apply,
    used only to pick corruptible places)."""
    ph, nresp = 'none', 0
    for ln in lines[:i]:
        if ln['c'] != c:
            continue
        k = ln['k']
        if k == 'conn':
            ph = 'idle'
        elif k == 'in':
            if not (ph == 'recv' and nresp == 0):
                ph, nresp = 'recv', 0
        elif k in ('req', 'rej') and ph == 'recv':
            ph = 'disp' if k == 'req' else 'rej'
        elif k == 'resp':
            nresp += 1
    return ph


def _want_before(lines, i, c):
    return _msg_before(lines, i, c)[1]


def _msg_before(lines, i, c):
    """(wf, want) of the current message of connection c before line i (mirror of HttpConnOps!Apply)."""
    ph, nresp, wf, want = 'none', 0, '', ''
    for ln in lines[:i]:
        if ln['c'] != c:
            continue
        k = ln['k']
        if k == 'conn':
            ph = 'idle'
        elif k == 'in':
            if ph == 'recv' and nresp == 0:
                whole = ln['cls'] == 'Rest' and wf == 'partial' and ln['pr'] == want
                want = want if whole else ''
                wf = 'good' if whole else 'hostile'
            else:
                ph, nresp = 'recv', 0
                wf, want = ('hostile', '') if ln['cls'] == 'Rest' else (ln['wf'], ln['pr'])
        elif k in ('req', 'rej') and ph == 'recv':
            ph = 'disp' if k == 'req' else 'rej'
        elif k == 'resp':
            nresp += 1
    return wf, want


def _wf_before(lines, i, c):
    return _msg_before(lines, i, c)[0]


# ---------------------------------------------------------------------------
# replay in forked workers

def _job(job):
    script, strict = job
    try:
        return run_script(script, strict)
    except Exception as e:         # a harness failure must not be mistaken for a verdict
        import traceback
        return ('ERROR', traceback.format_exc(), describe(script))


def replay_all(scripts, stricts, procs):
    import multiprocessing as mp
    jobs = list(zip(scripts, stricts))
    if procs <= 1 or len(scripts) < 64:
        res = [_job(j) for j in jobs]
    else:
        ctx = mp.get_context('fork')
        with ctx.Pool(procs) as pool:
            res = pool.map(_job, jobs, chunksize=max(1, len(jobs) // (procs * 16)))
    for r in res:
        if r[0] == 'ERROR':
            raise tlc.MachineryError('replay failed on %s:\n%s' % (r[2], r[1]))
    return res


def show(lines):
    for i, ln in enumerate(lines, 1):
        extra = {k: ln[k] for k in KEYS[2:] if ln[k] not in ('', 0, False)}
        print('%3d %-6s c%d %s' % (i, ln['k'], ln['c'], extra or ''))


def run_replay(path):
    """./check C14 --replay <file>: re-run one recorded script on the real component."""
    rec = json.load(open(path))
    script = script_from_json(rec['detail']['script'])
    for d in describe(script, 200):
        print('   ' + d)
    lines, notes, _ = run_script(script)
    show(lines)
    for n in notes:
        print('   note: ' + n)
    verdicts, _ = tlc.validate_traces(SPEC, 'HttpConnTrace', 'HttpConnTrace.cfg', [lines], shards=1)
    clause, ln = verdicts[0]
    if clause:
        print('VIOLATION property=C14 replay=%s clause=%s line=%d witness=%s' % (
            path, clause, ln, json.dumps(witness_of(lines, ln, notes), sort_keys=True)))
        return 1
    print('replay accepted: no clause of C14 fails on this tree')
    return 0


# ---------------------------------------------------------------------------

ACTIONS = ('Connect', 'In', 'Late', 'InX', 'Disc', 'TDisc')
VARIANTS = {frozenset(): 'intended', frozenset(['echo505', 'cookieecho']): 'head'}


def run(tier, replay=None):
    use_repo()
    if replay:
        return run_replay(replay)
    from concurrent.futures import ThreadPoolExecutor
    ctx = Ctx(PID, tier)
    quick = tier == 'quick'
    rnd = random.Random(ctx.seed * 7919 + 14)
    procs = min(8, os.cpu_count() or 2)
    timing = {}
    t0 = time.time()

    # 1. TLC: the intended discipline obeys the monitor for all interleaved histories;
    #    each defect of the pinned code violates it; histories are dumped.
    suffix = '' if quick else '_thorough'
    jobs = {
        # (-coverage slows TLC down threefold: the big run goes without, a small one says which actions are taken)
        'mc': lambda: tlc.model_check(SPEC, 'HttpConn', 'MC_HttpConn%s.cfg' % suffix, workers=4),
        'cov': lambda: tlc.model_check(SPEC, 'HttpConn', 'MC_HttpConn_cov.cfg', coverage=True, workers=1),
        'gen:keepbuf': lambda: tlc.run_tlc(SPEC, 'HttpConn', 'MC_HttpConn_keepbuf.cfg', workers=1),
        'gen:echo505': lambda: tlc.run_tlc(SPEC, 'HttpConn', 'MC_HttpConn_echo505.cfg', workers=1),
        'gen:stalebuf': lambda: tlc.run_tlc(SPEC, 'HttpConn', 'MC_HttpConn_stalebuf.cfg', workers=1),
        'gen:stalepair': lambda: tlc.run_tlc(SPEC, 'HttpConn', 'MC_HttpConn_stalepair.cfg', workers=1),
        'gen:crsplit': lambda: tlc.run_tlc(SPEC, 'HttpConn', 'MC_HttpConn_crsplit.cfg', workers=1),
        'gen:cookieecho': lambda: tlc.run_tlc(SPEC, 'HttpConn', 'MC_HttpConn_cookieecho.cfg', workers=1),
        'hist:one': lambda: dump_histories('HIST_HttpConn_one%s.cfg' % suffix),
        'hist:two': lambda: dump_histories('HIST_HttpConn_two%s.cfg' % suffix),
    }
    if not quick:
        jobs['hist:twob'] = lambda: dump_histories('HIST_HttpConn_twob_thorough.cfg')
        jobs['hist:onel'] = lambda: dump_histories('HIST_HttpConn_onel_thorough.cfg')
    with ThreadPoolExecutor(max_workers=len(jobs)) as ex:
        futs = {k: ex.submit(f) for k, f in jobs.items()}
        results = {k: f.result() for k, f in futs.items()}
    timing['tlc_model_and_dumps_s'] = round(time.time() - t0, 1)
    timing['tlc_each_s'] = {k: round((v[0] if isinstance(v, tuple) else v).wall_s, 1) for k, v in results.items()}
    t0 = time.time()
    mc = results['mc']
    cov = results['cov'].coverage
    for act in ACTIONS:
        if act not in cov or cov[act][1] == 0:
            raise tlc.MachineryError('vacuous model: action %s never taken (%s)' % (act, cov))
    expect = {'gen:keepbuf': ('C14.residue',), 'gen:echo505': ('C14.invalid_response', 'C14.close_mismatch'),
              'gen:stalebuf': ('C14.two_responses', 'C14.error_for_wellformed'),
              'gen:stalepair': ('C14.wrong_request', 'C14.invalid_response'),
              'gen:crsplit': ('C14.error_for_wellformed',),
              'gen:cookieecho': ('C14.invalid_response',)}
    gen_hists = []
    for k, clause in expect.items():
        g = results[k]
        if g.violated not in ('Conforms', 'NoResidue'):
            raise tlc.MachineryError('defect variant %s of HttpConn.tla violates %r, not Conforms: the model lost its teeth' % (k, g.violated))
        last = g.error_trace[-1][1] if g.error_trace else {}
        if g.violated == 'Conforms' and last.get('bad') not in clause:
            raise tlc.MachineryError('defect variant %s fails with %r, expected %s' % (k, last.get('bad'), clause))
        if last.get('hist'):
            gen_hists.append(last['hist'])

    # predictions: variant -> effective history -> set of line sequences
    pred = {v: {} for v in VARIANTS.values()}
    hists = {}
    dump_states = 0
    for key in sorted(k for k in results if k.startswith('hist:')):
        res, states = results[key]
        dump_states += res.distinct
        for dv, hist, out in states:
            hk = hist_key(hist)
            pred[VARIANTS[dv]].setdefault(hk, set()).add(norm_model(out))
            hists[hk] = hk
    prefixes = set()
    for hk in hists:
        for i in range(len(hk)):
            prefixes.add(hk[:i])
    maximal = sorted((hk for hk in hists if hk not in prefixes), key=repr)
    for h in gen_hists:                      # the counterexamples of the defect generators are replayed too
        hk = hist_key(h)
        if hk not in hists:
            hists[hk] = h
            maximal.append(hk)
    seen_ops = {x[0] for hk in maximal for x in hk}
    if seen_ops != {'C', 'I', 'X', 'D', 'T'}:
        raise tlc.MachineryError('history dump lacks some environment action: %s' % sorted(seen_ops))
    timing['parse_dumps_s'] = round(time.time() - t0, 1)
    t0 = time.time()

    # 2. scripts
    scripts, origin = [], []
    for idx, hk in enumerate(maximal):
        two = any(x[1] > 1 for x in hk)
        for rep in range(1 if quick else (2 if two else 3)):
            r = random.Random('%d/%d/%d' % (ctx.seed, idx, rep))
            scripts.append(realise_history(hk, r, rep))
            origin.append('tlc-history')
    n_hist_scripts = len(scripts)
    for org, sc in scripts_every_mutant(rnd, quick) + scripts_truncations(rnd, quick) + scripts_late(rnd, quick) + \
            scripts_tls_cuts(rnd, quick) + scripts_after_head(rnd, quick) + scripts_badlen(rnd, quick) + \
            scripts_random(rnd, 250 if quick else 4000, fuzz=False) + scripts_random(rnd, 250 if quick else 4000, fuzz=True):
        scripts.append(sc)
        origin.append(org)

    runs = replay_all(scripts, [o == 'tlc-history' for o in origin], procs)
    timing['replay_s'] = round(time.time() - t0, 1)
    t0 = time.time()

    # 3. TLC judges every recorded trace
    traces = [r[0] for r in runs]
    verdicts, stats = tlc.validate_traces(SPEC, 'HttpConnTrace', 'HttpConnTrace.cfg', traces, shards=4 if quick else 8)
    timing['validate_s'] = round(time.time() - t0, 1)
    t0 = time.time()

    accepted = []
    n_cmp = n_match = 0
    matched_variant = {v: 0 for v in VARIANTS.values()}
    obs = {'malformed_dispatched': 0, 'exception_events': 0, 'tls_hello_not_recognised': 0,
           'answered_3xx': 0, 'waiting': 0}
    lenient = {}
    by_origin = {}
    subs_seen = set()
    for script, org, (lines, notes, done), (clause, badline) in zip(scripts, origin, runs, verdicts):
        by_origin[org.split(':')[0]] = by_origin.get(org.split(':')[0], 0) + 1
        reacted = any(ln['k'] in ('req', 'rej', 'resp', 'close') for ln in lines)
        ctx.count_case(script_to_json(script), nontrivial=reacted,
                       sample={'script': describe(script, 48), 'origin': org, 'verdict': clause or 'accepted',
                               'trace': ['%s%d%s' % (ln['k'], ln['c'], (':%d' % ln['st']) if ln['k'] in ('rej', 'resp') else '')
                                         for ln in lines][:40]})
        if clause:
            ctx.violation(clause, witness_of(lines, badline, notes),
                          {'script': script_to_json(script), 'describe': describe(script, 120), 'trace': lines,
                           'line': badline, 'notes': notes, 'origin': org})
        else:
            accepted.append(lines)
        # observations (not verdicts): what the property leaves open
        steps = [st for st in done if st is not None and st[0] in ('in', 'inx')]
        obs['exception_events'] += sum(1 for ln in lines if ln['k'] == 'exc')
        obs['answered_3xx'] += sum(1 for ln in lines if ln['k'] == 'resp' and 300 <= ln['st'] < 400)
        for st in steps:
            subs_seen.add((st[2].cls, st[2].sub.split('@')[0]))
        if len(steps) == 1 and org.startswith('mutant:fresh'):
            m = steps[0][2]
            if m.wf == 'mal' and any(ln['k'] == 'req' for ln in lines):
                obs['malformed_dispatched'] += 1
                lenient['%s/%s' % (m.cls, m.sub)] = 1
            if m.cls == 'TlsHello' and not reacted:
                obs['tls_hello_not_recognised'] += 1
            if not reacted:
                obs['waiting'] += 1
        # model's lines vs real lines
        if org == 'tlc-history' and not any(ln['k'] == 'alive' and ln['a'] == 0 for ln in lines):
            # (a run that ends in a dead loop is abandoned there: the model does not describe it)
            eh = effective_history(done)
            cands = {v: pred[v].get(eh) for v in pred if eh in pred[v]}
            if not cands:
                continue
            n_cmp += 1
            real = norm_real(lines)
            hit = [v for v, outs in cands.items() if real in outs]
            if hit:
                n_match += 1
                for v in hit:
                    matched_variant[v] += 1
            else:
                ctx.note_drift('history %s realised as %s: the real lines are none of the model\'s %d predictions: %s' % (
                    [list(x) for x in eh], describe(script, 40), sum(len(o) for o in cands.values()),
                    [(ln['k'], ln['c'], ln['st'], ln['a'], ln['b']) for ln in lines]))
    missing = [x for x in G.all_subs() if x not in subs_seen]
    if missing:
        raise tlc.MachineryError('%d mutants of the grammar were never delivered, e.g. %s' % (len(missing), missing[0]))

    # 4. binding demonstration: corrupted real traces must be rejected, by the clause aimed at
    muts = []
    pool = list(accepted)
    rnd.shuffle(pool)
    want = 120 if quick else 800
    per_clause = {}
    per_how = {h: 0 for h in HOWS}
    for how in HOWS:                  # every kind at least once, whichever trace offers it first
        for lines in pool:
            m = mutate_trace(rnd, lines, how)
            if m:
                muts.append(m)
                per_how[how] += 1
                per_clause[m[1]] = per_clause.get(m[1], 0) + 1
                break
    for lines in pool:
        if len(muts) >= want:
            break
        # the kind of corruption made least often so far that this trace offers
        for how in sorted(HOWS, key=lambda h: (per_how[h], h)):
            m = mutate_trace(rnd, lines, how)
            if m:
                muts.append(m)
                per_how[how] += 1
                per_clause[m[1]] = per_clause.get(m[1], 0) + 1
                break
    if per_how.get('partial', 0) == 0:
        raise tlc.MachineryError('self-test produced no corrupted trace of kind "partial"')
    for h in ('wrongreq', 'gooderror', 'unsup200'):
        if per_how.get(h, 0) == 0:
            raise tlc.MachineryError('self-test produced no corrupted trace of kind "%s"' % h)
    need = {'C14.residue', 'C14.two_responses', 'C14.invalid_response', 'C14.close_mismatch', 'C14.loop_dead',
            'C14.dispatch_after_reject'}
    if muts:
        mv, _ = tlc.validate_traces(SPEC, 'HttpConnTrace', 'HttpConnTrace.cfg', [m[0] for m in muts], shards=2 if quick else 4)
        missed = [(muts[i][1], muts[i][2], c) for i, (c, _) in enumerate(mv) if c != muts[i][1]]
        if missed:
            raise tlc.MachineryError('trace spec misjudged %d corrupted traces, e.g. expected %s (%s), got %r' % (
                len(missed), missed[0][0], missed[0][1], missed[0][2]))
    if need - set(per_clause):
        raise tlc.MachineryError('self-test produced no corrupted trace for %s' % sorted(need - set(per_clause)))
    timing['compare_and_selftest_s'] = round(time.time() - t0, 1)

    obs['malformed_dispatched_mutants'] = sorted(lenient)
    vh = {}
    for clause, w, _ in ctx.violations:
        key = '%s %s' % (clause, json.dumps({k: v for k, v in w.items() if k not in ('cls', 'continued', 'nresp')}, sort_keys=True))
        vh[key] = vh.get(key, 0) + 1
    return ctx.finish(coverage={
        'states': mc.distinct, 'transitions': mc.generated,
        'traces_validated_against_impl': len(traces),
        'model_histories_replayed': len(maximal), 'history_realisations': n_hist_scripts,
        'history_dump_states': dump_states,
        'scripts_by_origin': by_origin,
        'grammar_mutants': len(G.all_subs()), 'truncation_offsets': len(G.truncations()),
        'tls_hello_cut_offsets': len(G.tls_truncations()),
        'action_coverage': {k: list(v) for k, v in cov.items()},
        'model_line_exact_match': n_match, 'model_line_compared': n_cmp, 'model_variant_matches': matched_variant,
        'trace_validation_states': stats['states'],
        'corrupted_traces_rejected': len(muts), 'corrupted_by_clause': per_clause, 'corrupted_by_kind': per_how,
        'defect_variants_violate': {k: results[k].violated for k in expect},
        'observations_not_verdicts': obs,
        'rejected_traces_by_witness': vh,
        'timing': timing,
        'rule': 'cases = concrete scripts (connect / read of one concrete message / read with hang-up queued behind / peer '
                'hang-up, over <= 3 connections): every maximal environment history TLC dumps for HttpConn.tla with each class '
                'realised by a seeded mutant; every mutant of the grammar on a fresh and on a kept-alive connection with three '
                'endings; every base request cut at every offset (then hang-up / rest / racing hang-up / beside a second '
                'connection); seeded random scripts and byte-level fuzz; non-trivial = the component reacted (request, '
                'rejection, response or close); distinct by hash of the script',
        'exhaustive': False,
    }, assumptions=[
        'transport is the socket double of harness/httpdouble.py: close(sock) is followed by disconnect(sock) at once, or - '
        'lingering connections - when the harness says so, reads being delivered in between, as circuits.net.sockets.Server '
        'does while its write buffer drains (the buffer itself is C11/C12); no read is delivered after disconnect',
        'every message is delivered as one read event and the pipeline is quiescent before the next (no pipelining; '
        'segmentation is C13); truncation + rest covers two-segment delivery at every offset',
        'http.client.HTTPResponse is the independent response parser: a response it cannot read (including one labelled '
        'with an HTTP version other than 0.9 / 1.x) is not a valid response on an HTTP/1.x connection',
        'the input language is sampled by the mutation grammar (classes built from the parser\'s branch conditions), not '
        'enumerated; TLC enumerates the histories over the classes',
        'the application is a trivial root controller that answers every path with 200',
    ])


def _explore(argv):
    """python -m harness.drivers.c14 explore [cls[/sub] ...]: what the tree under test does."""
    use_repo()
    rnd = random.Random(1)
    sel = argv or G.BAD_CLASSES
    for a in sel:
        cls, _, sub = a.partition('/')
        subs = [sub] if sub else [e[0] for e in G.SUBS[cls]]
        for s in subs:
            m = G.realise(cls, rnd, sub=s)
            lines, notes, _ = run_script([('conn', 1), ('in', 1, m), ('disc', 1)])
            evs = ['%s%s' % (ln['k'], (':%d' % ln['st']) if ln['k'] in ('rej', 'resp') else
                             (':%d/%d' % (ln['a'], ln['b'])) if ln['k'] == 'tab' else
                             (':' + ln['pr']) if ln['k'] == 'alive' and ln['pr'] else '') for ln in lines[3:]]
            print('%-10s %-22s %-8s base=%-11s %s' % (cls, s, m.wf, m.base, ' '.join(evs)))
            for n in notes:
                print('      ' + n[:200])


if __name__ == '__main__':
    if sys.argv[1:2] == ['explore']:
        _explore(sys.argv[2:])
