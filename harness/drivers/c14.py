"""C14 - any bytes on an HTTP connection: wait, one valid error response, or close; never a crash.

Pipeline (DESIGN 6/C14):
  1. TLC checks spec/web/HttpConn.tla exhaustively: two interleaved connections,
     <= 4 inputs each over the input classes, disconnect at every point; the
     intended table discipline (Variant = "fixed": everything keyed by the socket
     is released when `disconnect(sock)` is delivered) obeys the C14 monitor of
     HttpConnOps; the discipline of the pinned code (Variant = "pinned": the parser
     table is only released on some exits) must violate it (defect generator).
  2. TLC dumps the environment histories (HIST_*.cfg: `hist` in the state); each
     is replayed on the real circuits.web.http.HTTP component (harness/httpdouble.py:
     real HTTP + Dispatcher + a trivial root controller over a socket double), each
     input class realised by seeded concrete mutants of the grammar in
     c14_grammar.py.  Further enumerated families: every mutant of every class on a
     fresh and on a kept-alive connection, truncation at EVERY offset of every base
     request (then disconnect / then the rest), seeded random scripts and byte fuzz.
  3. What the component does is recorded as trace lines (request / httperror /
     exception / close / disconnect events in real order; the bytes written are
     decoded by http.client.HTTPResponse, an independent implementation; the
     component's dict/set attributes are searched for the socket after every step;
     a probe event shows the loop is alive) and judged by TLC with
     spec/web/HttpConnTrace.tla (same monitor).  The model's predicted lines are
     compared with the real ones (conformance drift).
"""

import binascii
import http.client
import io
import json
import os
import random
import re
import sys
import time

from .. import tlc
from ..core import Ctx, use_repo, VERIF
from . import c14_grammar as G

SPEC = 'spec/web'
PID = 'C14'
SETTLE_TICKS = 400          # a legitimate exchange settles in < 20 ticks (measured); a livelock never does
MAXC = 3                    # connection ids the monitor knows (HttpConnOps!ConnIds)

KEYS = ('k', 'c', 'cls', 'wf', 'st', 'pr', 'sc', 'a', 'b')


def line(k, c=0, cls='', wf='', st=0, pr='', sc=False, a=0, b=0):
    return {'k': k, 'c': c, 'cls': cls, 'wf': wf, 'st': st, 'pr': pr, 'sc': sc, 'a': a, 'b': b}


# ---------------------------------------------------------------------------
# the independent decoder: the client's view of the bytes written in one step

class _Bio(io.BytesIO):
    def close(self):            # HTTPResponse closes its file when a message ends
        pass


class _FakeSock:
    def __init__(self, bio):
        self.bio = bio

    def makefile(self, *a, **kw):
        return self.bio


_VERSION = re.compile(rb'^HTTP/(\d)\.(\d) ')


def decode_responses(data, method='GET', limit=6):
    """Successive responses in `data` -> [(end offset, status, parse, announces_close, why)].
    parse: "ok" | "garbage" (no status line / headers do not parse) | "incomplete"
    (headers fine, body shorter than announced).

    http.client refuses any HTTP-version other than 0.9 / 1.x although
    `HTTP/2.0 505 ...` is a status line of the RFC 7230 grammar (HTTP-name "/"
    DIGIT "." DIGIT); "syntactically valid" is all C14 asks, so such a token is
    read as HTTP/1.1 (why = "version:<token>" records it).  A token that is not
    of that form stays garbage."""
    out = []
    pos = 0
    while pos < len(data) and len(out) < limit:
        seg = data[pos:]
        why = ''
        m = _VERSION.match(seg)
        if m and not (m.group(1) == b'1' or (m.group(1), m.group(2)) == (b'0', b'9')):
            why = 'version:' + seg[:8].decode('latin1')
            seg = b'HTTP/1.1' + seg[8:]
        bio = _Bio(seg)
        r = http.client.HTTPResponse(_FakeSock(bio), method=method)
        try:
            r.begin()
        except (http.client.HTTPException, ValueError, OSError, UnicodeError) as e:
            out.append((len(data), 0, 'garbage', False, type(e).__name__))
            return out
        toks = [t.strip() for t in ','.join(r.headers.get_all('Connection') or []).lower().split(',')]
        sc = 'close' in toks or (r.version == 10 and 'keep-alive' not in toks) or \
            (r.length is None and not r.chunked)          # close-delimited body
        short = False
        try:
            r.read()
        except (http.client.HTTPException, ValueError, OSError) as e:
            out.append((len(data), r.status, 'incomplete', sc, type(e).__name__))
            return out
        if not r.chunked and r.length not in (None, 0):     # read() came back short without raising
            short = True
        pos += bio.tell()
        out.append((pos, r.status, 'incomplete' if short else 'ok', sc, why))
    return out


# ---------------------------------------------------------------------------
# the world: real HTTP component + dispatcher + trivial root controller

class World:
    """One Manager with the real HTTP component; up to MAXC connections; every
    observation is appended to self.lines in real order."""

    def __init__(self):
        from ..httpdouble import HttpHarness
        from circuits import BaseComponent, Event, handler
        from circuits.web import Controller

        world = self
        self.lines = []
        self.notes = []          # diagnostics (exception texts, decoder complaints) - not part of the trace
        self.conns = {}          # c -> Conn
        self.cid = {}            # id(sock) -> c
        self.peer = set()        # connections whose disconnect the harness injected
        self.dead = False
        self._writes = {}        # c -> [(index in self.lines where the write happened, bytes)]
        self._probe_seen = 0

        class c14probe(Event):
            """fired by the harness after every step: is the loop still dispatching?"""

        self._probe_event = c14probe

        class Root(Controller):
            def index(self, *args, **kwargs):
                return 'Hello C14'

        class Recorder(BaseComponent):
            channel = 'web'

            @handler('write', priority=200.0)
            def _w(self, sock, data):
                c = world.cid.get(id(sock), 0)
                world._writes.setdefault(c, []).append((len(world.lines), bytes(data)))

            @handler('close', priority=200.0)
            def _c(self, sock=None):
                world.lines.append(line('close', world.cid.get(id(sock), 0)))

            @handler('disconnect', priority=200.0)
            def _d(self, sock=None):
                c = world.cid.get(id(sock), 0)
                world.lines.append(line('disc', c, a=1 if c in world.peer else 0))

            @handler('request', priority=200.0)
            def _r(self, event, req, res, *args, **kwargs):
                world.lines.append(line('req', world.cid.get(id(req.sock), 0)))

            @handler('httperror', priority=200.0)
            def _e(self, event, req, res, code=None, **kwargs):
                world.lines.append(line('rej', world.cid.get(id(getattr(req, 'sock', None)), 0), st=int(event.code or 0)))

            @handler('exception', channel='*', priority=200.0)
            def _x(self, etype, evalue, tb, handler=None, fevent=None):
                c = 0
                args = getattr(fevent, 'args', ())
                for a in args[:2]:
                    s = a if id(a) in world.cid else getattr(getattr(a, 'request', a), 'sock', None)
                    if id(s) in world.cid:
                        c = world.cid[id(s)]
                        break
                world.lines.append(line('exc', c))
                world.notes.append('exception in %s handling %s: %s: %s' % (
                    getattr(handler, '__name__', handler), getattr(fevent, 'name', None), etype.__name__, str(evalue)[:120]))

            @handler('c14probe', priority=200.0)
            def _p(self, *a):
                world._probe_seen += 1

        self.h = HttpHarness(Root())
        self.recorder = Recorder().register(self.h.server)
        self.h.settle()

    # -- observation -----------------------------------------------------------
    def tables(self, sock):
        """(entries keyed by `sock` in parser/buffer tables, in other tables) over the
        dict / set / list attributes of the HTTP component; names of the tables."""
        nb = nc = 0
        names = []
        for name, val in sorted(vars(self.h.http).items()):
            if name in ('_handlers', '_cache', '_globals', 'components', '_queue', '_tasks', '_flush_batch'):
                continue
            try:
                if isinstance(val, dict):
                    hit = sock in val or any(getattr(getattr(v, 'request', v), 'sock', None) is sock
                                             for v in val.values() if not isinstance(v, (tuple, list)))
                    hit = hit or any(any(getattr(x, 'sock', None) is sock for x in v)
                                     for v in val.values() if isinstance(v, (tuple, list)))
                elif isinstance(val, (set, frozenset, list, tuple)) or type(val).__name__ == 'deque':
                    hit = sock in val
                else:
                    continue
            except TypeError:
                continue
            if hit:
                names.append(name)
                if 'buf' in name.lower() or 'pars' in name.lower():
                    nb += 1
                else:
                    nc += 1
        return nb, nc, names

    def _flush_writes(self):
        """Decode what was written to each connection during this step and insert a
        `resp` line where the write that completed each response happened."""
        inserts = []      # (position, order, line)
        for c, ws in self._writes.items():
            data = b''.join(w[1] for w in ws)
            ends, tot = [], 0
            for pos, d in ws:
                tot += len(d)
                ends.append((tot, pos))
            for n, (end, st, pr, sc, why) in enumerate(decode_responses(data)):
                pos = next(p for t, p in ends if t >= min(end, tot))
                inserts.append((pos, n, line('resp', c, st=st, pr=pr, sc=sc)))
                if why:
                    self.notes.append('decoder on connection %d: %s; bytes %r' % (c, why, data[:80]))
        self._writes = {}
        for pos, n, ln in sorted(inserts, key=lambda t: (-t[0], -t[1])):
            self.lines.insert(pos, ln)

    def _end_step(self, c):
        """Settle, decode, probe, tables."""
        from ..httpdouble import NotQuiescent
        why = ''
        try:
            self.h.settle(SETTLE_TICKS)
        except NotQuiescent:
            why = 'livelock'
        except Exception as e:     # an exception left tick()
            why = 'escaped'
            self.notes.append('exception left tick(): %r' % (e,))
        self._flush_writes()
        if not why:
            seen = self._probe_seen
            try:
                self.h.fire(self._probe_event())
                self.h.settle(SETTLE_TICKS)
            except NotQuiescent:
                why = 'livelock'
            except Exception as e:
                why = 'escaped'
                self.notes.append('exception left tick(): %r' % (e,))
            if not why and self._probe_seen != seen + 1:
                why = 'noprobe'
            self._flush_writes()
        self.lines.append(line('alive', c, pr=why, a=0 if why else 1))
        if why:
            self.dead = True
        for k in sorted(self.conns):
            nb, nc, _ = self.tables(self.conns[k].sock)
            self.lines.append(line('tab', k, a=nb, b=nc))

    # -- driving ---------------------------------------------------------------
    def connect(self, c):
        self.lines.append(line('conn', c))
        conn = self.h.connect(settle=False)
        self.conns[c] = conn
        self.cid[id(conn.sock)] = c
        self._end_step(c)

    def feed(self, c, msg, then_disconnect=False):
        """Deliver msg.data as one read event; then_disconnect: the peer's hang-up is
        queued right behind the read (no tick in between)."""
        self.lines.append(line('in', c, cls=msg.cls, wf=msg.wf, a=min(len(msg.data), 10 ** 9)))
        self.conns[c].feed(msg.data, settle=False)
        if then_disconnect:
            self.peer.add(c)
            self.conns[c].disconnect(settle=False)
        self._end_step(c)

    def disconnect(self, c):
        self.peer.add(c)
        self.conns[c].disconnect(settle=False)
        self._end_step(c)

    def gone(self, c):
        conn = self.conns[c]
        return conn.closed or conn.peer_gone

    def close(self):
        self.h.close()


# ---------------------------------------------------------------------------
# scripts: [('conn', c) | ('in', c, Msg) | ('inx', c, Msg) | ('disc', c)]
# ('inx' = read with the peer's disconnect queued right behind it)

def run_script(script):
    """Replay a concrete script on the real component -> (lines, notes, steps done).
    Steps addressed to a connection that is already gone are skipped (the model
    only produces them when the code reacts differently from the model)."""
    w = World()
    done = []
    try:
        for step in script:
            if w.dead:
                break
            op, c = step[0], step[1]
            if op == 'conn':
                if c in w.conns:
                    continue
                w.connect(c)
            elif c not in w.conns or w.gone(c):
                done.append(None)
                continue
            elif op == 'in':
                w.feed(c, step[2])
            elif op == 'inx':
                w.feed(c, step[2], then_disconnect=True)
            elif op == 'disc':
                w.disconnect(c)
            done.append(step)
        return w.lines, w.notes, done
    finally:
        w.close()


def script_to_json(script):
    out = []
    for st in script:
        if st[0] in ('in', 'inx'):
            m = st[2]
            out.append([st[0], st[1], {'cls': m.cls, 'sub': m.sub, 'wf': m.wf, 'base': m.base,
                                       'hex': binascii.hexlify(m.data).decode(), 'resthex': binascii.hexlify(m.rest).decode()}])
        else:
            out.append(list(st))
    return out


def script_from_json(js):
    out = []
    for st in js:
        if st[0] in ('in', 'inx'):
            d = st[2]
            out.append((st[0], st[1], G.Msg(d['cls'], d['sub'], d['wf'], binascii.unhexlify(d['hex']),
                                            binascii.unhexlify(d.get('resthex', '')), d.get('base', ''))))
        else:
            out.append(tuple(st))
    return out


def describe(script, maxbytes=70):
    out = []
    for st in script:
        if st[0] in ('in', 'inx'):
            m = st[2]
            out.append('%s c%d %s/%s[%s] %d bytes %r' % (st[0], st[1], m.cls, m.sub, m.wf, len(m.data), m.data[:maxbytes]))
        else:
            out.append('%s c%d' % (st[0], st[1]))
    return out


def _explore(argv):
    """python -m harness.drivers.c14 explore [cls[/sub] ...]: what the tree under test does."""
    use_repo()
    rnd = random.Random(1)
    sel = argv or G.BAD_CLASSES
    for a in sel:
        cls, _, sub = a.partition('/')
        subs = [sub] if sub else [e[0] for e in G.SUBS[cls]]
        for s in subs:
            m = G.realise(cls, rnd, sub=s)
            lines, notes, _ = run_script([('conn', 1), ('in', 1, m), ('disc', 1)])
            evs = ['%s%s' % (ln['k'], (':%d' % ln['st']) if ln['k'] in ('rej', 'resp') else
                             (':%d/%d' % (ln['a'], ln['b'])) if ln['k'] == 'tab' else
                             (':' + ln['pr']) if ln['k'] == 'alive' and ln['pr'] else '') for ln in lines[3:]]
            print('%-10s %-22s %-8s base=%-11s %s' % (cls, s, m.wf, m.base, ' '.join(evs)))
            for n in notes:
                print('      ' + n[:200])


if __name__ == '__main__':
    if sys.argv[1:2] == ['explore']:
        _explore(sys.argv[2:])
