"""C16 - static files: only contents from inside the document root, exact byte ranges.

Pipeline (DESIGN 5/C16), twice - once for request paths, once for Range headers:
  1. TLC checks the generative model (spec/web/StaticPath.tla, Ranges.tla)
     exhaustively over its finite case space: the intended algorithm obeys the
     C16 monitor (StaticPathOps / RangesOps) for every token sequence x mount x
     front end, resp. every Range header x file size x front end; the variants
     that model the pinned tree's defects must be caught (teeth).
  2. TLC dumps every case (hist) with the lines the model emits, for the
     intended and for the pinned variant; each case is replayed on the real
     circuits.web.http.HTTP + circuits.web.dispatchers.static.Static over a
     real temporary tree (spec -> code); the recorded lines are compared with
     the model's.
  3. The recorded traces, plus seeded random larger cases, are judged by TLC
     with StaticPathTrace / RangesTrace, which reuse the monitors (code -> spec).
No sockets: the HTTP component gets a server double; `read` events carry the raw
request bytes, `write` events are collected and parsed back.
"""

import json
import os
import random
import re
import shutil
import sys
import tempfile
import time
from concurrent.futures import ThreadPoolExecutor

from .. import tlc, tlaval
from ..core import Ctx, use_repo, VERIF

SPEC = 'spec/web'

# token name (StaticPathOps.Tokens) -> spelling on the wire
SPELL = {'dd': '..', 'd': '.', 'e': '', 'dir': 'sub', 'file': 'f.txt', 'miss': 'nope',
         'e1': '%2e%2e', 'e2': '%252e%252e', 'es': '..%2f..', 'bs': '..\\',
         'sib': 'www_evil', 'sec': 'secret.txt'}
BASE_TOKENS = sorted(SPELL)
# exotic tokens (StaticPathOps.ExoticTokens): segments that cannot name anything - a NUL byte
# survives the one level of decoding, an invalid UTF-8 escape, a name longer than NAME_MAX
SPELL.update({'n0': '%00', 'fn': 'f.txt%00', 'nf': 'f%00.txt', 'dn': '..%00', 'xff': '%ff', 'long': 'a' * 300})
# an encoded slash followed by the absolute path of the docroot's parent: spelled per tree (Tree.__init__)
SPELL.update({'ap': None, 'apf': None, 'ap5': None})
EXOTIC_TOKENS = sorted(set(SPELL) - set(BASE_TOKENS))
BAD_SPELL = {1: 'abc-', 2: '5', 3: '-', 4: '-xyz', 5: '2-x',
             6: '1-+5', 7: '+1-5', 8: '1_0-2_0', 9: '--5', 10: '\u00b2-5', 11: '1 0-5'}
OUTSIDE_BODIES = ('gp_f', 'parent_f', 'secret', 'evil_f', 'list_gp', 'list_parent', 'list_evil', 'list_top')
PATH_KEYS = ('k', 'mount', 'fe', 'n', 't1', 't2', 't3', 't4', 't5', 't6', 'status', 'body', 'leak')


# --------------------------------------------------------------------------
# the real tree

class Tree:
    """T/g/p/www is the document root; see StaticPathOps for the layout."""

    FILES = {'root_f': 'g/p/www/f.txt', 'sub_f': 'g/p/www/sub/f.txt', 'evil_f': 'g/p/www_evil/f.txt',
             'parent_f': 'g/p/f.txt', 'secret': 'g/p/secret.txt', 'gp_f': 'g/f.txt'}
    DIRS = {'list_root': 'g/p/www', 'list_sub': 'g/p/www/sub', 'list_evil': 'g/p/www_evil',
            'list_parent': 'g/p', 'list_gp': 'g', 'list_top': ''}

    def __init__(self, seed):
        os.makedirs(os.path.join(VERIF, '.work'), exist_ok=True)
        self.top = tempfile.mkdtemp(prefix='c16-tree-', dir=os.path.join(VERIF, '.work'))
        rnd = random.Random(seed)
        self.nonce = '%016x' % rnd.getrandbits(64)
        self.content = {}          # bytes -> file id
        self.markers = []          # byte strings that must never occur in a response
        self.idmark = {}           # listing id -> marker file name
        for lid, rel in self.DIRS.items():
            d = os.path.join(self.top, rel)
            os.makedirs(d, exist_ok=True)
            name = 'id_%s_%s.mk' % (lid[5:], self.nonce[:6])
            with open(os.path.join(d, name), 'wb'):
                pass
            self.idmark[lid] = name.encode()
            if lid in OUTSIDE_BODIES:
                self.markers.append(name.encode())
        for fid, rel in self.FILES.items():
            data = ('C16-%s-%s-%s' % (fid.upper(), self.nonce, 'x' * rnd.randint(0, 9))).encode()
            with open(os.path.join(self.top, rel), 'wb') as f:
                f.write(data)
            self.content[data] = fid
            if fid in OUTSIDE_BODIES:
                self.markers.append(('C16-%s-%s' % (fid.upper(), self.nonce)).encode())
        self.docroot = os.path.join(self.top, 'g', 'p', 'www')
        parent = os.path.dirname(self.docroot)          # absolute, starts with '/'
        self.abs_spell = {'ap': '%2F' + parent[1:], 'apf': parent.replace('/', '%2f'), 'ap5': '%5C' + parent[1:]}
        self.range_files = {}
        # the model assumes that no token names anything that exists above G
        up = self.top
        while True:
            for t in SPELL.values():
                if t is not None and t not in ('', '.', '..', '..%2f..') and os.path.lexists(os.path.join(up, t)):
                    raise tlc.MachineryError('%s exists: the abstract file system of StaticPathOps does not hold here'
                                             % os.path.join(up, t))
            nxt = os.path.dirname(up)
            if nxt == up:
                break
            up = nxt

    def use_spellings(self):
        SPELL.update(self.abs_spell)
        return self

    def range_file(self, size):
        if size not in self.range_files:
            if size <= 200:
                data = bytes(range(33, 33 + size))     # distinct bytes: a slice has one offset
            else:
                data = random.Random(size).randbytes(size)
            name = 'r%d.bin' % size
            with open(os.path.join(self.docroot, name), 'wb') as f:
                f.write(data)
            self.range_files[size] = (name, data)
        return self.range_files[size]

    def inside(self, path):
        p = os.path.realpath(path)
        return p == self.docroot or p.startswith(self.docroot + os.sep)

    def remove(self):
        shutil.rmtree(self.top, ignore_errors=True)


# --------------------------------------------------------------------------
# the real components

class FakeServer:
    """What circuits.web.http.HTTP and the wrappers read from their server."""
    host = '127.0.0.1'
    port = 8000
    secure = False
    display_banner = False


class SockDouble:
    def getpeername(self):
        return ('127.0.0.1', 50000)


class App:
    """Manager + real HTTP + real Static (+ a collector of write/close events)."""

    def __init__(self, tree, mount):
        from circuits import BaseComponent, Manager, handler
        from circuits.web.dispatchers.static import Static
        from circuits.web.http import HTTP

        app = self
        self.out = {}
        self.closed = set()

        class Collector(BaseComponent):
            channel = 'web'

            @handler('write')
            def _on_write(self, sock, data):
                app.out.setdefault(sock, bytearray()).extend(data)

            @handler('close')
            def _on_close(self, sock):
                app.closed.add(sock)

        self.m = Manager()
        self.server = FakeServer()
        self.http = HTTP(self.server).register(self.m)
        self.server.http = self.http
        self.static = Static(None if mount == '/' else mount, tree.docroot, dirlisting=True).register(self.m)
        Collector().register(self.m)
        self.settle()

    def settle(self):
        for _ in range(2000):
            if not len(self.m):
                return
            self.m.flush()
        raise tlc.MachineryError('the web pipeline does not settle')

    def request(self, fe, path, headers=()):
        """-> raw bytes written to the connection for this one request."""
        sock = SockDouble()
        if fe == 'http':
            from circuits.net.events import read
            raw = 'GET %s HTTP/1.1\r\nHost: localhost\r\n' % path
            raw += ''.join('%s: %s\r\n' % kv for kv in headers) + '\r\n'
            self.m.fire(read(sock, raw.encode('latin-1')), 'web')
        else:
            from circuits.web import wrappers
            from circuits.web.events import request
            from circuits.web.headers import Headers
            hdrs = Headers([('Host', 'localhost')] + list(headers))
            req = wrappers.Request(sock, 'GET', 'http', path, (1, 1), '', headers=hdrs, server=self.server)
            res = wrappers.Response(req)
            self.m.fire(request(req, res), 'web')
        self.settle()
        self.closed.discard(sock)
        self.http._buffers.pop(sock, None)     # (the redirect guard leaves its parser behind: C14's business)
        self.http._clients.pop(sock, None)
        return bytes(self.out.pop(sock, b''))


_STATUS = re.compile(rb'^HTTP/1\.[01] (\d{3})(?: |$)')


def parse_response(raw):
    """Independent reading of what went to the wire: status, headers (lower-case
    name -> [values]), de-chunked body, whether the framing could be decoded."""
    r = {'status': 0, 'headers': {}, 'body': b'', 'framing': True, 'clen': -1}
    if not raw:
        return r
    head, sep, rest = raw.partition(b'\r\n\r\n')
    lines = head.split(b'\r\n')
    m = _STATUS.match(lines[0])
    if not m or not sep:
        r['framing'] = False
        return r
    r['status'] = int(m.group(1))
    for ln in lines[1:]:
        k, c, v = ln.partition(b':')
        r['headers'].setdefault(k.strip().lower().decode('latin-1'), []).append(v.strip().decode('latin-1'))
    h = r['headers']
    if 'content-length' in h:
        v = h['content-length'][0]
        r['clen'] = int(v) if v.isdigit() and len(v) < 10 else -2
    if any('chunked' in v.lower() for v in h.get('transfer-encoding', [])):
        body = bytearray()
        pos = 0
        ok = False
        while True:
            e = rest.find(b'\r\n', pos)
            if e < 0:
                break
            szs = rest[pos:e].split(b';')[0].strip()
            if not re.fullmatch(rb'[0-9a-fA-F]{1,8}', szs):
                break
            sz = int(szs, 16)
            pos = e + 2
            if sz == 0:
                ok = rest[pos:] == b'\r\n'
                break
            if rest[pos + sz:pos + sz + 2] != b'\r\n' or len(rest) < pos + sz + 2:
                break
            body += rest[pos:pos + sz]
            pos += sz + 2
        r['body'] = bytes(body)
        r['framing'] = ok
    else:
        r['body'] = rest
    return r


# --------------------------------------------------------------------------
# paths

def path_string(mount, toks):
    return ('' if mount == '/' else mount) + '/' + '/'.join(SPELL[t] for t in toks)


def req_line(mount, fe, toks):
    t = list(toks) + [''] * (6 - len(toks))
    return {'k': 'req', 'mount': mount, 'fe': fe, 'n': len(toks), 't1': t[0], 't2': t[1], 't3': t[2], 't4': t[3],
            't5': t[4], 't6': t[5], 'status': 0, 'body': '', 'leak': False}


def resp_line(status, body, leak):
    return {'k': 'resp', 'mount': '', 'fe': '', 'n': 0, 't1': '', 't2': '', 't3': '', 't4': '', 't5': '', 't6': '',
            'status': status, 'body': body, 'leak': leak}


def identify_body(tree, resp):
    if not resp['framing']:
        return 'other'
    body = resp['body']
    if body in tree.content:
        return tree.content[body]
    ids = [lid for lid, mk in tree.idmark.items() if mk in body]
    if len(ids) == 1 and b'Index of' in body:
        return ids[0]
    if not body:
        return 'empty'
    return 'other'


def run_path_case(tree, apps, mount, fe, toks):
    raw = apps[mount].request(fe, path_string(mount, toks))
    resp = parse_response(raw)
    st = resp['status']
    body = identify_body(tree, resp) if 200 <= st < 300 else 'other'
    leak = any(mk in raw for mk in tree.markers)
    return [req_line(mount, fe, toks), resp_line(st, body, leak)]


def path_witness(mount, fe, toks, lines):
    return {'part': 'path', 'fe': fe, 'mount': mount, 'body': lines[1]['body'], 'status': lines[1]['status'],
            'lead_empty': len(toks) >= 2 and toks[0] == 'e',
            'nul': any(t in ('n0', 'fn', 'nf', 'dn') for t in toks)}


# --------------------------------------------------------------------------
# ranges

def spec_string(sp):
    k = sp['kind']
    if k == 'closed':
        return '%d-%d' % (sp['a'], sp['b'])
    if k == 'open':
        return '%d-' % sp['a']
    if k == 'suffix':
        return '-%d' % sp['a']
    return BAD_SPELL[sp['a']]


def rline(k, s='', a=0, b=0, c=0, d=0, e=0):
    return {'k': k, 's': s, 'a': a, 'b': b, 'c': c, 'd': d, 'e': e}


_CR = re.compile(r'^bytes (\d{1,9})-(\d{1,9})/(\d{1,9})$')
_CRSTAR = re.compile(r'^bytes \*/(\d{1,9})$')


def content_range(values):
    """-> (form, first, last, total)"""
    if not values:
        return ('none', -1, -1, -1)
    if len(values) > 1:
        return ('garbled', -1, -1, -1)
    m = _CR.match(values[0])
    if m:
        return ('range', int(m.group(1)), int(m.group(2)), int(m.group(3)))
    m = _CRSTAR.match(values[0])
    if m:
        return ('star', -1, -1, int(m.group(1)))
    return ('garbled', -1, -1, -1)


def slice_of(data, blob, hint=0):
    """-> (offset, length) of blob in data, offset -1 if it is not a slice; the
    empty blob is the slice (0, 0).  Files up to 200 bytes have distinct bytes (one
    offset); in the large file the offset the response itself names is tried first."""
    if not blob:
        return (0, 0)
    if 0 <= hint and data[hint:hint + len(blob)] == blob:
        return (hint, len(blob))
    return (data.find(blob), len(blob))


def split_multipart(body, boundary):
    """Strict multipart/byteranges reader -> [(headers dict, data)] or None."""
    delim = b'--' + boundary
    chunks = body.split(delim)
    if len(chunks) < 3 or chunks[0] not in (b'', b'\r\n') or chunks[-1] not in (b'--', b'--\r\n'):
        return None
    parts = []
    for ch in chunks[1:-1]:
        if not ch.startswith(b'\r\n') or not ch.endswith(b'\r\n'):
            return None
        head, sep, data = ch[2:-2].partition(b'\r\n\r\n')
        if not sep:
            return None
        hd = {}
        for ln in head.split(b'\r\n'):
            k, c, v = ln.partition(b':')
            hd.setdefault(k.strip().lower().decode('latin-1'), []).append(v.strip().decode('latin-1'))
        parts.append((hd, data))
    return parts


def run_range_case(tree, app, size, fe, specs):
    name, data = tree.range_file(size)
    headers = [('Range', 'bytes=' + ','.join(spec_string(sp) for sp in specs))] if specs else []
    raw = app.request(fe, '/' + name, headers)
    resp = parse_response(raw)
    lines = [rline('req', fe, size, len(specs))]
    for sp in specs:
        lines.append(rline('spec', sp['kind'], sp['a'], sp['b']))
    st = resp['status']
    h = resp['headers']
    cr = content_range(h.get('content-range')) if st in (206, 416) else ('none', -1, -1, -1)
    two = 200 <= st < 300
    lines.append(rline('resp', cr[0], st, cr[1], cr[2], cr[3], resp['clen'] if two else -1))
    if two:
        ctype = (h.get('content-type') or [''])[0]
        if not resp['framing']:
            lines.append(rline('body', 'garbled', -1, 0))
        elif ctype.lower().startswith('multipart/byteranges'):
            m = re.search(r'boundary="?([^";]+)"?', ctype)
            parts = split_multipart(resp['body'], m.group(1).encode('latin-1')) if m else None
            if parts is None:
                lines.append(rline('body', 'garbled', -1, 0))
            else:
                lines.append(rline('body', 'multipart', -1, 0))
                for hd, pdata in parts:
                    pcr = content_range(hd.get('content-range'))
                    off, ln = slice_of(data, pdata, pcr[1] if pcr[0] == 'range' else 0)
                    if pcr[0] == 'range':
                        lines.append(rline('part', 'range', pcr[1], pcr[2], pcr[3], off, ln))
                    else:
                        lines.append(rline('part', 'garbled', -1, -1, -1, off, ln))
        else:
            off, ln = slice_of(data, resp['body'], cr[1] if cr[0] == 'range' else 0)
            if off < 0:
                lines.append(rline('body', 'other', -1, ln))
            else:
                lines.append(rline('body', 'slice', off, ln))
    lines.append(rline('end'))
    return lines


def range_triggers(size, specs):
    """Which of the input classes that the pinned get_ranges mishandles occur in
    this header (for known-finding matching only; the verdict is TLC's)."""
    t = set()
    for sp in specs:
        k, a, b = sp['kind'], sp['a'], sp['b']
        if k == 'bad' and a == 10:
            t.add('non_ascii_digit')
        elif k == 'bad' and a in (6, 7, 8, 9, 11):
            t.add('signed_or_grouped_number')
        elif k == 'bad' and a != 3:
            t.add('non_numeric')
        elif k == 'suffix' and a == 0:
            t.add('suffix_zero')
        elif k == 'suffix' and a > size:
            t.add('suffix_longer_than_file')
        elif k == 'closed' and a <= b and a < size <= b:
            t.add('last_beyond_eof')
        elif k == 'closed' and a > b and a >= size:
            t.add('reversed_beyond_eof')
    return '+'.join(sorted(t)) or 'none'


def range_witness(size, fe, specs, lines):
    st = [ln['a'] for ln in lines if ln['k'] == 'resp']
    return {'part': 'range', 'fe': fe, 'size': size, 'nspecs': len(specs), 'status': st[0] if st else 0,
            'triggers': range_triggers(size, specs)}


# --------------------------------------------------------------------------
# TLC: dump every finished exchange of a generative model

_BLOCK = re.compile(r'^State \d+:.*$', re.M)
_VAR = r'^(?:/\\ )?%s = '


def dump_done(module, cfg, workers=8, coverage=False, timeout=3600):
    """Exhaustive run with -dump; -> (result, {hashable hist: (hist, out, bad)})
    for every state with phase = "done".  A violated invariant is a machinery
    error (the model is wrong), as in tlc.model_check."""
    wd = tlc.workdir('c16dump')
    try:
        dump = os.path.join(wd, 'states')
        res = tlc.run_tlc(SPEC, module, cfg, workers=workers, timeout=timeout, extra=['-dump', dump],
                          coverage=coverage, jvm_opts=JVM)
        if res.violated:
            raise tlc.MachineryError('model %s (%s) violates %s:\n%s' % (module, cfg, res.violated, res.out[-3000:]))
        with open(dump + '.dump') as f:
            text = f.read()
        cases = {}
        starts = [m.start() for m in _BLOCK.finditer(text)] + [len(text)]
        rx = {v: re.compile(_VAR % v, re.M) for v in ('hist', 'out', 'bad')}
        for i in range(len(starts) - 1):
            blk = text[starts[i]:starts[i + 1]]
            if 'phase = "done"' not in blk:
                continue
            vals = {}
            for v, r in rx.items():
                m = r.search(blk)
                if not m:
                    raise tlc.MachineryError('no %s in dumped state:\n%s' % (v, blk[:500]))
                vals[v], _ = tlaval.parse_prefix(blk, m.end())
            cases[tlaval._hashable(vals['hist'])] = (vals['hist'], vals['out'], vals['bad'])
        if not cases:
            raise tlc.MachineryError('no finished exchange in the dump of %s (%s)' % (module, cfg))
        return res, cases
    finally:
        shutil.rmtree(wd, ignore_errors=True)


_T0 = [time.time()]


def _tick(what):
    if os.environ.get('VERIF_TIMING'):
        now = time.time()
        print('[c16 timing] %-28s %6.1fs' % (what, now - _T0[0]), file=sys.stderr)
        _T0[0] = now


def norm_lines(lines, keys):
    return [tuple(ln[k] for k in keys) for ln in lines]


RANGE_KEYS = ('k', 's', 'a', 'b', 'c', 'd', 'e')
JVM = ('-Xmx3g', '-XX:ParallelGCThreads=2')


# --------------------------------------------------------------------------
# corrupted traces (binding demonstration)

def mutate_path_trace(rnd, lines):
    out = [dict(ln) for ln in lines]
    r = out[1]
    if 200 <= r['status'] < 300:
        how = rnd.choice(['outside', 'unknown', '500'])
        if how == 'outside':
            r['body'] = rnd.choice(['secret', 'evil_f', 'list_parent', 'parent_f'])
        elif how == 'unknown':
            r['body'] = 'other'
        else:
            r['status'] = 500
        return out, how
    how = rnd.choice(['leak', 'serve_outside', '500'])
    if how == 'leak':
        r['leak'] = True
    elif how == 'serve_outside':
        r['status'] = 200
        r['body'] = 'secret'
    else:
        r['status'] = 500
    return out, how


def mutate_range_trace(rnd, lines):
    out = [dict(ln) for ln in lines]
    resp = [ln for ln in out if ln['k'] == 'resp'][0]
    body = [ln for ln in out if ln['k'] == 'body']
    parts = [ln for ln in out if ln['k'] == 'part']
    if resp['a'] == 206 and body and body[0]['s'] == 'slice':
        how = rnd.choice(['cr_last', 'one_more_byte', 'clen', 'status'])
        if how == 'cr_last':
            resp['c'] += 1
        elif how == 'one_more_byte':
            body[0]['b'] += 1
        elif how == 'clen':
            resp['e'] = body[0]['b'] + 1
        else:
            resp['a'] = 500
        return out, how
    if resp['a'] == 206 and parts:
        p = rnd.choice(parts)
        how = rnd.choice(['part_last', 'part_data', 'drop_part'])
        if how == 'part_last':
            p['b'] += 1
        elif how == 'part_data':
            p['d'] += 1
        else:
            # dropping a part loses requested bytes unless another part covers them
            cov = set()
            for q in parts:
                if q is not p:
                    cov |= set(range(q['a'], q['b'] + 1))
            if set(range(p['a'], p['b'] + 1)) <= cov:
                return None
            out.remove(p)
        return out, how
    if resp['a'] == 200:
        how = rnd.choice(['short', 'status'])
        if how == 'short':
            if body[0]['b'] == 0:
                body[0]['b'] = 1
            else:
                body[0]['b'] -= 1
        else:
            resp['a'] = 500
        return out, how
    if resp['a'] == 416:
        if resp['s'] == 'star':
            resp['d'] += 1
            return out, 'star_total'
        resp['a'] = 500
        return out, 'status'
    return None


# --------------------------------------------------------------------------

BIG = 9001       # more than two circuits.net.sockets.BUFSIZE (4096): the full file is streamed in three chunks


def random_specs(rnd, big=False):
    n = rnd.choice([0, 1, 1, 2] if big else [1, 2, 3, 3, 4])
    vals = [0, 1, 2, 3, 4, 5, 6, 7, 8, 9, 10, 11, 12, 36, 37, 38, 100, 1000000]
    if big:
        vals = [0, 1, 4095, 4096, 4097, 8191, 8192, BIG - 2, BIG - 1, BIG, BIG + 1, 1000000]
    specs = []
    for _ in range(n):
        k = rnd.random()
        if k < 0.5:
            specs.append({'kind': 'closed', 'a': rnd.choice(vals), 'b': rnd.choice(vals)})
        elif k < 0.7:
            specs.append({'kind': 'open', 'a': rnd.choice(vals), 'b': -1})
        elif k < 0.9:
            specs.append({'kind': 'suffix', 'a': rnd.choice(vals), 'b': -1})
        else:
            specs.append({'kind': 'bad', 'a': rnd.choice(sorted(BAD_SPELL)), 'b': -1})
    return specs


def run_replay(path):
    """./check C16 --replay <file>: re-run one recorded case on the real components."""
    rec = json.load(open(path))
    d = rec['detail']
    tree = Tree(rec.get('seed', 0)).use_spellings()
    try:
        if d['kind'] == 'path':
            apps = {d['mount']: App(tree, d['mount'])}
            lines = run_path_case(tree, apps, d['mount'], d['fe'], d['toks'])
            print('request path: %r' % path_string(d['mount'], d['toks']))
            module = 'StaticPathTrace'
        else:
            app = App(tree, '/')
            lines = run_range_case(tree, app, d['size'], d['fe'], d['specs'])
            print('Range: %r on a file of %d bytes' % ('bytes=' + ','.join(spec_string(sp) for sp in d['specs']), d['size']))
            module = 'RangesTrace'
        verdicts, _ = tlc.validate_traces(SPEC, module, module + '.cfg', [lines], shards=1)
    finally:
        tree.remove()
    clause, line = verdicts[0]
    for i, ln in enumerate(lines, 1):
        print('%3d %s' % (i, {k: v for k, v in ln.items() if v not in ('', 0, -1, False) or k in ('k', 'a', 'status')}))
    if clause:
        print('VIOLATION property=C16 replay=%s clause=%s line=%d' % (path, clause, line))
        return 1
    print('replay accepted: no clause of C16 fails on this tree')
    return 0


def run(tier, replay=None):
    use_repo()
    if replay:
        return run_replay(replay)
    ctx = Ctx('C16', tier)
    rnd = random.Random(ctx.seed * 7919 + 16)
    quick = tier == 'quick'

    # 1 + 2. the models: exhaustive check of the intended variants (with dump of
    # every case), dump of the pinned variants, and the teeth runs
    p_cfg = 'MC_StaticPath.cfg' if quick else 'MC_StaticPath_thorough.cfg'
    pp_cfg = 'HIST_StaticPath_pinned.cfg' if quick else 'HIST_StaticPath_pinned_thorough.cfg'
    r_cfg = 'MC_Ranges.cfg' if quick else 'MC_Ranges_thorough.cfg'
    rp_cfg = 'HIST_Ranges_pinned.cfg' if quick else 'HIST_Ranges_pinned_thorough.cfg'
    jobs = {
        'path': lambda: dump_done('StaticPath', p_cfg, workers=6, coverage=True),
        'path_pinned': lambda: dump_done('StaticPath', pp_cfg, workers=4),
        'range': lambda: dump_done('Ranges', r_cfg, workers=4, coverage=True),
        'range_pinned': lambda: dump_done('Ranges', rp_cfg, workers=4),
    }
    if not quick:
        # the defective variants must make TLC report a violated invariant (quick reads the same
        # verdicts from the `bad` variable of the pinned dumps below)
        jobs['teeth_parent'] = lambda: tlc.run_tlc(SPEC, 'StaticPath', 'MC_StaticPath_parent.cfg', workers=1, jvm_opts=JVM)
        jobs['teeth_statprobe'] = lambda: tlc.run_tlc(SPEC, 'StaticPath', 'MC_StaticPath_statprobe.cfg', workers=1, jvm_opts=JVM)
        jobs['teeth_normpath'] = lambda: tlc.run_tlc(SPEC, 'StaticPath', 'MC_StaticPath_normpath.cfg', workers=1, jvm_opts=JVM)
        jobs['teeth_intparse'] = lambda: tlc.run_tlc(SPEC, 'Ranges', 'MC_Ranges_intparse.cfg', workers=1, jvm_opts=JVM)
        jobs['teeth_isdigit'] = lambda: tlc.run_tlc(SPEC, 'Ranges', 'MC_Ranges_isdigit.cfg', workers=1, jvm_opts=JVM)
        jobs['teeth_urlsplit'] = lambda: tlc.run_tlc(SPEC, 'StaticPath', 'MC_StaticPath_urlsplit.cfg', workers=1, jvm_opts=JVM)
        jobs['teeth_range'] = lambda: tlc.run_tlc(SPEC, 'Ranges', 'MC_Ranges_pinned.cfg', workers=1, jvm_opts=JVM)
    with ThreadPoolExecutor(max_workers=len(jobs)) as ex:
        futs = {k: ex.submit(fn) for k, fn in jobs.items()}
        done = {k: f.result() for k, f in futs.items()}
    _tick('tlc models + dumps')
    for k in [k for k in done if k.startswith('teeth_')]:
        if done[k].violated != 'Conforms' and done[k].violated not in ('ServedInside', 'CanonicalServed', 'WithinFile'):
            raise tlc.MachineryError('%s: the defective variant no longer violates C16 in the model (lost its teeth)' % k)
    (pres, pcases), (_, ppcases) = done['path'], done['path_pinned']
    (rres, rcases), (_, rpcases) = done['range'], done['range_pinned']
    for res, acts in ((pres, ('AddToken', 'Exchange')), (rres, ('AddSpec', 'Exchange'))):
        for act in acts:
            if act not in res.coverage or res.coverage[act][1] == 0:
                raise tlc.MachineryError('vacuous model: action %s never taken' % act)
    if set(pcases) != set(ppcases) or set(rcases) != set(rpcases):
        raise tlc.MachineryError('the variants of a model do not enumerate the same cases')
    if 'C16.internal_error' not in {v[2] for v in ppcases.values()}:
        raise tlc.MachineryError('the stat-probe variant of StaticPath.tla (NUL in the location -> 500) is no longer '
                                 'flagged with C16.internal_error: the model lost its teeth')
    flagged = {v[2] for v in ppcases.values()} | {v[2] for v in rpcases.values()}
    for clause in ('C16.outside_root', 'C16.wrong_file', 'C16.internal_error', 'C16.range_header', 'C16.range_status',
                   'C16.range_bytes'):
        if clause not in flagged:
            raise tlc.MachineryError('the pinned variants of the models are no longer flagged with %s: the models '
                                     'lost their teeth' % clause)

    tree = Tree(ctx.seed).use_spellings()
    opened_outside = []
    auditing = [False]

    def audit(event, args):
        if auditing[0] and event == 'open' and args and isinstance(args[0], str) and args[0].startswith(tree.top) \
                and not tree.inside(args[0]) and not args[0].endswith('.mk'):
            opened_outside.append(args[0])

    try:
        apps = {'/': App(tree, '/'), '/static': App(tree, '/static')}
        sys.addaudithook(audit)
        auditing[0] = True

        # ---- paths ---------------------------------------------------------
        ptraces = []      # (meta, lines)
        match = {'intended': 0, 'pinned_only': 0}
        for key in sorted(pcases, key=repr):
            hist, mout, _ = pcases[key]
            mount, fe, toks = hist[0], hist[1], list(hist[2])
            lines = run_path_case(tree, apps, mount, fe, toks)
            ptraces.append(({'kind': 'path', 'mount': mount, 'fe': fe, 'toks': toks, 'origin': 'tlc'}, lines))
            real = norm_lines(lines, PATH_KEYS)
            if real == norm_lines(mout, PATH_KEYS):
                match['intended'] += 1
            elif real == norm_lines(ppcases[key][1], PATH_KEYS):
                match['pinned_only'] += 1
            else:
                ctx.note_drift('path %r via %s: real answer %s/%s, model %s/%s (pinned variant %s/%s)' % (
                    path_string(mount, toks), fe, lines[1]['status'], lines[1]['body'], mout[1]['status'], mout[1]['body'],
                    ppcases[key][1][1]['status'], ppcases[key][1][1]['body']))
        n_tlc_paths = len(ptraces)
        _tick('replay tlc paths')
        for i in range(2000 if quick else 20000):
            toks = [rnd.choice(EXOTIC_TOKENS) if rnd.random() < 0.12 else rnd.choice(BASE_TOKENS)
                    for _ in range(rnd.randint(4 if quick else 5, 6))]
            mount = rnd.choice(['/', '/static'])
            fe = rnd.choice(['http', 'direct'])
            lines = run_path_case(tree, apps, mount, fe, toks)
            ptraces.append(({'kind': 'path', 'mount': mount, 'fe': fe, 'toks': toks, 'origin': 'random'}, lines))

        _tick('replay random paths')
        # ---- ranges --------------------------------------------------------
        rtraces = []
        rmatch = {'intended': 0, 'pinned_only': 0}
        app = apps['/']
        for key in sorted(rcases, key=repr):
            hist, mout, _ = rcases[key]
            size, fe, specs = hist[0], hist[1], [dict(sp) for sp in hist[2]]
            lines = run_range_case(tree, app, size, fe, specs)
            rtraces.append(({'kind': 'range', 'size': size, 'fe': fe, 'specs': specs, 'origin': 'tlc'}, lines))
            real = norm_lines(lines, RANGE_KEYS)
            if real == norm_lines(mout, RANGE_KEYS):
                rmatch['intended'] += 1
            elif real == norm_lines(rpcases[key][1], RANGE_KEYS):
                rmatch['pinned_only'] += 1
            else:
                ctx.note_drift('Range %r on %d bytes via %s: real lines %s, model %s' % (
                    ','.join(spec_string(sp) for sp in specs), size, fe,
                    [tuple(ln[k] for k in RANGE_KEYS) for ln in lines if ln['k'] in ('resp', 'body', 'part')],
                    [tuple(ln[k] for k in RANGE_KEYS) for ln in rpcases[key][1] if ln['k'] in ('resp', 'body', 'part')]))
        n_tlc_ranges = len(rtraces)
        _tick('replay tlc ranges')
        for i in range(1500 if quick else 15000):
            size = BIG if i % 80 == 0 else rnd.choice([0, 1, 2, 10, 37])
            fe = rnd.choice(['http', 'direct'])
            specs = random_specs(rnd, big=size == BIG)
            lines = run_range_case(tree, app, size, fe, specs)
            rtraces.append(({'kind': 'range', 'size': size, 'fe': fe, 'specs': specs, 'origin': 'random'}, lines))
    finally:
        auditing[0] = False
        tree.remove()

    _tick('replay random ranges')
    # 3. TLC judges what the real components did
    with ThreadPoolExecutor(max_workers=2) as ex:
        fp = ex.submit(tlc.validate_traces, SPEC, 'StaticPathTrace', 'StaticPathTrace.cfg', [t[1] for t in ptraces],
                       4 if quick else 10, timeout=3600, jvm_opts=JVM)
        fr = ex.submit(tlc.validate_traces, SPEC, 'RangesTrace', 'RangesTrace.cfg', [t[1] for t in rtraces],
                       4 if quick else 6, timeout=3600, jvm_opts=JVM)
        (pverd, pstats), (rverd, rstats) = fp.result(), fr.result()

    _tick('trace validation')
    accepted_p, accepted_r = [], []
    ctx.max_samples = 16
    seen_classes = set()

    def sample_once(cls, sample):
        # one written-out case per (answer, verdict) class and at most 8 per half, so that the
        # samples show the variety of cases
        if cls in seen_classes or sum(1 for c in seen_classes if c[0] == cls[0]) >= 8:
            return None
        seen_classes.add(cls)
        return sample

    for (meta, lines), (clause, line) in zip(ptraces, pverd):
        nontrivial = any(t not in ('dir', 'file') for t in meta['toks'])
        ctx.count_case(['path', meta['mount'], meta['fe'], meta['toks']], nontrivial,
                       sample=sample_once(('path', lines[1]['status'], lines[1]['body'][:4], clause),
                                          {'path': path_string(meta['mount'], meta['toks']), 'fe': meta['fe'],
                                           'status': lines[1]['status'], 'body': lines[1]['body'],
                                           'verdict': clause or 'accepted'}))
        if clause:
            ctx.violation(clause, path_witness(meta['mount'], meta['fe'], meta['toks'], lines),
                          dict(meta, path=path_string(meta['mount'], meta['toks']), trace=lines, line=line))
        else:
            accepted_p.append(lines)
    for (meta, lines), (clause, line) in zip(rtraces, rverd):
        st = [ln['a'] for ln in lines if ln['k'] == 'resp'][0]
        ctx.count_case(['range', meta['size'], meta['fe'], meta['specs']], bool(meta['specs']),
                       sample=sample_once(('range', st, len(meta['specs']) > 1, clause),
                                          {'range': 'bytes=' + ','.join(spec_string(sp) for sp in meta['specs']),
                                           'size': meta['size'], 'fe': meta['fe'],
                                           'lines': [ln for ln in lines if ln['k'] in ('resp', 'body', 'part')][:4],
                                           'verdict': clause or 'accepted'}))
        if clause:
            ctx.violation(clause, range_witness(meta['size'], meta['fe'], meta['specs'], lines),
                          dict(meta, header='bytes=' + ','.join(spec_string(sp) for sp in meta['specs']), trace=lines,
                               line=line))
        else:
            accepted_r.append(lines)

    _tick('verdict bookkeeping')
    # 4. binding demonstration: corrupted real traces must be rejected
    nmut = 150 if quick else 1000
    batches = []
    for module, accepted, mut in (('StaticPathTrace', accepted_p, mutate_path_trace),
                                  ('RangesTrace', accepted_r, mutate_range_trace)):
        pool = list(accepted)
        rnd.shuffle(pool)
        muts = []
        for lines in pool:
            if len(muts) >= nmut:
                break
            m = mut(rnd, lines)
            if m:
                muts.append(m)
        if not muts:
            raise tlc.MachineryError('no accepted trace to corrupt for %s' % module)
        batches.append((module, muts))
    with ThreadPoolExecutor(max_workers=2) as ex:
        futs = [ex.submit(tlc.validate_traces, SPEC, module, module + '.cfg', [m[0] for m in muts], 1 if quick else 3,
                          jvm_opts=JVM) for module, muts in batches]
        for (module, muts), fut in zip(batches, futs):
            mv, _ = fut.result()
            missed = [(muts[i][1], muts[i][0]) for i, (c, _) in enumerate(mv) if not c]
            if missed:
                raise tlc.MachineryError('%s accepted %d corrupted traces, e.g. %s: %s'
                                         % (module, len(missed), missed[0][0], missed[0][1]))
            ctx.coverage['corrupted_traces_rejected_' + module] = len(muts)

    _tick('corrupted traces')
    return ctx.finish(coverage={
        'states': pres.distinct + rres.distinct, 'transitions': pres.generated + rres.generated,
        'path_model_states': pres.distinct, 'range_model_states': rres.distinct,
        'path_model_wall_s': round(pres.wall_s, 1), 'range_model_wall_s': round(rres.wall_s, 1),
        'traces_validated_against_impl': len(ptraces) + len(rtraces),
        'path_cases_from_tlc': n_tlc_paths, 'range_cases_from_tlc': n_tlc_ranges,
        'path_cases_random': len(ptraces) - n_tlc_paths, 'range_cases_random': len(rtraces) - n_tlc_ranges,
        'path_lines_equal_model': match, 'range_lines_equal_model': rmatch,
        'trace_validation_states': pstats['states'] + rstats['states'],
        'pinned_variant_cases_flagged_in_model': {'path': sum(1 for v in ppcases.values() if v[2]),
                                                 'range': sum(1 for v in rpcases.values() if v[2])},
        'opens_outside_docroot_observed': len(opened_outside),
        'rule': 'cases = (mount, front end, token sequence) resp. (file size, front end, Range specs); every case TLC '
                'enumerates for StaticPath.tla / Ranges.tla is replayed on the real HTTP + Static components, plus seeded '
                'random longer token sequences / headers; non-trivial = the path has a token other than a plain existing '
                'name, resp. a Range header is present; distinct by hash of the case',
        'exhaustive': True,
    }, assumptions=[
        'POSIX file system semantics (backslash is an ordinary character); the tree is created under /verif/.work',
        'responses are read from the write events of the real HTTP component (no kernel sockets)',
        'body identity is decided by the projection (content map with per-run nonces; distinct bytes for range files)',
    ])
