"""X02 (extra) - conditional requests and cache validators of circuits.web.

Statement, clauses and findings: extras/X02.md; the monitor: spec/extra/CondReqOps.tla.

Pipeline (BUILDING.md):
  1. TLC checks the generative model spec/extra/CondReq.tla exhaustively over the
     whole case space (method x current ETag x Last-Modified x If-Match x
     If-None-Match x If-Modified-Since x If-Unmodified-Since x would-be status x
     program x front end; expires() and gzip() argument spaces): the intended
     algorithm (Defects = {}) obeys the X02 monitor for every case; the variant with
     the pinned tree's defects must be flagged (teeth).  Every case is printed with
     the lines the model emits (intended and pinned variant).
  2. Every case is replayed on the real circuits.web objects (x02_real.py): real
     Request / Response, the real tools called the way a request handler calls them,
     for the "http" cases through the real HTTP component; the recorded lines are
     compared with the model's (spec -> code).
  3. The recorded traces, plus seeded random cases outside the enumerated blocks, are
     judged by TLC with CondReqTrace.tla, which reuses the monitor (code -> spec).
  4. Corrupted copies of accepted real traces must be rejected.
"""

import json
import os
import random
import shutil
import sys
import tempfile
import time
from concurrent.futures import ThreadPoolExecutor

from .. import tlc
from ..core import Ctx, use_repo
from . import x02_real as R

SPEC = 'spec/extra'
JVM = ('-Xmx3g', '-XX:ParallelGCThreads=2')
PINNED_DEFECTS = ('elements_parser', 'im_string', 'nm_string', 'ius_string', 'no_precedence', 'ius_after_inm', 'ims_unsafe',
                  'autotags_crash', 'prepare304', 'leapday', 'gzip406')
KEYS = {'cond': R.COND_KEYS, 'exp': R.EXP_KEYS, 'gzip': R.GZIP_KEYS}

_T0 = [time.time()]


def _tick(what):
    if os.environ.get('VERIF_TIMING'):
        now = time.time()
        print('[x02 timing] %-28s %6.1fs' % (what, now - _T0[0]), file=sys.stderr)
        _T0[0] = now


# --------------------------------------------------------------------------
# TLC: every case of the generative model, with the lines it emits

def export_cases(cfg, workers, coverage=False, timeout=3600):
    """Exhaustive run; the Export invariant prints every finished case.
    -> (result, {case tuple: (case dict, model lines, bad)})"""
    res = tlc.run_tlc(SPEC, 'CondReq', cfg, workers=workers, timeout=timeout, coverage=coverage, jvm_opts=JVM)
    if res.violated:
        raise tlc.MachineryError('model CondReq (%s) violates %s:\n%s' % (cfg, res.violated, res.out[-3000:]))
    cases = {}
    for ln in res.out.splitlines():
        if not ln.startswith('"<<\\"CASE\\"'):
            continue
        s = json.loads(ln).replace('<<', '[').replace('>>', ']').replace('TRUE', 'true').replace('FALSE', 'false')
        _, ct, lines, bad = json.loads(s)
        case = dict(zip(KEYS[ct[0]], ct))
        if len(ct) != len(KEYS[ct[0]]):
            raise tlc.MachineryError('case tuple of unexpected shape: %r' % (ct,))
        cases[tuple(ct)] = (case, [dict(zip(R.LKEYS, l)) for l in lines], bad)
    if not cases:
        raise tlc.MachineryError('no case exported by CondReq (%s):\n%s' % (cfg, res.out[-2000:]))
    return res, cases


def norm(lines):
    return [tuple(ln[k] for k in R.LKEYS) for ln in lines]


# --------------------------------------------------------------------------
# classification of a case (for witnesses / known findings only; the verdict is TLC's)

def _tagflags(kind, t1, t2, cur):
    """What an If-Match / If-None-Match value holds, relative to the current tag."""
    if kind in ('none', 'star'):
        return {kind}
    if kind != 'list':
        return {'malformed'}
    f = set()
    for t in (t1, t2):
        if not t:
            continue
        if t % 10 in (3, 4):
            f.add('separator')
        if cur and t == cur and t < 10:
            f.add('strong_match')
        elif cur and t % 10 == cur % 10:
            f.add('weak_only_match')
    return f or {'nomatch'}


def trigger(case, clause):
    """The input class that sets the failure off, for a clause of the cond part."""
    cur = case['cur'] or (5 if case['prog'] == 'auto' and case['st'] == 200 else 0)
    im = _tagflags(case['imk'], case['im1'], case['im2'], cur)
    nm = _tagflags(case['nmk'], case['nm1'], case['nm2'], cur)
    safe = case['m'] in ('GET', 'HEAD')
    ims = case['ims'] if case['lm'] else 'n/a'
    ius = case['ius'] if case['lm'] else 'n/a'
    if clause == 'X02.internal_error':
        if case['prog'] == 'auto' and not case['cur'] and case['st'] == 200:
            return 'autotags_without_etag'
    elif clause in ('X02.not_modified_length', 'X02.not_modified_type'):
        if case['fe'] == 'http':
            return '304_sent_by_http'
    elif clause == 'X02.spurious_412':
        if 'separator' in im and 'weak_only_match' not in im:
            return 'if_match_tag_with_separator'
        if ius in ('late', 'alt', 'bad'):
            return 'ius_not_spelled_like_last_modified'
        if ius == 'early' and 'none' not in im:
            return 'ius_early_with_if_match'
        if not safe and ims == 'equal':
            return 'ims_on_unsafe_method'
    elif clause == 'X02.missed_412':
        if 'weak_only_match' in im:
            return 'if_match_weak'
        if not safe and 'weak_only_match' in nm:
            return 'if_none_match_weak'
        if not safe and 'separator' in nm:
            return 'if_none_match_tag_with_separator'
    elif clause == 'X02.missed_304':
        if safe and 'weak_only_match' in nm:
            return 'if_none_match_weak'
        if safe and 'separator' in nm:
            return 'if_none_match_tag_with_separator'
    elif clause == 'X02.spurious_304':
        if 'weak_only_match' in im:
            return 'if_match_weak'
        if safe and ius == 'early' and 'none' in im and 'none' not in nm and 'nomatch' not in nm:
            return 'ius_early_but_if_none_match_answers'
        if safe and 'none' not in nm and ims == 'equal':
            return 'ims_with_if_none_match'
    return 'other'


def witness_of(case, lines, clause):
    if case['part'] == 'cond':
        st = [ln['code'] for ln in lines if ln['k'] == 'resp']
        return {'part': 'cond', 'prog': case['prog'], 'trigger': trigger(case, clause), 'status': st[0] if st else 0}
    if case['part'] == 'exp':
        return {'part': 'exp', 'zero': case['secs'] in ('zero', 'tdzero'), 'day': case['day']}
    ln = lines[-1] if lines else {}
    return {'part': 'gzip', 'ae': case['ae'], 'code': ln.get('code', 0)}


def nontrivial(case):
    if case['part'] == 'cond':
        return any(case[k] != 'none' for k in ('imk', 'nmk', 'ims', 'ius'))
    if case['part'] == 'exp':
        return True
    return case['ae'] != 'none' and case['body']


def describe(case):
    if case['part'] != 'cond':
        return dict(case)
    d = {'method': case['m'], 'prog': case['prog'], 'fe': case['fe'], 'etag': R.TAGS.get(case['cur']),
         'last_modified': R.LM if case['lm'] else None, 'status_without_preconditions': case['st']}
    d.update({k: v for k, v in R.request_headers(case)})
    return d


# --------------------------------------------------------------------------
# seeded random cases outside the enumerated blocks

SPECS_ALL = [('none', 0, 0), ('star', 0, 0), ('bare', 0, 0), ('empty', 0, 0), ('starlist', 0, 0)] + \
            [('list', a, 0) for a in (1, 11, 2, 12, 3, 4)] + \
            [('list', a, b) for a in (1, 11, 2, 12, 3, 4) for b in (1, 11, 2, 12, 3, 4) if a != b]
DATES_ALL = ['none', 'early', 'equal', 'late', 'alt', 'bad']


def random_case(rnd):
    prog = rnd.choice(['tools', 'tools', 'tools', 'file', 'auto'])
    c = {'part': 'cond', 'fe': rnd.choice(['http', 'http', 'direct']), 'prog': prog,
         'm': rnd.choice(['GET', 'HEAD', 'PUT', 'POST', 'DELETE']), 'cur': rnd.choice([0, 1, 11, 2, 3, 4]),
         'lm': rnd.choice([0, 1, 1]), 'st': rnd.choice([200, 200, 200, 201, 404])}
    im, nm = rnd.choice(SPECS_ALL), rnd.choice(SPECS_ALL)
    if rnd.random() < 0.4:
        im = ('none', 0, 0)
    if rnd.random() < 0.3:
        nm = ('none', 0, 0)
    if prog == 'file':
        c.update(cur=0, lm=1, st=200)
        im = ('none', 0, 0)
        nm = rnd.choice([('none', 0, 0), ('list', 1, 0), ('list', 2, 11)])
    elif prog == 'auto':
        c.update(cur=rnd.choice([0, 0, 1]), st=200)
        im = rnd.choice([('none', 0, 0), ('list', 5, 0), ('list', 15, 0), ('list', 1, 5)])
        nm = rnd.choice([('none', 0, 0), ('list', 5, 0), ('list', 15, 0), ('list', 2, 5), ('star', 0, 0)])
    c.update(imk=im[0], im1=im[1], im2=im[2], nmk=nm[0], nm1=nm[1], nm2=nm[2],
             ims=rnd.choice(DATES_ALL), ius=rnd.choice(DATES_ALL))
    return {k: c[k] for k in R.COND_KEYS}


# --------------------------------------------------------------------------
# corrupted traces (binding demonstration): every one of these must be rejected

def corrupt(rnd, case, lines):
    out = [dict(ln) for ln in lines]
    last = out[-1]
    if case['part'] == 'cond':
        code = last['code']
        hows = ['drop_answer', 'answer_twice', 'crash']
        if code == 304:
            hows += ['body_in_304', 'length_in_304']
            if case['cur']:
                hows.append('etag_lost')
        elif code == 412:
            hows += ['representation_in_412', 'status_not_of_object']
        else:
            hows += ['status_not_of_object', 'unsafe_304' if case['m'] not in ('GET', 'HEAD') else 'header_lost']
        how = rnd.choice(hows)
        if how == 'drop_answer':
            out.pop()
        elif how == 'answer_twice':
            out.append(dict(last))
        elif how == 'crash':
            last['code'] = 500
        elif how == 'body_in_304':
            last['body'] = 'own'
        elif how == 'length_in_304':
            last['hcl'] = 'zero'
        elif how == 'etag_lost':
            last['hetag'] = False
        elif how == 'representation_in_412':
            last['body'] = 'own'
        elif how == 'status_not_of_object':
            # the answer's status differs from what the tools returned
            for ln in out:
                if ln['k'] == 'ret':
                    ln['code'] = 0
            if code in (304, 412):
                pass
            else:
                out[-2]['code'] = 412
        elif how == 'unsafe_304':
            last['code'] = 304
            last['body'] = 'none'
            out[-2]['code'] = 304
        elif how == 'header_lost':
            last['hct'] = 'none'
        return out, how
    if case['part'] == 'exp':
        how = rnd.choice(['raised', 'drop_answer', 'date_off'])
        if how == 'raised':
            last['exc'] = 'ValueError'
        elif how == 'drop_answer':
            out.pop()
        else:
            if last['xe'] in ('past', 'future'):
                last['xd'] += 7
            else:
                last['xe'] = 'future'
                last['xd'] = 60
        return out, how
    how = rnd.choice(['raised', 'drop_answer'] if last['code'] == 406 else ['raised', 'drop_answer', 'encoding_without_body'])
    if how == 'raised':
        last['exc'] = 'TypeError'
    elif how == 'drop_answer':
        out.pop()
    else:
        last['xe'] = 'gzip' if last['xe'] != 'gzip' else 'none'
    return out, how


# --------------------------------------------------------------------------

def judge(traces, shards):
    return tlc.validate_traces(SPEC, 'CondReqTrace', 'CondReqTrace.cfg', traces, shards, timeout=3600, jvm_opts=JVM)


def show(case, lines):
    print('case: %s' % json.dumps(describe(case), sort_keys=True))
    for i, ln in enumerate(lines, 1):
        print('%3d %s' % (i, {k: v for k, v in ln.items() if v not in ('', 0, False) or k in ('k', 'code')}))


def run_replay(path):
    """./check X02 --replay <file>: re-run one recorded case on the real code."""
    rec = json.load(open(path))
    case = rec['detail']['case']
    wd = tempfile.mkdtemp(prefix='x02-', dir=tlc.WORK)
    try:
        lines = R.Real(wd).run(case)
    finally:
        shutil.rmtree(wd, ignore_errors=True)
    verdicts, _ = judge([{'cfg': case, 'lines': lines}], 1)
    show(case, lines)
    clause, line = verdicts[0]
    if clause:
        print('VIOLATION property=X02 replay=%s clause=%s line=%d' % (path, clause, line))
        return 1
    print('replay accepted: no clause of X02 fails on this tree')
    return 0


def run(tier, replay=None):
    use_repo()
    os.makedirs(tlc.WORK, exist_ok=True)
    if replay:
        return run_replay(replay)
    ctx = Ctx('X02', tier)
    rnd = random.Random(ctx.seed * 7919 + 2002)
    quick = tier == 'quick'
    _T0[0] = time.time()

    # 1. the model: exhaustive check of the intended algorithm, the pinned variant, teeth
    jobs = {
        'cond': lambda: export_cases('MC_CondReq_cond_%s.cfg' % tier, 4 if quick else 8),
        'cond_pinned': lambda: export_cases('HIST_CondReq_cond_pinned_%s.cfg' % tier, 4 if quick else 6),
        # action coverage is read from a small sample of every block (pinned variant: Crash is reachable there)
        'cov': lambda: tlc.run_tlc(SPEC, 'CondReq', 'MC_CondReq_cond_cov.cfg', workers=1, coverage=True, jvm_opts=JVM),
        'misc': lambda: export_cases('MC_CondReq_misc.cfg', 1, coverage=True),
        'misc_pinned': lambda: export_cases('HIST_CondReq_misc_pinned.cfg', 1),
    }
    if not quick:
        # every defect alone must make TLC report a violated invariant; the tolerated deviation must not
        for d in PINNED_DEFECTS:
            jobs['teeth_' + d] = (lambda d=d: tlc.run_tlc(SPEC, 'CondReq', 'MC_CondReq_def_%s.cfg' % d, workers=2, jvm_opts=JVM))
        jobs['tolerated'] = lambda: tlc.run_tlc(SPEC, 'CondReq', 'MC_CondReq_tolerated.cfg', workers=2, jvm_opts=JVM)
    with ThreadPoolExecutor(max_workers=5 if quick else 6) as ex:
        futs = {k: ex.submit(fn) for k, fn in jobs.items()}
        done = {k: f.result() for k, f in futs.items()}
    _tick('tlc models')
    for k, r in done.items():
        if k.startswith('teeth_') and r.violated != 'Conforms':
            raise tlc.MachineryError('%s: the defect alone no longer violates X02 in the model (lost its teeth)' % k)
    if 'tolerated' in done and done['tolerated'].violated:
        raise tlc.MachineryError('the tolerated deviation ExactMatchOnly is flagged by the monitor (%s)' % done['tolerated'].violated)
    (cres, ccases), (_, cpinned) = done['cond'], done['cond_pinned']
    (mres, mcases), (_, mpinned) = done['misc'], done['misc_pinned']
    if done['cov'].violated:
        raise tlc.MachineryError('MC_CondReq_cond_cov.cfg violates %s' % done['cov'].violated)
    for res, acts in ((done['cov'], ('Headers', 'CallEtags', 'CallSince', 'CallFile', 'NotModified', 'PreconditionFailed',
                                     'Proceed', 'Crash')),
                      (mres, ('CallExpires', 'CallGzip'))):
        for act in acts:
            if act not in res.coverage or res.coverage[act][1] == 0:
                raise tlc.MachineryError('vacuous model: action %s never taken' % act)
    if set(ccases) != set(cpinned) or set(mcases) != set(mpinned):
        raise tlc.MachineryError('the variants of the model do not enumerate the same cases')
    intended = dict(ccases)
    intended.update(mcases)
    pinned = dict(cpinned)
    pinned.update(mpinned)
    if any(v[2] for v in intended.values()):
        raise tlc.MachineryError('the intended model has flagged cases although Conforms holds')
    flagged = {v[2] for v in pinned.values() if v[2]}
    want = {'X02.spurious_412', 'X02.missed_412', 'X02.spurious_304', 'X02.missed_304', 'X02.internal_error',
            'X02.not_modified_length', 'X02.gzip_not_acceptable'}
    if not want <= flagged:
        raise tlc.MachineryError('the pinned variant of the model is no longer flagged with %s: the model lost its teeth'
                                 % sorted(want - flagged))
    if not any(r[0]['code'] == 500 for c, r, b in cpinned.values() if c['prog'] == 'auto'):
        raise tlc.MachineryError('vacuous model: Crash never taken in the pinned variant')

    # 2. replay every case on the real code
    wd = tempfile.mkdtemp(prefix='x02-', dir=tlc.WORK)
    traces = []       # (origin, case, lines)
    match = {'intended_and_pinned': 0, 'intended_only': 0, 'pinned_only': 0}
    try:
        real = R.Real(wd)
        for key in sorted(intended, key=repr):
            case, mi, _ = intended[key]
            mp = pinned[key][1]
            lines = real.run(case)
            traces.append(('tlc', case, lines))
            rl = norm(lines)
            a, b = rl == norm(mi), rl == norm(mp)
            if a and b:
                match['intended_and_pinned'] += 1
            elif a:
                match['intended_only'] += 1
            elif b:
                match['pinned_only'] += 1
            else:
                ctx.note_drift('%s: real lines %s, model %s (pinned variant %s)' % (
                    json.dumps(describe(case), sort_keys=True),
                    [(l['k'], l['tool'], l['code'], l['exc'], l['body']) for l in lines],
                    [(l['k'], l['tool'], l['code'], l['exc'], l['body']) for l in mi],
                    [(l['k'], l['tool'], l['code'], l['exc'], l['body']) for l in mp]))
        n_tlc = len(traces)
        _tick('replay tlc cases')
        seen = set(intended)
        for _ in range(4000 if quick else 40000):
            case = random_case(rnd)
            key = tuple(case[k] for k in R.COND_KEYS)
            if key in seen:
                continue
            seen.add(key)
            traces.append(('random', case, real.run(case)))
        _tick('replay random cases')
    finally:
        shutil.rmtree(wd, ignore_errors=True)

    # 3. TLC judges what the real code did
    verdicts, vstats = judge([{'cfg': c, 'lines': l} for _, c, l in traces], 6 if quick else 12)
    _tick('trace validation')
    accepted = []
    ctx.max_samples = 12
    sampled = set()
    predicted = {'agree': 0, 'model_only': 0, 'real_only': 0}
    for (origin, case, lines), (clause, line) in zip(traces, verdicts):
        key = tuple(case[k] for k in KEYS[case['part']])
        cls = (case['part'], case.get('prog'), lines[-1]['code'] if lines else 0, clause)
        sample = None
        if cls not in sampled and len(sampled) < 12:
            sampled.add(cls)
            sample = {'case': describe(case), 'answer': {k: v for k, v in lines[-1].items() if v not in ('', 0, False)},
                      'verdict': clause or 'accepted'}
        ctx.count_case(list(key), nontrivial(case), sample=sample)
        if origin == 'tlc':
            pb = pinned[key][2]
            if bool(pb) == bool(clause):
                predicted['agree'] += 1
            elif pb:
                predicted['model_only'] += 1
            else:
                predicted['real_only'] += 1
        if clause:
            ctx.violation(clause, witness_of(case, lines, clause),
                          {'case': case, 'request': describe(case), 'trace': lines, 'line': line, 'origin': origin})
        else:
            accepted.append((case, lines))

    # 4. binding demonstration: corrupted real traces must be rejected
    if not accepted:
        raise tlc.MachineryError('no accepted trace to corrupt')
    pool = list(accepted)
    rnd.shuffle(pool)
    muts = []
    parts = {'cond': 0, 'exp': 0, 'gzip': 0}
    per_part = 200 if quick else 1500
    for case, lines in pool:
        if parts[case['part']] >= per_part:
            continue
        parts[case['part']] += 1
        m, how = corrupt(rnd, case, lines)
        muts.append((how, case, m))
    mv, _ = judge([{'cfg': c, 'lines': l} for _, c, l in muts], 1 if quick else 3)
    missed = [(muts[i][0], muts[i][1], muts[i][2]) for i, (c, _) in enumerate(mv) if not c]
    if missed:
        raise tlc.MachineryError('CondReqTrace accepted %d corrupted traces, e.g. %s: %s %s'
                                 % (len(missed), missed[0][0], missed[0][1], missed[0][2]))
    _tick('corrupted traces')

    return ctx.finish(coverage={
        'states': cres.distinct + mres.distinct, 'transitions': cres.generated + mres.generated,
        'cond_model_states': cres.distinct, 'misc_model_states': mres.distinct,
        'cond_model_wall_s': round(cres.wall_s, 1),
        'cases_from_tlc': {'cond': len(ccases), 'expires': sum(1 for k in mcases if k[0] == 'exp'),
                           'gzip': sum(1 for k in mcases if k[0] == 'gzip')},
        'cases_random': len(traces) - n_tlc,
        'traces_validated_against_impl': len(traces),
        'real_lines_equal_model': match,
        'pinned_variant_cases_flagged_in_model': sum(1 for v in pinned.values() if v[2]),
        'verdict_on_real_vs_pinned_model': predicted,
        'trace_validation_states': vstats['states'],
        'corrupted_traces_rejected': len(muts),
        'rule': 'case = (front end, program, method, current ETag, Last-Modified, would-be status, If-Match, If-None-Match, '
                'If-Modified-Since, If-Unmodified-Since) resp. the arguments of expires() / gzip(); every case TLC enumerates '
                'for CondReq.tla is replayed on the real tools / Request / Response (http cases through the real HTTP '
                'component), plus seeded random cases outside the enumerated blocks; non-trivial = at least one conditional '
                'header (cond), every expires case, gzip with a body and an Accept-Encoding; distinct by hash of the case',
        'exhaustive': True,
    }, assumptions=[
        'the handler has a current representation (If-Match: * holds, If-None-Match: * fails)',
        'the clock of expires() is a frozen datetime double; response.time is set by the driver',
        'answers of the http cases are read from the write events of the real HTTP component (no kernel sockets)',
        'local time zone without a DST change between the frozen dates (the Expires "one year ago" is measured in days)',
    ])
