"""X02 - the real side: one case of spec/extra/CondReq.tla run on the real
circuits.web objects, recorded as the trace lines of CondReqOps.

A case is the record TLC enumerates (the `hist` variable of CondReq.tla):

  part="cond"  a request handler that sets its validators (ETag `cur`, Last-Modified
               `lm`) and the representation headers of its 200 answer, then calls
               tools.validate_etags(), tools.validate_since() (prog "tools"),
               tools.validate_etags(autotags=True) (prog "auto") or
               tools.serve_file() on a real file (prog "file"); what the tool
               returns is returned by the handler, as a circuits.web handler does.
               fe="direct": real Request / Response objects, the handler is called,
               its value is applied the way HTTP._on_request_success applies it, the
               Response object is read.  fe="http": the request goes as bytes
               through the real circuits.web.http.HTTP component (no sockets); the
               bytes written to the connection are parsed.
  part="exp"   tools.expires() on a real Response, with a frozen clock.
  part="gzip"  tools.gzip() on a real Response.

Nothing here decides anything: the lines are judged by TLC (CondReqTrace.tla).
"""

import gzip as _gzip
import hashlib
import os
import re
import time as _time
from datetime import datetime as _datetime
from email.utils import formatdate, parsedate_tz, mktime_tz

BODY = b'hello world'
AUTOTAG = '"%s"' % hashlib.md5(BODY).hexdigest()
# tag code -> spelling; code = 10 * weak + opaque id
TAGS = {1: '"a"', 11: 'W/"a"', 2: '"b"', 12: 'W/"b"', 3: '"a;b"', 4: '"a,b"', 5: AUTOTAG, 15: 'W/' + AUTOTAG}
LM_EPOCH = 784903526                       # Tue, 15 Nov 1994 12:45:26 GMT
LM = formatdate(LM_EPOCH, usegmt=True)
DATES = {'early': formatdate(LM_EPOCH - 86400, usegmt=True), 'equal': LM,
         'late': formatdate(LM_EPOCH + 86400, usegmt=True),
         'alt': 'Tuesday, 15-Nov-94 12:45:26 GMT',      # the same instant in the RFC 850 format
         'bad': 'yesterday'}
EXPIRES = formatdate(LM_EPOCH + 10 * 86400, usegmt=True)
CACHE_CONTROL = 'max-age=60'
VARY = 'Accept-Language'
CTYPE = 'text/plain'
PRAGMA_PRE = 'x-pre'
CC_PRE = 'private'
assert mktime_tz(parsedate_tz(DATES['alt'])) == LM_EPOCH

LINE0 = {'k': '', 'tool': '', 'code': 0, 'exc': '', 'body': '', 'hetag': False, 'hlm': False, 'hexp': False,
         'hcc': False, 'hvary': False, 'hct': '', 'hcl': '', 'xp': '', 'xc': '', 'xe': '', 'xd': 0}
LKEYS = tuple(LINE0)
COND_KEYS = ('part', 'fe', 'prog', 'm', 'cur', 'lm', 'st', 'imk', 'im1', 'im2', 'nmk', 'nm1', 'nm2', 'ims', 'ius')
EXP_KEYS = ('part', 'secs', 'force', 'proto', 'ind', 'pragma', 'cc', 'day')
GZIP_KEYS = ('part', 'ae', 'ct', 'body', 'vary', 'clen')


def line(k, **kw):
    ln = dict(LINE0)
    ln['k'] = k
    ln.update(kw)
    return ln


def spell_tags(kind, t1, t2):
    """The field value of If-Match / If-None-Match (None: header absent)."""
    if kind == 'none':
        return None
    if kind == 'star':
        return '*'
    if kind == 'list':
        return ', '.join(TAGS[t] for t in (t1, t2) if t)
    if kind == 'bare':
        return 'a'
    if kind == 'empty':
        return ''
    if kind == 'starlist':
        return '*, "a"'
    raise ValueError(kind)


def request_headers(case):
    h = []
    for name, kind, t1, t2 in (('If-Match', case['imk'], case['im1'], case['im2']),
                               ('If-None-Match', case['nmk'], case['nm1'], case['nm2'])):
        v = spell_tags(kind, t1, t2)
        if v is not None:
            h.append((name, v))
    if case['ims'] != 'none':
        h.append(('If-Modified-Since', DATES[case['ims']]))
    if case['ius'] != 'none':
        h.append(('If-Unmodified-Since', DATES[case['ius']]))
    return h


class FakeServer:
    """What circuits.web.http.HTTP and the wrappers read from their server."""
    host = '127.0.0.1'
    port = 8000
    secure = False
    display_banner = False


class SockDouble:
    def getpeername(self):
        return ('127.0.0.1', 50000)


class Real:
    """The real components, set up once per run."""

    def __init__(self, workdir):
        from circuits import BaseComponent, Manager, handler
        from circuits.web import tools, wrappers
        from circuits.web.errors import httperror
        from circuits.web.headers import Headers
        from circuits.web.http import HTTP
        self.tools, self.wrappers, self.httperror, self.Headers = tools, wrappers, httperror, Headers
        self.server = FakeServer()
        self.path = os.path.join(workdir, 'x02-file.txt')
        with open(self.path, 'wb') as f:
            f.write(BODY)
        os.utime(self.path, (LM_EPOCH, LM_EPOCH))
        real = self
        self.case = None
        self.rec = None
        self.out = {}

        class Handler(BaseComponent):
            channel = 'web'

            @handler('request')
            def _on_request(self, event, req, res):
                return real.handle(real.case, req, res, real.rec, reraise=True)

            @handler('write')
            def _on_write(self, sock, data):
                real.out.setdefault(sock, bytearray()).extend(data)

        self.m = Manager()
        self.http = HTTP(self.server).register(self.m)
        self.server.http = self.http
        Handler().register(self.m)
        self.settle()

    def settle(self):
        for _ in range(2000):
            if not len(self.m) and not self.m._tasks:
                return
            self.m.tick()
        raise RuntimeError('the web pipeline does not settle')

    # -- the request handler ------------------------------------------------
    def call(self, rec, tool, fn, reraise):
        try:
            r = fn()
        except Exception as e:
            rec.append(line('ret', tool=tool, code=500, exc=type(e).__name__))
            if reraise:
                raise
            return e
        if isinstance(r, self.httperror):
            rec.append(line('ret', tool=tool, code=int(r.code)))
            return r
        rec.append(line('ret', tool=tool, code=0))
        return None if r is None else r

    def handle(self, case, req, res, rec, reraise=False):
        """What a request handler using the tools does; -> the handler's value
        (an exception instance if a tool raised and reraise is off)."""
        tools = self.tools
        if case['st'] != 200:
            res.status = case['st']
        prog = case['prog']
        if prog == 'file':
            r = self.call(rec, 'file', lambda: tools.serve_file(req, res, self.path), reraise)
            return r
        if case['cur']:
            res.headers['ETag'] = TAGS[case['cur']]
        if case['lm']:
            res.headers['Last-Modified'] = LM
        res.headers['Expires'] = EXPIRES
        res.headers['Cache-Control'] = CACHE_CONTROL
        res.headers['Vary'] = VARY
        res.headers['Content-Type'] = CTYPE
        if prog == 'auto':
            res.body = BODY
            r = self.call(rec, 'etags', lambda: tools.validate_etags(req, res, autotags=True), reraise)
        else:
            r = self.call(rec, 'etags', lambda: tools.validate_etags(req, res), reraise)
        if r is not None:
            return r
        r = self.call(rec, 'since', lambda: tools.validate_since(req, res), reraise)
        if r is not None:
            return r
        return BODY

    # -- reading an answer --------------------------------------------------
    @staticmethod
    def _resp_line(case, status, body, hdr):
        """hdr: lower-case name -> value (str) of the answer."""
        if not body:
            b = 'none'
        elif body == BODY:
            b = 'own'
        elif (b'<title>%d ' % status) in body:
            b = 'page'
        else:
            b = 'other'
        ct = hdr.get('content-type')
        own_ct = CTYPE if case['prog'] != 'file' else 'text/plain'
        hct = 'none' if ct is None else 'own' if ct == own_ct else 'default' if ct.startswith('text/html') else 'other'
        cl = hdr.get('content-length')
        hcl = 'none' if cl is None else 'zero' if cl == '0' else 'full' if cl == str(len(BODY)) else 'other'
        tag = TAGS.get(case['cur']) if case['prog'] != 'auto' or case['cur'] else AUTOTAG
        return line('resp', code=status, body=b,
                    hetag=tag is not None and hdr.get('etag') == tag,
                    hlm=hdr.get('last-modified') == LM,
                    hexp=hdr.get('expires') == EXPIRES, hcc=hdr.get('cache-control') == CACHE_CONTROL,
                    hvary=hdr.get('vary') == VARY, hct=hct, hcl=hcl)

    def run_direct(self, case):
        w = self.wrappers
        hdrs = self.Headers([('Host', 'localhost')] + request_headers(case))
        req = w.Request(None, case['m'], 'http', '/r', (1, 1), '', headers=hdrs, server=self.server)
        res = w.Response(req)
        rec = []
        value = self.handle(case, req, res, rec)
        # what circuits.web.http.HTTP does with the value of the request handlers
        if isinstance(value, Exception):
            value = self.httperror(req, res, 500)
        if isinstance(value, self.httperror):
            res.body = str(value)
        elif not isinstance(value, w.Response):
            res.body = value
        body = res.body
        if not isinstance(body, (list, tuple)):
            body = list(body)                      # serve_file: the generator over the open file
        data = b''.join(s if isinstance(s, bytes) else s.encode('utf-8') for s in body if s is not None)
        hdr = {k.lower(): str(v) for k, v in res.headers.items()}
        rec.append(self._resp_line(case, int(res.status), data, hdr))
        return rec

    def run_http(self, case):
        sock = SockDouble()
        hl = [('Host', 'localhost')] + request_headers(case)
        if case['m'] in ('PUT', 'POST'):
            hl.append(('Content-Length', '0'))
        raw = '%s /r HTTP/1.1\r\n' % case['m'] + ''.join('%s: %s\r\n' % kv for kv in hl) + '\r\n'
        from circuits.net.events import read
        self.case, self.rec = case, []
        self.m.fire(read(sock, raw.encode('latin-1')), 'web')
        self.settle()
        rec, self.case, self.rec = self.rec, None, None
        self.http._buffers.pop(sock, None)
        self.http._clients.pop(sock, None)
        out = bytes(self.out.pop(sock, b''))
        status, hdr, body, framed = parse_response(out)
        if not framed:
            rec.append(line('resp', code=status, body='other'))
        else:
            rec.append(self._resp_line(case, status, body, hdr))
        return rec

    # -- expires() ------------------------------------------------------------
    def run_expires(self, case):
        tools, w = self.tools, self.wrappers
        proto = (1, 1) if case['proto'] == 11 else (1, 0)
        req = w.Request(None, 'GET', 'http', '/r', proto, '', headers=self.Headers([('Host', 'localhost')]), server=self.server)
        res = w.Response(req)
        pre = {'etag': ('ETag', TAGS[1]), 'lm': ('Last-Modified', LM), 'age': ('Age', '5'), 'expires': ('Expires', EXPIRES)}
        if case['ind'] != 'none':
            k, v = pre[case['ind']]
            res.headers[k] = v
        if case['pragma']:
            res.headers['Pragma'] = PRAGMA_PRE
        if case['cc']:
            res.headers['Cache-Control'] = CC_PRE
        now = _datetime(2024, 2, 29, 12, 0, 0) if case['day'] == 'leap' else _datetime(2023, 6, 15, 12, 0, 0)
        res.time = _time.mktime(now.timetuple()) - 1000.0       # the response was begun a while before the tool runs

        class Frozen(_datetime):
            @classmethod
            def now(cls, tz=None):
                return cls(now.year, now.month, now.day, now.hour, now.minute, now.second)

        from datetime import timedelta
        secs = {'zero': 0, 'pos': 60, 'td': timedelta(seconds=60), 'tdzero': timedelta(0)}[case['secs']]
        saved = tools.datetime
        tools.datetime = Frozen
        exc = ''
        try:
            try:
                tools.expires(req, res, secs, case['force'])
            except Exception as e:
                exc = type(e).__name__
        finally:
            tools.datetime = saved
        h = res.headers
        p, c, e = h.get('Pragma'), h.get('Cache-Control'), h.get('Expires')
        xp = 'none' if p is None else 'kept' if p == PRAGMA_PRE else 'nocache' if p == 'no-cache' else 'other'
        xc = 'none' if c is None else 'kept' if c == CC_PRE else 'nocache' if c == 'no-cache, must-revalidate' else 'other'
        xd = 0
        if e is None:
            xe = 'none'
        elif e == EXPIRES:
            xe = 'kept'
        else:
            t = parsedate_tz(e)
            if t is None or not e.endswith(' GMT'):
                xe = 'other'
            else:
                ts = mktime_tz(t)
                if ts > res.time - 1:
                    xe, xd = 'future', int(ts - res.time)
                else:
                    xe, xd = 'past', int(round((_time.mktime(now.timetuple()) - ts) / 86400.0))
        return [line('xres', exc=exc, xp=xp, xc=xc, xe=xe, xd=xd)]

    # -- gzip() -----------------------------------------------------------------
    def run_gzip(self, case):
        tools, w = self.tools, self.wrappers
        hl = [('Host', 'localhost')]
        if case['ae'] != 'none':
            hl.append(('Accept-Encoding', AE_SPELL[case['ae']]))
        req = w.Request(None, 'GET', 'http', '/r', (1, 1), '', headers=self.Headers(hl), server=self.server)
        res = w.Response(req)
        if case['ct'] != 'none':
            res.headers['Content-Type'] = {'html': 'text/html; charset=utf-8', 'plain': 'text/plain', 'png': 'image/png'}[case['ct']]
        if case['vary'] != 'none':
            res.headers['Vary'] = {'other': 'Accept-Language', 'ae': 'Accept-Encoding'}[case['vary']]
        if case['body']:
            res.body = BODY
        if case['clen']:
            res.headers['Content-Length'] = str(len(BODY)) if case['body'] else '0'
        exc = ''
        code = 0
        try:
            r = tools.gzip(res)
            if isinstance(r, self.httperror):
                code = int(r.code)
        except Exception as e:
            exc, code = type(e).__name__, 500
        enc = res.headers.get('Content-Encoding')
        b = 'none'
        if code == 0:
            try:
                data = b''.join(res.body)
            except Exception as e:
                exc, data = type(e).__name__, b''
            if not data:
                b = 'none'
            elif data == BODY:
                b = 'own'
            else:
                try:
                    b = 'gz' if _gzip.decompress(data) == BODY else 'other'
                except Exception:
                    b = 'other'
        v = res.headers.get('Vary')
        if v is None:
            xc = 'none'
        else:
            vl = [x.strip() for x in v.split(',')]
            n_ae = vl.count('Accept-Encoding')
            other_ok = ('Accept-Language' in vl) == (case['vary'] == 'other')
            extra = [x for x in vl if x not in ('Accept-Encoding', 'Accept-Language')]
            xc = 'other' if extra or not other_ok or n_ae > 1 else 'ae' if n_ae == 1 else 'plain'
        cl = res.headers.get('Content-Length')
        return [line('gres', code=code, exc=exc, body=b, xe='gzip' if enc == 'gzip' else 'none' if enc is None else 'other',
                     xc=xc, hcl='none' if cl is None else 'zero' if cl == '0' else 'full' if cl == str(len(BODY)) else 'other')]

    def run(self, case):
        if case['part'] == 'exp':
            return self.run_expires(case)
        if case['part'] == 'gzip':
            return self.run_gzip(case)
        if case['fe'] == 'http':
            return self.run_http(case)
        return self.run_direct(case)


AE_SPELL = {'gzip': 'gzip', 'xgzip': 'x-gzip', 'brgzip': 'br, gzip', 'gzipq0': 'gzip;q=0', 'identity': 'identity',
            'idgzip': 'identity, gzip;q=0.5', 'gzipid': 'gzip, identity;q=0.5', 'idq0gzip': 'identity;q=0, gzip',
            'idq0': 'identity;q=0', 'deflate': 'deflate', 'star': '*'}

_STATUS = re.compile(rb'^HTTP/1\.[01] (\d{3})(?: |$)')


def parse_response(raw):
    """Independent reading of the bytes of one answer -> (status, headers, body, framed)."""
    head, sep, rest = raw.partition(b'\r\n\r\n')
    lines = head.split(b'\r\n')
    m = _STATUS.match(lines[0]) if raw else None
    if not m or not sep:
        return 0, {}, b'', False
    hdr = {}
    for ln in lines[1:]:
        k, _, v = ln.partition(b':')
        name = k.strip().lower().decode('latin-1')
        if name in hdr:
            hdr[name] += ', ' + v.strip().decode('latin-1')
        else:
            hdr[name] = v.strip().decode('latin-1')
    if 'chunked' in hdr.get('transfer-encoding', '').lower():
        body = bytearray()
        pos = 0
        ok = False
        while True:
            e = rest.find(b'\r\n', pos)
            if e < 0:
                break
            szs = rest[pos:e].split(b';')[0].strip()
            if not re.fullmatch(rb'[0-9a-fA-F]{1,8}', szs):
                break
            sz = int(szs, 16)
            pos = e + 2
            if sz == 0:
                ok = rest[pos:] == b'\r\n'
                break
            if len(rest) < pos + sz + 2 or rest[pos + sz:pos + sz + 2] != b'\r\n':
                break
            body += rest[pos:pos + sz]
            pos += sz + 2
        return int(m.group(1)), hdr, bytes(body), ok
    return int(m.group(1)), hdr, rest, True
