"""C06 - call()/wait() resume the caller exactly once with the result, leaving no residue."""

from .. import kernelgen
from ..kernelcheck import run_kernel_check

RANDOM_OPTS = {
    'ncomp': 2, 'shapes': ['plain', 'class'], 'nhandlers': (3, 7), 'prios': [-1, 0, 0, 1],
    'kinds': ['named', 'named', 'named', 'named', 'catchall'], 'nnames': 4, 'chans': ['a'],
    'script_ops': ['ret', 'ret', 'fire', 'raise', 'yield', 'call', 'call', 'call', 'wait'], 'flags': [0, 0, 1, 4, 5],
    'maxfire': 2, 'maxops_script': 4, 'targets': [None], 'p_script': 0.95, 'timeouts': [None],
    'hist_ops': ['fire', 'fire', 'tick', 'flush'], 'histlen': (1, 5), 'ext_names': 2, 'p_attach': 1.0,
}
RUN_OPTS = dict(RANDOM_OPTS, timeouts=[None, None, 0, 1, 2, 3], hist_ops=['fire'], histlen=(1, 3))


def gen_random(rnd, quick):
    n = 400 if quick else 8000
    for i in range(n):
        if i % 3 == 2:
            prog = kernelgen.gen_program(rnd, RUN_OPTS)
            h = kernelgen.gen_history(rnd, RUN_OPTS, prog)
            # run the root (component 1 after the initial registration of 2 under 1) in the checking thread
            yield prog, h + [['run', 1, 6]]
        else:
            prog = kernelgen.gen_program(rnd, RANDOM_OPTS)
            yield prog, kernelgen.gen_history(rnd, RANDOM_OPTS, prog)


def witness(prog, lines, clause, line):
    """which shape of callee the stuck / wrong activation was waiting on"""
    waits = [ln for ln in lines if ln['k'] == 'yld' and ln['f'] == 1]
    awaited = {ln['x'] for ln in waits if ln['x']}
    gen_raised = any(ln['k'] == 'gend' and ln['f'] == 1 and ln['e'] in awaited for ln in lines)
    plain_raised = any(ln['k'] == 'ret' and ln['f'] == 1 and ln['e'] in awaited for ln in lines)
    byname = any(ln['x'] == 0 for ln in waits)
    tmo = any(ln['d'] >= 0 for ln in waits)
    return {'awaited_generator_raised': gen_raised, 'awaited_plain_raised': plain_raised, 'wait_by_name': byname,
            'with_timeout': tmo}


def mutate(rnd, prog, lines):
    res = [i for i, ln in enumerate(lines) if ln['k'] == 'resume' and ln['f'] == 0 and ln['x'] != 0]
    if not res:
        return None
    i = rnd.choice(res)
    out = [dict(ln) for ln in lines]
    how = rnd.choice(['value', 'dup', 'early'])
    if how == 'value':
        out[i]['v'] += 1
        return out, 'resumed value changed at line %d' % (i + 1)
    if how == 'dup':
        out.insert(i + 1, dict(lines[i]))
        return out, 'second resume of the same activation at line %d' % (i + 2)
    # early: move the resume before the dispatch end of the awaited event
    on = lines[i]['x']
    d = [j for j, ln in enumerate(lines[:i]) if ln['k'] == 'dend' and ln['e'] == on]
    if not d or any(ln['k'] in ('ret', 'gend') and ln['f'] == 1 and ln['e'] == on for ln in lines):
        return None
    moved = out.pop(i)
    out.insert(d[0], moved)
    return out, 'resume moved before the awaited event finished'


def run(tier, replay=None):
    spec = {
        'own': ['C06'],
        'families': [],
        'teeth': [],
        'random': gen_random, 'witness': witness, 'mutators': mutate,
        'nontrivial': lambda p, ls: any(ln['k'] == 'yld' and ln['f'] == 1 for ln in ls),
        'rule': 'cases = (program, external history): seeded random acyclic programs of generator handlers that call()/wait() on '
                'further events (by object and by name, sequential and nested, several root events in flight, callees returning, '
                'yielding, raising before or after their first yield), driven by tick() and, for timeouts {0,1,2,3}, under a real run() '
                'in the checking thread with virtual idle waits; non-trivial = at least one suspension on call/wait; distinct by hash',
        'assumptions': ['idle waits of the fallback generator are virtual (threading.Event double) so loop iterations are counted, not timed',
                        'wait() is always issued in the handler segment that fired the awaited event (waiting for an event that was '
                        'already dispatched is outside the property)'],
    }
    return run_kernel_check('C06', tier, spec, replay)
