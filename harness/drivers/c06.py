"""C06 - call()/wait() resume the caller exactly once with the result, leaving no residue."""

from .. import kernelgen
from . import c05
from ..kernelcheck import run_kernel_check

def _h(comp, names, prio, script):
    return {'comp': comp, 'names': names, 'chan': None, 'prio': prio, 'script': script}


def fam_callwait(maxops):
    """call() and wait() by object, nested and sequential, callees that yield / raise after a wait"""
    return {
        'comps': {'1': {'chan': 'a'}},
        'handlers': {
            '1': _h(1, ['x0'], 1, {'x0': [['call', {'name': 'x1', 'flags': 1}, None], ['ret', 5]]}),
            '2': _h(1, ['x0'], 0, {'x0': [['yield', 2], ['fire', {'name': 'x2', 'flags': 4}], ['yield', None], ['ret', 3]]}),
            '3': _h(1, ['x1'], 0, {'x1': [['yield', None], ['ret', 7]]}),
            '4': _h(1, ['x1'], -1, {'x1': [['ret', 8]]}),
            '5': _h(1, ['x2'], 0, {'x2': [['fire', {'name': 'x3'}], ['wait', {'name': 'x3'}, None], ['raise']]}),
            '6': _h(1, ['x3'], 0, {'x3': [['ret', 1]]}),
        },
        'ext': [{'name': 'x0', 'flags': 5}, {'name': 'x2', 'flags': 0}],
        'ops': ['fire', 'tick', 'flush'], 'pre': [], 'maxops': maxops, 'firers': [1], 'flushers': [1], 'dyn': [],
    }


def fam_nested(maxops):
    """x0 calls x1 whose handler calls x2 (by name wait on the side); two callers of the same event name in flight"""
    return {
        'comps': {'1': {'chan': 'a'}, '2': {'chan': 'a'}},
        'handlers': {
            '1': _h(1, ['x0'], 0, {'x0': [['call', {'name': 'x1'}, None], ['call', {'name': 'x2'}, None], ['ret', 1]]}),
            '2': _h(2, ['x1'], 0, {'x1': [['call', {'name': 'x2', 'flags': 1}, None], ['ret', 2]]}),
            '3': _h(2, ['x2'], 0, {'x2': [['yield', None], ['ret', 3]]}),
            '4': _h(1, ['x2'], -1, {'x2': [['raise']]}),
            '5': _h(2, ['x3'], 0, {'x3': [['fire', {'name': 'x2'}], ['wait', {'name': 'x2', 'byname': True}, None], ['ret', 5]]}),
        },
        'ext': [{'name': 'x0', 'flags': 1}, {'name': 'x3', 'flags': 0}],
        'ops': ['fire', 'tick'], 'pre': [['reg', 2, 1]], 'maxops': 1 + maxops, 'firers': [1], 'flushers': [1], 'dyn': [],
    }


def fam_timeouts():
    """call() with timeout t against a callee that needs k more loop iterations, under run(): the result arrives
    in time, on the last countdown tick, or the TimeoutError comes first; the caller ends or delivers a value after it"""
    progs = []
    for t in (None, 0, 1, 2):
        for k in (0, 1, 3):
            for after in ([], [['ret', 5]]):
                progs.append({
                    'comps': {'1': {'chan': 'a'}},
                    'handlers': {
                        '1': _h(1, ['x0'], 0, {'x0': [['call', {'name': 'x1', 'flags': 1}, t]] + after}),
                        '2': _h(1, ['x1'], 0, {'x1': [['yield', None]] * k + [['ret', 7]]}),
                    },
                    'ext': [{'name': 'x0', 'flags': 5}],
                    'ops': ['fire', 'run'], 'pre': [], 'maxops': 2, 'firers': [1], 'flushers': [1], 'dyn': []})
    # callers that go on after the TimeoutError: a plain yield, a value, another call
    for t in (0, 1):
        for after in ([['yield', None], ['ret', 4]], [['yield', 6]], [['call', {'name': 'x1', 'flags': 0}, None], ['ret', 2]]):
            progs.append({
                'comps': {'1': {'chan': 'a'}},
                'handlers': {
                    '1': _h(1, ['x0'], 0, {'x0': [['call', {'name': 'x1', 'flags': 1}, t]] + after}),
                    '2': _h(1, ['x1'], 0, {'x1': [['yield', None]] * 3 + [['ret', 7]]}),
                },
                'ext': [{'name': 'x0', 'flags': 5}],
                'ops': ['fire', 'run'], 'pre': [], 'maxops': 2, 'firers': [1], 'flushers': [1], 'dyn': []})
    return progs


RANDOM_OPTS = {
    'ncomp': 2, 'shapes': ['plain', 'class'], 'nhandlers': (3, 7), 'prios': [-1, 0, 0, 1],
    'kinds': ['named', 'named', 'named', 'named', 'catchall'], 'nnames': 4, 'chans': ['a'],
    'script_ops': ['ret', 'ret', 'fire', 'raise', 'yield', 'call', 'call', 'call', 'wait'], 'flags': [0, 0, 1, 4, 5],
    'maxfire': 2, 'maxops_script': 4, 'targets': [None], 'p_script': 0.95, 'timeouts': [None],
    'hist_ops': ['fire', 'fire', 'tick', 'flush'], 'histlen': (1, 5), 'ext_names': 2, 'p_attach': 1.0,
}
RUN_OPTS = dict(RANDOM_OPTS, timeouts=[None, None, 0, 1, 2, 3], hist_ops=['fire'], histlen=(1, 3))
# waits by name for events that never come, ended by their timeout; the manager is ticked by hand often enough
NEVER_OPTS = dict(RANDOM_OPTS, timeouts=[None, 0, 1, 2, 3], never_waits=True, hist_ops=['fire', 'tick'], histlen=(1, 4))


def never_cases():
    """a wait by name, with a timeout, for an event that never comes (or comes only after the timeout): the caller gets
    TimeoutError once and nothing of the wait stays behind"""
    for tmo, after, late in [(t, a, l) for t in (0, 1, 3) for a in ('ret', 'yield', 'call') for l in (False, True)]:
        tail = {'ret': [['ret', 7]], 'yield': [['yield', 5], ['ret', 7]],
                'call': [['call', {'name': 'x2', 'prio': 0, 'flags': 0, 'ch': None}, None], ['ret', 7]]}[after]
        prog = {'comps': {'1': {'chan': 'a'}},
                'handlers': {
                    '1': {'comp': 1, 'names': ['x0'], 'chan': None, 'prio': 0,
                          'script': {'x0': [['wait', {'name': 'x3', 'prio': 0, 'flags': 0, 'ch': None, 'byname': True}, tmo]] + tail}},
                    '2': {'comp': 1, 'names': ['x2'], 'chan': None, 'prio': 0, 'script': {'x2': [['ret', 2]]}},
                    '3': {'comp': 1, 'names': ['x3'], 'chan': None, 'prio': 0, 'script': {'x3': [['ret', 3]]}}},
                'dyn': []}
        # a timeout counts iterations of the loop, and an idle loop does not iterate: the manager is stepped by hand
        hist = [['fire', 1, {'name': 'x0', 'prio': 0, 'flags': 1, 'ch': None}]] + [['rtick', 1]] * 8
        if late:
            # the awaited name is fired long after the wait has timed out
            hist += [['fire', 1, {'name': 'x3', 'prio': 0, 'flags': 0, 'ch': None}]] + [['rtick', 1]] * 3
        yield prog, hist


def gen_random(rnd, quick):
    yield from never_cases()
    n = 400 if quick else 8000
    for i in range(n):
        if i % 5 == 4:
            prog = kernelgen.gen_program(rnd, NEVER_OPTS)
            yield prog, kernelgen.gen_history(rnd, NEVER_OPTS, prog) + [['rtick', 1]] * 24
        elif i % 3 == 2:
            prog = kernelgen.gen_program(rnd, RUN_OPTS)
            h = kernelgen.gen_history(rnd, RUN_OPTS, prog)
            # run the root (component 1 after the initial registration of 2 under 1) in the checking thread
            yield prog, h + [['run', 1, 6]]
        else:
            prog = kernelgen.gen_program(rnd, RANDOM_OPTS)
            yield prog, kernelgen.gen_history(rnd, RANDOM_OPTS, prog)


def witness(prog, lines, clause, line):
    """which shape of callee the stuck / wrong activation was waiting on"""
    waits = [ln for ln in lines if ln['k'] == 'yld' and ln['f'] == 1]
    awaited = {ln['x'] for ln in waits if ln['x']}
    gen_raised = any(ln['k'] == 'gend' and ln['f'] == 1 and ln['e'] in awaited for ln in lines)
    plain_raised = any(ln['k'] == 'ret' and ln['f'] == 1 and ln['e'] in awaited for ln in lines)
    byname = any(ln['x'] == 0 for ln in waits)
    tmo = any(ln['d'] >= 0 for ln in waits)
    timeout_fired = any(ln['k'] == 'resume' and ln['f'] == 2 for ln in lines[:line])
    # a caller that goes on yielding after it was resumed with TimeoutError
    cont = False
    for i, ln in enumerate(lines):
        if ln['k'] == 'resume' and ln['f'] == 2:
            if any(l2['k'] == 'yld' and l2['e'] == ln['e'] and l2['h'] == ln['h'] for l2 in lines[i + 1:]):
                cont = True
    return {'awaited_generator_raised': gen_raised, 'awaited_plain_raised': plain_raised, 'wait_by_name': byname,
            'with_timeout': tmo, 'timeout_fired_before': timeout_fired, 'caller_continues_after_timeout': cont}


def mutate(rnd, prog, lines):
    if any(ln['k'] == 'fire' and ln['y'] == 5 and ln['d'] % 100 == 1 for ln in lines) or \
            any(ln['k'] == 'resume' and ln['f'] == 2 for ln in lines):
        return None      # internal errors / timeouts: the monitor deliberately judges less there
    gens = {ln['e'] for ln in lines if ln['k'] == 'ret' and ln['f'] == 2}
    res = [i for i, ln in enumerate(lines) if ln['k'] == 'resume' and ln['f'] == 0 and ln['x'] != 0 and ln['x'] not in gens]
    if not res:
        return None
    i = rnd.choice(res)
    out = [dict(ln) for ln in lines]
    how = rnd.choice(['value', 'dup', 'early'])
    if how == 'value':
        out[i]['v'] += 1
        return out, 'resumed value changed at line %d' % (i + 1)
    if how == 'dup':
        out.insert(i + 1, dict(lines[i]))
        return out, 'second resume of the same activation at line %d' % (i + 2)
    # early: move the resume before the dispatch end of the awaited event
    on = lines[i]['x']
    d = [j for j, ln in enumerate(lines[:i]) if ln['k'] == 'dend' and ln['e'] == on]
    if not d or any(ln['k'] in ('ret', 'gend') and ln['f'] == 1 and ln['e'] == on for ln in lines):
        return None
    moved = out.pop(i)
    out.insert(d[0], moved)
    return out, 'resume moved before the awaited event finished'


def run(tier, replay=None):
    quick = tier == 'quick'
    spec = {
        'own': ['C06', 'C05', 'C04'],     # 'the caller's own event then completes as if the handler had run synchronously': value / success / completion clauses count here too
        'families': [
            {'name': 'callwait', 'programs': [fam_callwait(2 if quick else 3)], 'hist_programs': [fam_callwait(2 if quick else 3)],
             'hist_cap_quick': 600},
            {'name': 'nested', 'programs': [fam_nested(2 if quick else 3)], 'hist_programs': [fam_nested(2 if quick else 3)],
             'hist_cap_quick': 600},
            {'name': 'timeouts', 'programs': fam_timeouts(), 'hist_programs': fam_timeouts(), 'hist_cap_quick': 400},
            # two calls in sequence under a completion-tracked event; the second callee starts a chain (shared with C05)
            {'name': 'calls', 'programs': [c05.fam_calls(2 if quick else 3)], 'hist_programs': [c05.fam_calls(2 if quick else 3)],
             'hist_cap_quick': 300},
        ],
        'teeth': [{'name': 'callwait/GenErrorHang', 'programs': [fam_callwait(2)], 'variants': {'GenErrorHang': True},
                   'expect': {'ConformsC05', 'ConformsC06', 'ConformsC04', 'CompleteDelivered', 'NoTaskResidue'}}],
        'random': gen_random, 'witness': witness, 'mutators': mutate,
        'nontrivial': lambda p, ls: any(ln['k'] == 'yld' and ln['f'] == 1 for ln in ls),
        'rule': 'cases = (program, external history): seeded random acyclic programs of generator handlers that call()/wait() on '
                'further events (by object and by name, sequential and nested, several root events in flight, callees returning, '
                'yielding, raising before or after their first yield), driven by tick() and, for timeouts {0,1,2,3}, under a real run() '
                'in the checking thread with virtual idle waits; non-trivial = at least one suspension on call/wait; distinct by hash',
        'assumptions': ['idle waits of the fallback generator are virtual (threading.Event double) so loop iterations are counted, not timed',
                        'wait() is always issued in the handler segment that fired the awaited event (waiting for an event that was '
                        'already dispatched is outside the property)'],
    }
    return run_kernel_check('C06', tier, spec, replay)
