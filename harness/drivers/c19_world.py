"""C19 - the real system under test: two circuits.node Protocol components wired
back to back without sockets, each in its own Manager tree.

A `World` is one run.  Side 0 ("A") fires remote events and waits for their
results; side 1 ("B") executes them.  Each side's Protocol is a *fresh copy* of
the module circuits/node/protocol.py of the tree under test (two peers are two
processes: they must not share the class-level state of Protocol), whose
`load_event` global is wrapped from outside to observe the event as loaded.
Bytes one side writes (captured `write` events) are kept in a Stream per
direction; the script cuts them into reads and feeds them to the other side's
`read` handler (which calls Protocol.add_buffer, as circuits.node.Client does).

Script steps (what a TLC history is realised into):
  ('S', size, pay, fwk[, conn[, nr]])  A fires a remote event; size 's'|'b', pay 'plain'|'tilde'|'valkey',
                               fwk 'ok'|'sblk'|'rblk' (event name the firewalls look at); nr: nobody
                               waits for the result (what Server.send(no_result=True) does)
  ('R', dir, k)                one read of k cells of direction dir (0: A->B, 1: B->A)
  ('Rb', dir, nbytes)          one read of nbytes bytes (random scenarios)
  ('P', sid, v, err)           B's handler for sid finishes: returns value (sid, v) or raises
  ('H', cls, key[, dir])       hostile packet of class cls appended to the stream (default B->A)
  ('Q',)                       quiescence (drain, release everything, probes)
A run always ends with the quiescence procedure.

Trace lines: {'k','id','a','b','c','s'} - see spec/proto/NodeRpcOps.tla.
"""

import json
import os
import random
import types

DELIM = b'~~~'
BUFW = 10            # weight of one read window (spec: BufW)
CH = 'node'

PROTECTED = ['cause', 'effects', 'value', 'handler', 'channels', 'waitingHandlers', 'cancelled', 'stopped',
             'name', 'alert_done', 'success', 'failure', 'complete', 'notify', 'parent', 'args', 'kwargs',
             'child', 'success_channels', 'complete_channels', 'node_call_id', 'node_sock']
BENIGN_KEYS = ['foo', '_foo']
HOSTILE_ID0 = 9000
VMARK = 'C19-VMETA'

_code_cache = {}


def protocol_copy(tag):
    """A fresh module object executing circuits/node/protocol.py of the tree under test."""
    import circuits.node
    path = os.path.join(os.path.dirname(os.path.abspath(circuits.node.__file__)), 'protocol.py')
    code = _code_cache.get(path)
    if code is None:
        with open(path) as f:
            code = compile(f.read(), path, 'exec')
        _code_cache[path] = code
    mod = types.ModuleType('circuits.node._c19_protocol_%s' % tag)
    mod.__package__ = 'circuits.node'
    mod.__file__ = path
    exec(code, mod.__dict__)
    return mod


def chan_of(conn):
    return CH if conn == 0 else '%s%d' % (CH, conn + 1)


def brace_traps(piece):
    """byte offsets p (0 < p < len) such that piece[:p] ends with "}" and contains as
    many "{" as "}": where a brace-counting completeness test is fooled"""
    out = []
    depth = 0
    for i, ch in enumerate(piece[:-1]):
        if ch == 0x7b:
            depth += 1
        elif ch == 0x7d:
            depth -= 1
            if depth == 0:
                out.append(i + 1)
    return out


FALSY = [0, 0.0, False, '', [], {}]
WIRE_KEYS = ['name', 'value', 'id', 'args', 'kwargs', 'meta', 'errors', 'channels', 'success', 'failure', 'notify']
STRUCT_STRINGS = ['closing } first', 'x}y', '{0}} and {{1}', ']"}', 'a{2}}', '}', '[{"name": 1}]', ', : " \\ \' [ ] {',
                  '~ ~~ }~', '"value": "name":', '}  ', '{"id": 0, "name": "x"}~~']


def wire_object(r, depth=0):
    """an object whose keys collide with the wire format's own keys, nested"""
    d = {'name': r.choice(['alice', 7, None]), 'value': r.choice([1, 'v', [1, 2]])}
    for k in r.sample(WIRE_KEYS, r.randint(1, 4)):
        d[k] = r.choice([0, 'x', None, True, [1, {'name': 'n', 'id': 3}]])
    if depth < 2 and r.random() < 0.6:
        d[r.choice(['meta', 'kwargs', 'inner'])] = wire_object(r, depth + 1)
    return d


def line(k, id=0, a=0, b=0, c=0, s=''):
    return {'k': k, 'id': int(id), 'a': int(a), 'b': int(b), 'c': int(c), 's': s}


class Piece:
    """A run of stream bytes without delimiter, seen by the model as n cells of
    weight w; offs[j] = byte offset of cell boundary j (offs[0]=0, offs[n]=len)."""

    def __init__(self, nbytes, n, w, rnd, forced=None, avoid=()):
        """forced: byte offset of cell boundary 1 (the model's trap position of a
        "brace" payload); avoid: offsets other boundaries must not fall on"""
        self.nbytes = nbytes
        self.n = n
        self.w = w
        offs = [0]
        if forced is not None and n >= 2 and 0 < forced < nbytes - (n - 2):
            offs.append(forced)
        for j in range(len(offs), n):
            lo = max(offs[-1] + 1, (j * nbytes) // n - nbytes // (4 * n))
            hi = min(nbytes - (n - j), (j * nbytes) // n + nbytes // (4 * n))
            if hi < lo:
                hi = lo
            o = rnd.randint(lo, hi)
            while o in avoid and o < nbytes - (n - j):
                o += 1
            offs.append(o)
        offs.append(nbytes)
        self.offs = offs


class Stream:
    """Bytes written in one direction + their cell layout + read position."""

    def __init__(self, rnd):
        self.rnd = rnd
        self.data = bytearray()
        self.cells = []        # per cell: (byte_start, byte_end, weight)
        self.rpos = 0          # cells read
        self.rbyte = 0         # bytes read
        self.packets = []      # dicts: start, end (payload bytes, end excl. final delimiter), kind, sid, hostile
        self.bounds = []       # byte positions of read boundaries so far
        self.has_trap = False

    def append(self, data, kind, sid=0, big=False, hostile=False, tag=''):
        """data = payload(s) + trailing delimiter as written; cells are derived
        from the pieces between delimiters."""
        base = len(self.data)
        self.data += data
        body = bytes(data)
        assert body.endswith(DELIM)
        pieces = body[:-3].split(DELIM)
        nparts = len(pieces)
        pos = base
        for i, pc in enumerate(pieces):
            if big:
                # spec: a big payload is 3 cells of weight 4; split by an inner delimiter into 1 + 2
                n = 3 if nparts == 1 else (1 if i == 0 else 2)
                w = 4
            else:
                n = 2 if nparts == 1 else 1
                w = 1
            if big and len(pc) > 9000:
                n = -(-len(pc) // 1400)          # a huge piece: as many weight-4 cells as 4 KiB reads need
            n = max(1, min(n, len(pc))) if len(pc) else 0
            if n:
                traps = brace_traps(pc) if nparts == 1 else []
                forced = None
                if traps:
                    # boundary 1 = right behind the first "}" that balances the braces before it,
                    # or behind blanks that follow it
                    forced = traps[0]
                    while forced < len(pc) - 1 and pc[forced:forced + 1] == b' ' and self.rnd.random() < 0.5:
                        forced += 1
                    self.has_trap = True
                p = Piece(len(pc), n, w, self.rnd, forced, set(traps))
                for j in range(n):
                    self.cells.append((pos + p.offs[j], pos + p.offs[j + 1], w))
            pos += len(pc)
            for j in range(3):
                self.cells.append((pos + j, pos + j + 1, 1))
            pos += 3
        self.packets.append({'start': base, 'end': base + len(body) - 3, 'kind': kind, 'sid': sid,
                             'hostile': hostile, 'tag': tag, 'inner': nparts > 1})

    def avail_cells(self):
        return len(self.cells) - self.rpos

    def full_cells(self):
        """The largest read the 4 KiB buffer allows: cells from rpos of total weight <= BUFW."""
        w = 0
        k = 0
        while self.rpos + k < len(self.cells) and w + self.cells[self.rpos + k][2] <= BUFW:
            w += self.cells[self.rpos + k][2]
            k += 1
        return k

    def take_cells(self, k):
        k = min(k, self.avail_cells())
        if k <= 0:
            return b''
        end = self.cells[self.rpos + k - 1][1]
        out = bytes(self.data[self.rbyte:end])
        self.rpos += k
        self.rbyte = end
        self.bounds.append(end)
        return out

    def take_bytes(self, nbytes):
        nbytes = min(nbytes, len(self.data) - self.rbyte)
        if nbytes <= 0:
            return b''
        end = self.rbyte + nbytes
        out = bytes(self.data[self.rbyte:end])
        self.rbyte = end
        while self.rpos < len(self.cells) and self.cells[self.rpos][1] <= end:
            self.rpos += 1
        self.bounds.append(end)
        return out

    def was_cut(self, pk):
        """Did a read boundary fall so that the packet did not arrive as one piece
        between clean delimiters?  (boundary inside the preceding delimiter, inside
        the payload, or inside its own delimiter; a boundary exactly at the end of
        the payload is clean)"""
        s, e = pk['start'], pk['end']
        for b in self.bounds:
            if s - 3 < b < s and s > 0:
                return True
            if s < b < e + 3 and b != e:
                return True
        return False

    def touches_hostile(self, b0, b1):
        for pk in self.packets:
            if pk['hostile'] and pk['start'] < b1 and b0 < pk['end'] + 3:
                return True
        return False


class World:
    def __init__(self, fw='--', seed=0, nconn=1, server=False):
        from circuits import Component, Event, Manager, handler
        from circuits.core import Value  # noqa
        self.Event = Event
        self.rnd = random.Random(seed)
        self.log = []
        self.notes = []
        self.fw = fw
        self.nconn = nconn
        # server mode: node 0 is a callee holding all connections on one channel, like node.Server
        # (one Protocol per socket, server=True); the peers are the callers
        self.server = server
        # one connection = two streams; node 0 is A (all its connections live in one
        # process: one Manager, one copy of protocol.py), node 1 + c is the peer of connection c
        self.streams = {(c, d): Stream(self.rnd) for c in range(nconn) for d in (0, 1)}
        self.sends = {}          # sid -> dict(ev, proj, sok, rok, size, pay, fwk, wire, conn)
        self.wire2sid = {}       # (conn, wire id) -> sid
        self.nwire = [0] * nconn
        self.projs = {}
        self.values = {}         # (sid, v) -> python value
        self.loaded = {}         # id(event) -> proj id as loaded
        self.hostile = {}        # hostile wire id -> (cls, key, supplied)
        self.nhost = 0
        self.running = {}        # sid -> dict(release=None|('v', value)|('e',))
        self.probe_seen = {}
        self.last_escape = None
        self.escapes = {}        # index of an escape line in the log -> what the dispatcher was handling
        self.origin = {}         # id(event) -> tag of the packet it was built from
        self.keep = []           # keeps loaded events alive (ids stay unique)
        self.vpending = []       # hostile value packets decoded in the current add_buffer call
        world = self

        def make_node(node):
            mod = protocol_copy('n%d_%d' % (node, id(world)))
            orig_load = mod.load_event

            def load_event(s):
                e, wid = orig_load(s)
                world.on_load(node, e, wid)
                return e, wid

            mod.load_event = load_event
            orig_load_value = mod.load_value

            def load_value(s):
                res = orig_load_value(s)
                world.on_load_value(node, res)
                return res

            mod.load_value = load_value
            return Manager(), mod

        def make_link(node, conn, m, mod):
            kw = {}
            if node == 0 and 'S' in fw:
                kw['send_event_firewall'] = lambda ev, sock: ev.name != 'deny_s'
            if node != 0 and 'R' in fw:
                kw['receive_event_firewall'] = lambda ev, sock: ev.name != 'deny_r'
            ch = world.chan(conn)

            class App(Component):
                channel = ch

                def init(self):
                    self.protocol = mod.Protocol(channel=ch, **kw).register(self)

                def write(self, data):
                    world.on_write(node, conn, data)

                def read(self, data):
                    try:
                        self.protocol.add_buffer(data)
                    finally:
                        world.after_add_buffer(node)

                def gonr(self, ev, sid):
                    # exactly what node.Server.send(event, sock, no_result=True) does
                    iterator = self.protocol.send(ev)
                    ev.node_without_result = True
                    try:
                        next(iterator)
                    except StopIteration:
                        pass

                def rcall(self, ev, sid):
                    return self.protocol.send(ev)

                def go(self, ev, sid):
                    v = yield self.call(Event.create('rcall', ev, sid))
                    world.on_deliver(sid, ev, v)

                def _work(self, event, *args, **kwargs):
                    sid = world.on_exec(node, conn, event, args)
                    st = world.running.get(sid)
                    while st is not None and st['release'] is None:
                        yield None
                    if st is None:
                        return
                    rel = st['release']
                    del world.running[sid]
                    if rel[0] == 'e':
                        raise RuntimeError('callee handler for sid %s fails' % sid)
                    yield rel[1]

                @handler('work', 'deny_s', 'deny_r')
                def _on_work(self, event, *args, **kwargs):
                    return self._work(event, *args, **kwargs)

                def hwork(self, event, *args, **kwargs):
                    world.on_hexec(node, event, args)
                    return 'h'

                def probe(self, n):
                    world.probe_seen[(node, conn)] = n

            return App().register(m)

        def make_hub(m, mod):
            socks = ['sock%d' % c for c in range(nconn)]

            class Hub(Component):
                channel = CH

                def init(self):
                    self.protocols = {sk: mod.Protocol(sock=sk, server=True, channel=CH).register(self) for sk in socks}

                def write(self, sock, data):
                    world.on_write(0, socks.index(sock), data)

                def read(self, sock, data):
                    try:
                        self.protocols[sock].add_buffer(data)
                    finally:
                        world.after_add_buffer(0)

                def _work(self, event, *args, **kwargs):
                    sk = getattr(event, 'node_sock', None)
                    sid = world.on_exec(0, socks.index(sk) if sk in socks else 0, event, args)
                    st = world.running.get(sid)
                    while st is not None and st['release'] is None:
                        yield None
                    if st is None:
                        return
                    rel = st['release']
                    del world.running[sid]
                    if rel[0] == 'e':
                        raise RuntimeError('callee handler for sid %s fails' % sid)
                    yield rel[1]

                @handler('work', 'deny_s', 'deny_r')
                def _on_work(self, event, *args, **kwargs):
                    return self._work(event, *args, **kwargs)

                def hwork(self, event, *args, **kwargs):
                    world.on_hexec(0, event, args)
                    return 'h'

                def probe(self, n):
                    for c in range(nconn):
                        world.probe_seen[(0, c)] = n

            return Hub().register(m)

        self.nodes = [make_node(n) for n in range(1 + nconn)]
        self.links = {}
        if server:
            hub = make_hub(*self.nodes[0])
        for c in range(nconn):
            self.links[(0, c)] = hub if server else make_link(0, c, *self.nodes[0])
            self.links[(1 + c, c)] = make_link(1 + c, c, *self.nodes[1 + c])
        for n in range(1 + nconn):
            self.settle(n)
        self.log.append(line('cfg', 0, 1 if 'S' in fw else 0, 1 if 'R' in fw else 0, nconn))

    def chan(self, conn):
        return CH if self.server else chan_of(conn)

    # -- observers ---------------------------------------------------------
    def proj_id(self, e):
        key = json.dumps([e.name, e.args, e.kwargs, list(e.channels), bool(e.success), bool(e.failure), bool(e.notify)],
                         sort_keys=True, default=repr)
        return self.projs.setdefault(key, len(self.projs) + 1)

    def on_load(self, node, e, wid):
        idx = min(node, 1)
        try:
            h = self.hostile.get(wid) if isinstance(wid, int) else None
        except TypeError:
            h = None
        self.keep.append(e)
        self.origin[id(e)] = ('%s:%s' % (h['cls'], h['key'])) if h is not None else 'call'
        if h is not None:
            for key, supplied in h['meta'].items():
                ov = 1 if getattr(e, key, _MISSING) == supplied else 0
                self.log.append(line('hattr', idx, ov, 0, 0, key))
            return
        self.loaded[id(e)] = (self.proj_id(e), e)

    def on_load_value(self, node, res):
        """a value packet was decoded: remember hostile ones (they carry a marker value)
        until add_buffer returns"""
        val = res[0]
        if isinstance(val, list) and len(val) == 2 and val[0] == VMARK and isinstance(val[1], int):
            self.vpending.append(val[1])

    def after_add_buffer(self, node):
        """did the metadata of a hostile value packet land on the sender's event?"""
        pend, self.vpending = self.vpending, []
        for hid in pend:
            h = self.hostile.get(hid)
            if h is None:
                continue
            sid = h.get('target')
            ev = self.sends[sid]['ev'] if sid in self.sends else None
            for key, supplied in h['meta'].items():
                ov = 1 if (ev is not None and getattr(ev, key, _MISSING) == supplied) else 0
                self.log.append(line('hattr', min(node, 1), ov, 2, 0, key))

    def on_write(self, node, conn, data):
        data = bytes(data)
        idx = min(node, 1)
        self.log.append(line('wr', idx, len(data)))
        big = len(data) > 4096
        self.streams[(conn, idx)].append(data, 'pkt', big=big)

    def on_exec(self, node, conn, event, args):
        idx = min(node, 1)
        # the harness puts the send id into args[0]; the wire id is the fallback
        sid = args[0] if (args and isinstance(args[0], int) and not isinstance(args[0], bool) and args[0] in self.sends) else None
        if sid is None:
            wid = getattr(event, 'node_call_id', None)
            sid = self.wire2sid.get((conn, wid)) if isinstance(wid, int) else None
        if sid is None:
            sid = 0
        got = self.loaded.get(id(event))
        pid = got[0] if got else -1
        self.log.append(line('exec', sid, pid, idx))
        if sid in self.running or sid == 0:
            return None      # a second execution: recorded, finishes at once
        self.running[sid] = {'release': None}
        return sid

    def on_hexec(self, node, event, args):
        idx = min(node, 1)
        wid = args[0] if args else None
        h = self.hostile.get(wid) if isinstance(wid, int) else None
        if h is None:
            self.log.append(line('hattr', idx, 0, 1, 0, '?'))
            return
        for key, supplied in h['meta'].items():
            ov = 1 if getattr(event, key, _MISSING) == supplied else 0
            self.log.append(line('hattr', idx, ov, 1, 0, key))
        if not h['meta']:
            self.log.append(line('hattr', idx, 0, 1, 0, ''))

    def value_id(self, sid, val):
        for (s, v), pv in self.values.items():
            if s == sid and _same(pv, val):
                return v
        if val is None:
            return 0
        return -1

    def on_deliver(self, sid, ev, v):
        try:
            val = v.value
        except Exception:   # noqa
            val = _MISSING
        err = bool(getattr(ev, 'errors', False)) or bool(getattr(v, 'errors', False))
        self.log.append(line('deliver', sid, self.value_id(sid, val), 1 if err else 0))

    # -- stepping ----------------------------------------------------------
    def settle(self, node, maxticks=400):
        m = self.nodes[node][0]
        idx = min(node, 1)
        idle = 0
        for _ in range(maxticks):
            before = len(self.log)
            try:
                m.tick()
            except Exception as e:   # the loop of Manager.run() ends here
                self.last_escape = '%s: %s' % (type(e).__name__, e)
                self.escapes[len(self.log)] = self._culprit(e)
                self.log.append(line('escape', idx, 0, 0, 0, type(e).__name__))
            if len(m) == 0 and len(self.log) == before:
                idle += 1
                if idle >= 8:
                    return
            else:
                idle = 0
        self.notes.append('node %d does not settle' % node)

    def _culprit(self, exc):
        """which packet built the event the dispatcher was handling when it raised"""
        tb = exc.__traceback__
        while tb is not None:
            if tb.tb_frame.f_code.co_name == '_dispatcher':
                ev = tb.tb_frame.f_locals.get('event')
                return self.origin.get(id(ev), 'event %s' % getattr(ev, 'name', '?'))
            tb = tb.tb_next
        return 'outside dispatcher'

    def fire(self, node, conn, ev):
        m = self.nodes[node][0]
        m.fire(ev, self.chan(conn))
        self.settle(node)

    def make_value(self, sid, v):
        r = self.rnd
        if v == 2:
            val = {'blob': _text(r, r.randint(4200, 4400)), 'sid': sid}
        elif v == 3:
            val = r.choice([wire_object(r), [wire_object(r), sid], {'rows': [wire_object(r)], 'sid': sid}])
            if isinstance(val, dict):
                val.setdefault('sid', sid)
        elif v == 4:
            val = r.choice(['closing } first %d' % sid, 'x}y %d' % sid, ['a{2}} %d' % sid, {'k': '}'}]])
        elif v == 6:      # a falsy result that is not None
            val = r.choice(FALSY)
        elif 60 <= v < 60 + len(FALSY):      # harness only: each falsy value
            val = FALSY[v - 60]
        elif v == 7:      # harness only: a result of more than 64 KiB
            val = {'blob': _text(r, r.randint(70000, 90000)), 'sid': sid}
        elif v == 5:      # harness only: strings full of structural characters
            val = [sid] + r.sample(STRUCT_STRINGS, 4) + [{'fmt': '{0}} and {{1}', 'k': 'x}y'}]
        else:
            val = r.choice([['r', sid], 'res-%d' % sid, {'sid': sid, 'ok': True, 'n': None}, sid * 1000 + 7,
                            {'nested': [sid, [1.5, 'x'], {'k': 'v'}]}, 'résultat %d ✓' % sid])
        self.values[(sid, v)] = val
        return val

    def step_send(self, size, pay, fwk, conn=0, nr=False):
        Event = self.Event
        r = self.rnd
        ch = self.chan(conn)
        sid = len(self.sends) + 1
        name = {'ok': 'work', 'sblk': 'deny_s', 'rblk': 'deny_r'}[fwk]
        args = [sid]
        kwargs = {}
        pool = [None, True, 0, 0.0, False, '', [], {}, -17, 3.25, 'txt', 'café ☃', [1, [2, 'three']], {'a': {'b': [None, False]}},
                'quote " and \\ backslash', '"value" : not a key', '~ ~~ tildes apart']
        for _ in range(r.randint(0, 3)):
            args.append(r.choice(pool))
        for _ in range(r.randint(0, 2)):
            kwargs[r.choice(['x', 'y', 'opt', 'n1'])] = r.choice(pool)
        if size == 'b':
            args.append(_text(r, r.randint(4200, 4400)))
        elif size == 'h':      # harness only: a packet of more than 64 KiB (after escaping), many 4 KiB reads
            q = r.random()
            args.append(_text(r, r.randint(67000, 90000)) if q < 0.5 else
                        _text(r, r.randint(290000, 310000)) if q < 0.7 else '~' * r.randint(11500, 14000))
        if pay == 'tilde':
            if size == 'b':
                # inner delimiter after about one third of the packet
                args[-1] = args[-1][:1300] + '~~~' + args[-1][1300:]
                args = [sid, args[-1]]
                kwargs = {}
            else:
                args.append('til~~~de')
        elif pay == 'valkey':
            kwargs['value'] = r.choice([1, 'v', None])
        elif pay == 'wirekey':
            # objects with the wire format's own keys, as argument and as keyword arguments
            args.insert(1, wire_object(r))
            kwargs['value'] = r.choice([1, 'v', None])
            kwargs['name'] = r.choice(['n', 2])
            for k in r.sample(['id', 'args', 'kwargs', 'meta', 'errors', 'channels', 'success'], r.randint(0, 3)):
                kwargs[k] = r.choice([0, 'x', wire_object(r, 2)])
        elif pay == 'brace':
            # a string whose "}" is not balanced inside the text before it (first thing after the send id)
            args.insert(1, r.choice(['closing } first', 'x}y', '}', 'a{2}} b', 'tail }  ']))
        elif pay == 'struct':      # harness only: strings full of structural characters
            args[1:1] = r.sample(STRUCT_STRINGS, 4) + [{'k': 'x}y', 'fmt': '{0}} and {{1}'}]
            kwargs['pattern'] = 'a{2}}'
            kwargs['tail'] = '}' 
        ev = Event.create(name, *args, **kwargs)
        ev.channels = r.choice([(), (ch,), (ch, 'aux')])
        ev.success = r.random() < 0.5
        ev.failure = r.random() < 0.5
        ev.notify = r.random() < 0.3
        ev.note = 'meta-%d' % sid           # application metadata travels too
        sok = not ('S' in self.fw and fwk == 'sblk')
        rok = not ('R' in self.fw and fwk == 'rblk')
        pid = self.proj_id(ev)
        self.sends[sid] = {'ev': ev, 'proj': pid, 'sok': sok, 'rok': rok, 'size': size, 'pay': pay, 'fwk': fwk, 'conn': conn, 'nr': nr}
        if sok:
            self.wire2sid[(conn, self.nwire[conn])] = sid
            self.sends[sid]['wire'] = self.nwire[conn]
            self.nwire[conn] += 1
        self.log.append(line('send', sid, pid, 1 if sok else 0, 1 if rok else 0, 'nr' if nr else ''))
        st = self.streams[(conn, 1 if self.server else 0)]
        npk = len(st.packets)
        self.fire((1 + conn) if self.server else 0, conn, Event.create('gonr' if nr else 'go', ev, sid))
        for pk in st.packets[npk:]:
            pk['kind'] = 'call'
            pk['sid'] = sid
        return sid

    def step_read(self, d, k, unit='cells', conn=0):
        st = self.streams[(conn, d)]
        b0 = st.rbyte
        data = st.take_cells(k) if unit == 'cells' else st.take_bytes(k)
        if not data:
            self.notes.append('read of empty stream %d' % d)
            return False
        self.log.append(line('read', d, len(data)))
        rcv = (1 + conn) if d == 0 else 0
        out = self.streams[(conn, 1 - d)]
        npk = len(out.packets)
        self.fire(rcv, conn, self.Event.create('read', 'sock%d' % conn, data) if (self.server and rcv == 0)
                  else self.Event.create('read', data))
        self._tag_replies(conn, 1 - d, npk)
        if st.touches_hostile(b0, st.rbyte):
            self.probe(rcv, conn)
        return True

    def _tag_replies(self, conn, d, npk):
        st = self.streams[(conn, d)]
        for pk in st.packets[npk:]:
            if pk['kind'] == 'pkt':
                pk['kind'] = 'reply'
                try:
                    dd = json.loads(bytes(st.data[pk['start']:pk['end']]).decode('utf-8'))
                    pk['sid'] = self.wire2sid.get((conn, dd.get('id')), 0) if isinstance(dd.get('id'), int) else 0
                except Exception:   # noqa
                    pk['sid'] = 0

    def step_release(self, sid, v, err):
        st = self.running.get(sid)
        if st is None or st['release'] is not None:
            self.notes.append('release of sid %s: no running handler' % sid)
            return False
        conn = self.sends[sid]['conn']
        if err:
            st['release'] = ('e',)
            self.log.append(line('release', sid, 0, 1))
        else:
            st['release'] = ('v', self.make_value(sid, v))
            self.log.append(line('release', sid, v, 0))
        if self.server:
            npks = {c: len(self.streams[(c, 0)].packets) for c in range(self.nconn)}
            self.settle(0)
            for c in range(self.nconn):
                self._tag_replies(c, 0, npks[c])
            return True
        npk = len(self.streams[(conn, 1)].packets)
        self.settle(1 + conn)
        self._tag_replies(conn, 1, npk)
        return True

    def probe(self, node, conn=0):
        self.nprobe = getattr(self, 'nprobe', 0) + 1
        n = self.nprobe
        self.fire(node, conn, self.Event.create('probe', n))
        self.log.append(line('probe', min(node, 1), 1 if self.probe_seen.get((node, conn)) == n else 0))

    def step_hostile(self, cls, key, d=1, variant=0):
        data, meta, desc = hostile_packet(self, cls, key, variant)
        self.log.append(line('hostile', d, {'meta': 1, 'vmeta': 2}.get(cls, 0), 0, 0, key if cls in ('meta', 'vmeta') else cls))
        self.streams[(0, d)].append(data, 'hostile', hostile=True, big=len(data) > 4096, tag='%s:%s' % (cls, key))
        self.hostile_desc = getattr(self, 'hostile_desc', []) + [desc]

    def quiesce(self):
        for _ in range(200):
            progress = False
            for conn in range(self.nconn):
                for d in (0, 1):
                    st = self.streams[(conn, d)]
                    while st.avail_cells() > 0 or st.rbyte < len(st.data):
                        k = st.full_cells()
                        ok = self.step_read(d, k, conn=conn) if k > 0 else self.step_read(d, 4096, unit='bytes', conn=conn)
                        if not ok:
                            break
                        progress = True
            for sid in sorted(self.running):
                if self.running[sid]['release'] is None:
                    self.step_release(sid, 1, False)
                    progress = True
            if not progress:
                break
        self.probe(0)
        self.probe(1)
        self.log.append(line('quiet'))

    def run(self, script):
        for st in script:
            op = st[0]
            if op == 'S':
                self.step_send(st[1], st[2], st[3], st[4] if len(st) > 4 else 0, bool(st[5]) if len(st) > 5 else False)
            elif op == 'R':
                self.step_read(st[1], st[2], conn=st[3] if len(st) > 3 else 0)
            elif op == 'Rb':
                self.step_read(st[1], st[2], unit='bytes', conn=st[3] if len(st) > 3 else 0)
            elif op == 'P':
                self.step_release(st[1], st[2], st[3])
            elif op == 'H':
                self.step_hostile(st[1], st[2], st[3] if len(st) > 3 else 1, st[4] if len(st) > 4 else 0)
            elif op == 'Q':
                break
        self.scripted_len = len(self.log) if not (script and script[-1][0] == 'Q') else None
        self.quiesce()
        return self.log

    # -- classification of a failure (for known-finding matching) ----------
    def witness(self, clause, badline):
        w = {}
        ln = self.log[badline - 1] if 0 < badline <= len(self.log) else {}
        if clause in ('C19.lost', 'C19.result') and ln.get('k') == 'quiet':
            # mirror of the monitor's quiet check, to name the send concerned
            ex = {}
            rel = {}
            dl = {}
            for l in self.log:
                if l['k'] == 'exec':
                    ex[l['id']] = ex.get(l['id'], 0) + 1
                elif l['k'] == 'release':
                    rel[l['id']] = 2 if l['b'] else 1
                elif l['k'] == 'deliver':
                    dl[l['id']] = dl.get(l['id'], 0) + 1
            for sid in sorted(self.sends):
                s = self.sends[sid]
                if not (s['sok'] and s['rok']):
                    continue
                if clause == 'C19.lost' and not ex.get(sid):
                    st0 = self.streams[(s['conn'], 1 if self.server else 0)]
                    pks = [p for p in st0.packets if p['kind'] == 'call' and p['sid'] == sid]
                    w = {'what': 'call_not_executed', 'cut': any(st0.was_cut(p) for p in pks),
                         'pay': s['pay'], 'size': s['size'], 'written': bool(pks)}
                    break
                if clause == 'C19.result' and rel.get(sid) and not dl.get(sid) and not s.get('nr'):
                    st1 = self.streams[(s['conn'], 0 if self.server else 1)]
                    pks = [p for p in st1.packets if p['kind'] == 'reply' and p['sid'] == sid]
                    w = {'what': 'no_deliver', 'callee_raised': rel.get(sid) == 2,
                         'reply_written': bool(pks), 'cut': any(st1.was_cut(p) for p in pks)}
                    break
        elif clause == 'C19.loop_dead':
            w = {'what': ln.get('k'), 'exc': ln.get('s', ''), 'handling': self.escapes.get(badline - 1, '')}
        elif clause == 'C19.attr_overwritten':
            w = {'key': ln.get('s'), 'at': {0: 'load', 1: 'dispatch', 2: 'value-packet'}.get(ln.get('b'), '?')}
        else:
            w = {'line': ln.get('k'), 'sid': ln.get('id')}
            if ln.get('k') in ('exec', 'deliver') and ln.get('id') in self.sends:
                s = self.sends[ln['id']]
                w.update({'pay': s['pay'], 'size': s['size'], 'fwk': s['fwk']})
        w['conns'] = self.nconn
        w['server'] = self.server
        return w


class _Missing:
    def __eq__(self, other):
        return False

    def __repr__(self):
        return '<missing>'


_MISSING = _Missing()


def _same(a, b):
    try:
        return json.dumps(a, sort_keys=True) == json.dumps(b, sort_keys=True)
    except (TypeError, ValueError):
        return False


def _text(r, n):
    alphabet = 'abcdefghijklmnopqrstuvwxyz ABCDEFGHIJ 0123456789 .,;:-_'
    return ''.join(r.choices(alphabet, k=n))


def sentinel(key, variant):
    choices = ['c19!%s' % key, 7777, ['c19', key], {'c19': key}]
    return choices[variant % len(choices)]


def hostile_packet(world, cls, key, variant=0):
    """Bytes of one hostile packet (with its delimiter) of the given class.
    Returns (bytes, meta supplied (for attribute checks), description)."""
    r = world.rnd
    wid = HOSTILE_ID0 + world.nhost
    world.nhost += 1
    base = {'id': wid, 'name': 'hwork', 'args': [wid], 'kwargs': {}, 'success': False, 'failure': False,
            'channels': [], 'notify': False, 'meta': {}}
    meta = {}
    target = None
    if cls == 'trunc':
        s = json.dumps(base)
        body = s[:r.randint(2, len(s) - 1)].encode()
    elif cls == 'types':
        muts = [('name', 5), ('name', None), ('args', 5), ('args', None), ('kwargs', [1, 2]), ('kwargs', 'kw'),
                ('meta', 5), ('meta', 'm'), ('channels', 5), ('channels', None), ('id', None)]
        k, v = muts[variant % len(muts)]
        d = dict(base)
        d[k] = v
        if k == 'id':
            d['name'] = 5      # keeps the class "never dispatched"
        body = json.dumps(d).encode()
        if variant % 5 == 4:
            body = json.dumps([base, 1, 'x']).encode()
    elif cls == 'missing':
        keys = ['id', 'name', 'args', 'kwargs', 'success', 'failure', 'channels', 'notify', 'meta']
        d = dict(base)
        del d[keys[variant % len(keys)]]
        body = json.dumps(d).encode()
    elif cls == 'oversize':
        n = r.randint(70000, 900000) if getattr(world, 'huge', False) else r.randint(4200, 4400)
        body = ('{"id": %d, "name": "hwork", "args": ["' % wid + 'A' * n).encode()
    elif cls == 'delim':
        d = dict(base)
        d['args'] = [wid, 'in~~~side']
        body = json.dumps(d).encode()
    elif cls == 'chanlist':
        d = dict(base)
        d['channels'] = [[['x']], [{'a': 1}], [[]], [CH, ['y']]][variant % 4]
        body = json.dumps(d).encode()
    elif cls == 'meta':
        d = dict(base)
        meta = {key: sentinel(key, variant)}
        if key == 'cause+effects':
            meta = {'cause': sentinel('cause', variant), 'effects': [1, 2][variant % 2] if variant < 4 else [0, 'n', -3][variant % 3]}
        d['meta'] = meta
        body = json.dumps(d).encode()
    elif cls == 'vforge':
        # a value packet for the lowest id A is still waiting for (else an unknown id), with metadata
        wait = sorted(s['wire'] for s in world.sends.values() if 'wire' in s and s['conn'] == 0)
        d = {'id': wait[0] if wait and variant % 3 == 0 else 4242, 'errors': [False, True, 'x'][variant % 3],
             'value': ['FORGED', {'x': 1}, None][variant % 3],
             'meta': {k: sentinel(k, variant) for k in ('cause', 'effects', 'remote_finish', 'foo')}}
        body = json.dumps(d).encode()
    elif cls == 'vmeta':
        # an answer to the first call of connection 0 (else to an unknown id) whose metadata names `key`
        wait = sorted((s['wire'], sid) for sid, s in world.sends.items() if 'wire' in s and s['conn'] == 0)
        meta = {key: sentinel(key, variant)}
        if key == 'cause+effects':
            meta = {'cause': sentinel('cause', variant), 'effects': [1, 2][variant % 2]}
        d = {'id': wait[0][0] if wait else 4242, 'errors': False, 'value': [VMARK, wid], 'meta': meta}
        target = wait[0][1] if wait else None
        body = json.dumps(d).encode()
    elif cls == 'vtypes':
        muts = [{'id': [1], 'errors': False, 'value': 1, 'meta': {}}, {'id': 0, 'errors': False, 'value': 1, 'meta': 5},
                {'id': 0, 'value': 1, 'meta': {}}, {'value': 1}, {'id': {'a': 1}, 'errors': 0, 'value': [], 'meta': []}]
        body = json.dumps(muts[variant % len(muts)]).encode()
    elif cls == 'utf8':
        body = b'\xff\xfe{"id": 1}' if variant % 2 else b'{"id": 1, "name": "hw\xc3'
    else:
        raise ValueError('unknown hostile class %r' % cls)
    world.hostile[wid] = {'cls': cls, 'key': key, 'meta': dict(meta), 'target': target}
    return body + DELIM, meta, {'cls': cls, 'key': key, 'variant': variant, 'bytes': len(body) + 3}
