"""Virtual clock for circuits' timer machinery (C09).

Nothing in /repo is edited: the module globals

  * ``time``  in ``circuits.core.timers`` and ``circuits.core.manager``
  * ``Event`` in ``circuits.core.helpers`` (the ``threading.Event`` the
    FallBackGenerator idles on)

are replaced from outside for the duration of a ``with VClock(...)`` block and
restored afterwards.  TZ is fixed to UTC inside the block (``time.tzset``) so
that naive datetimes built with ``datetime.fromtimestamp`` round-trip through
``mktime`` exactly.

Time is an integer number of grid units; one unit is a negative power of two
seconds (0.25 s by default, 1/1024 s for the fine-grained runs), the epoch is a
whole second, so every value ``time()`` returns, every sum and every
difference the code computes is exact in binary floating point.

The virtual wait never exceeds the requested timeout: the amount granted is
what the driver's ``on_wait`` callback prescribes, clipped to the largest grid
multiple <= the request (a wait may be cut short, never overrun).  Every wait
is logged as (now, requested in units rounded *up*, granted units): for an
integer bound B, ``requested <= B`` iff ``ceil(requested) <= B``.
"""

import math
import os
import time as _time

UNIT = 0.25                   # default grid
BASE = 1700000000.0          # a whole second; ulp(BASE) = 2**-22 s << UNIT
UNTIMED_S = 10000.0           # FallBackGenerator's "untimed" wait(10000)


class VEvent:
    """Stand-in for threading.Event with a virtual wait()."""

    clock = None   # the active VClock (set by VClock.__enter__)

    def __init__(self):
        self._flag = False

    def is_set(self):
        return self._flag

    isSet = is_set

    def set(self):
        self._flag = True

    def clear(self):
        self._flag = False

    def wait(self, timeout=None):
        clk = VEvent.clock
        if clk is None:
            raise RuntimeError('virtual Event used outside a VClock block')
        return clk._wait(self, timeout)


class VClock:
    def __init__(self, start_units=0, on_wait=None, sink=None, unit=UNIT):
        if math.frexp(unit)[0] != 0.5 or unit > 1:
            raise ValueError('the grid unit must be a negative power of two seconds')
        self.unit = unit
        self.untimed = int(UNTIMED_S / unit)
        self.units = start_units
        self.sink = sink             # f(now, requested_ceil, granted): called for every wait
        self.on_wait = on_wait       # f(requested floor units, requested ceil units) -> (granted units, wake callable or None)
        self.waits = []              # (now, requested_ceil, granted)
        self._saved = None

    # -- the clock ----------------------------------------------------------
    def time(self):
        return BASE + self.units * self.unit

    def advance(self, d):
        if d < 0:
            raise ValueError('the virtual clock never goes back')
        self.units += int(d)

    def to_units(self, t):
        """Absolute float time -> grid units (must be on the grid)."""
        u = (t - BASE) / self.unit
        if u != int(u):
            raise RuntimeError('time %r is off the grid' % (t,))
        return int(u)

    def datetime_at(self, units):
        """Naive (UTC) datetime for an absolute grid time; may be fractional."""
        from datetime import datetime
        return datetime.fromtimestamp(BASE + units * self.unit)

    # -- the virtual wait ---------------------------------------------------
    def _log(self, req_ceil, granted):
        self.waits.append((self.units, req_ceil, granted))
        if self.sink is not None:
            self.sink(self.units, req_ceil, granted)

    def _wait(self, ev, timeout):
        if timeout is None:
            req_floor = req_ceil = self.untimed
        else:
            if timeout < 0:
                raise RuntimeError('negative wait %r' % (timeout,))
            q = timeout / self.unit
            req_floor = int(math.floor(q))
            req_ceil = int(math.ceil(q))
        if ev._flag:
            # a set flag makes the real wait return at once
            self._log(req_ceil, 0)
            return True
        granted, wake = 0, None
        if self.on_wait is not None:
            granted, wake = self.on_wait(req_floor, req_ceil)
            granted = int(granted)
        if granted < 0 or granted > req_floor:
            raise RuntimeError('driver granted %r for a wait of %r units' % (granted, req_floor))
        self._log(req_ceil, granted)
        self.units += granted
        if wake is not None:
            wake()      # e.g. another thread fires an event: resume() sets the flag
        return ev._flag

    # -- installation -------------------------------------------------------
    def __enter__(self):
        import circuits.core.helpers as helpers
        import circuits.core.manager as manager
        import circuits.core.timers as timers
        self._saved = (timers.time, manager.time, helpers.Event, os.environ.get('TZ'), VEvent.clock)
        timers.time = self.time
        manager.time = self.time
        helpers.Event = VEvent
        VEvent.clock = self
        os.environ['TZ'] = 'UTC'
        _time.tzset()
        return self

    def __exit__(self, *exc):
        import circuits.core.helpers as helpers
        import circuits.core.manager as manager
        import circuits.core.timers as timers
        timers.time, manager.time, helpers.Event, tz, VEvent.clock = self._saved
        if tz is None:
            os.environ.pop('TZ', None)
        else:
            os.environ['TZ'] = tz
        _time.tzset()
        self._saved = None
        return False
