"""Seeded generators of kernel programs (components, handlers, scripts) and
external histories, shared by the kernel property drivers.

Programs are acyclic by construction: event names are x0 < x1 < ..; a handler
for xi only fires xj with j > i, so every run terminates.
"""

NAMES = ['x0', 'x1', 'x2', 'x3', 'x4']
CHANS = ['a', 'b', '*']


def gen_program(rnd, o):
    """o: options dict:
      ncomp (int), shapes (list), nhandlers (lo, hi), prios (list of ranks),
      kinds: subset of {'named','catchall','global','override','instance'}
      script_ops: subset of {'fire','cancel','stop','raise','ret','addh','rmh','reg','unreg','yield','call','wait'}
      flags: list of flag bitmasks for fired events, maxfire: fires per script
      targets: event channel choices (None = default, 'a','b','*','#k')
    """
    ncomp = o.get('ncomp', 3)
    comps = {}
    for c in range(1, ncomp + 1):
        comps[str(c)] = {'chan': rnd.choice(o.get('chans', CHANS)), 'shape': rnd.choice(o.get('shapes', ['plain']))}
    names = NAMES[:o.get('nnames', 3)]
    handlers = {}
    nh = rnd.randint(*o.get('nhandlers', (2, 6)))
    kinds = o.get('kinds', ['named'])
    prios = o.get('prios', [0])
    dyn = []
    for h in range(1, nh + 1):
        c = rnd.randint(1, ncomp)
        shape = comps[str(c)]['shape']
        kind = rnd.choice(kinds)
        hd = {'comp': c, 'prio': rnd.choice(prios), 'script': {}}
        if shape == 'implicit':
            kind = 'named'
        if kind == 'named':
            hd['names'] = [rnd.choice(names)]
            if rnd.random() < 0.2 and shape != 'implicit':
                hd['names'] = sorted(set(hd['names'] + [rnd.choice(names)]))
            hd['chan'] = None
        elif kind == 'catchall':
            hd['names'] = []
            hd['chan'] = rnd.choice([None, 'a', 'b'])
        elif kind == 'global':
            hd['names'] = []
            hd['chan'] = '*'
        elif kind == 'override':
            hd['names'] = [rnd.choice(names)]
            hd['chan'] = rnd.choice(['a', 'b', '*'])
        elif kind == 'instance':
            hd['names'] = [rnd.choice(names)]
            hd['chan'] = '#%d' % rnd.randint(1, ncomp)
        if shape == 'implicit':
            # one implicit handler per (component, name)
            if any(int(x['comp']) == c and x.get('names') == hd['names'] for x in handlers.values()):
                hd['names'] = []
                hd['chan'] = None
                comps[str(c)]['shape'] = 'plain'
                for x in handlers.values():
                    pass
            hd['prio'] = 0
            hd['chan'] = None
        if shape != 'implicit' and rnd.random() < o.get('p_noevent', 0.0):
            hd['noevent'] = True
        if shape == 'plain' and rnd.random() < o.get('p_dynamic', 0.0):
            hd['live0'] = False
            dyn.append(h)
        elif shape == 'plain' and rnd.random() < o.get('p_removable', 0.0):
            dyn.append(h)
        handlers[str(h)] = hd
    # an 'implicit' component whose handlers were re-shaped must stay consistent
    for c in range(1, ncomp + 1):
        if comps[str(c)]['shape'] == 'implicit':
            mine = [hd for hd in handlers.values() if int(hd['comp']) == c]
            seen = set()
            ok = True
            for hd in mine:
                if len(hd.get('names', [])) != 1 or hd['names'][0] in seen:
                    ok = False
                seen.update(hd.get('names', []))
            if not ok:
                comps[str(c)]['shape'] = 'plain'
    # scripts
    sops = o.get('script_ops', ['ret'])
    flags = o.get('flags', [0])
    for h, hd in handlers.items():
        hnames = hd.get('names') or names
        for nm in hnames:
            if rnd.random() < o.get('p_script', 0.7):
                hd['script'][nm] = gen_script(rnd, o, nm, names, ncomp, handlers, dyn, sops, flags)
    prog = {'comps': comps, 'handlers': handlers, 'dyn': dyn}
    return prog


def gen_spec(rnd, o, names_after, ncomp, flags):
    sp = {'name': rnd.choice(names_after), 'prio': rnd.choice(o.get('eprios', [0])), 'flags': rnd.choice(flags)}
    t = rnd.choice(o.get('targets', [None]))
    if t == '#':
        t = '#%d' % rnd.randint(1, ncomp)
    sp['ch'] = t
    if t is not None and o.get('p_multichannel', 0) and rnd.random() < o['p_multichannel']:
        sp['ch2'] = rnd.choice([c for c in ['a', 'b', '*'] if c != t] or ['a'])
    _feedback_channels(rnd, o, sp, ncomp)
    if t is not None and o.get('p_preset', 0) and rnd.random() < o['p_preset']:
        sp['preset'] = True
    return sp


def _feedback_channels(rnd, o, sp, ncomp):
    """success_channels / complete_channels of an event that asks for that feedback: one channel, or two"""
    if not o.get('p_feedback_ch', 0):
        return
    for bit, key in ((1, 'success_ch'), (4, 'complete_ch')):
        if sp['flags'] & bit and rnd.random() < o['p_feedback_ch']:
            ch = [rnd.choice(['a', 'b', '*', '#%d' % rnd.randint(1, ncomp)])]
            if rnd.random() < 0.3:
                ch.append(rnd.choice([c for c in ['a', 'b'] if c not in ch]))
            sp[key] = ch


def gen_script(rnd, o, nm, names, ncomp, handlers, dyn, sops, flags):
    idx = names.index(nm) if nm in names else len(names)
    after = names[idx + 1:]
    ops = []
    nfire = 0
    gen = False
    for _ in range(rnd.randint(0, o.get('maxops_script', 3))):
        op = rnd.choice(sops)
        if op == 'fire' and after and nfire < o.get('maxfire', 2):
            ops.append(['fire', gen_spec(rnd, o, after, ncomp, flags)])
            nfire += 1
        elif op == 'cancel' and nfire:
            ops.append(['cancel_last'])
        elif op == 'stop':
            ops.append(['stop'])
        elif op == 'flush':
            ops.append(['flush'])
        elif op == 'raise':
            ops.append(['raiseb'] if rnd.random() < o.get('p_raise_base', 0.0) else ['raise'])
            break
        elif op == 'exit':
            # SystemExit / KeyboardInterrupt raised by a handler (a hand-stepped manager is not running: no stop follows)
            ops.append(rnd.choice([['exit', None], ['exit', 3], ['kbint']]))
            break
        elif op == 'ret':
            ops.append(['ret', rnd.choice([1, 2, 3, 4, 5, 6, 7, 8, 9, 1000] + o.get('more_values', []))])     # 1000: the falsy result 0
        elif op == 'addh' and dyn:
            ops.append(['addh', rnd.choice(dyn)])
        elif op == 'rmh' and dyn:
            ops.append(['rmh', rnd.choice(dyn)])
        elif op == 'yield':
            ops.append(['yield', rnd.choice([None, None, rnd.randint(1, 9), 1000] + o.get('more_values', []))])
            gen = True
        elif op in ('call', 'wait') and after:
            sp = gen_spec(rnd, o, after, ncomp, flags)
            if op == 'wait':
                if rnd.random() < 0.5:
                    ops.append(['fire', dict(sp)])
                    sp = dict(sp)
                    sp['byname'] = rnd.random() < 0.5
                elif o.get('never_waits') and [t for t in o.get('timeouts', [None]) if t is not None] and rnd.random() < 0.5:
                    # a wait by name for an event that never comes: only the timeout ends it
                    ops.append(['wait', {'name': 'never', 'prio': 0, 'flags': 0, 'ch': None, 'byname': True},
                                rnd.choice([t for t in o['timeouts'] if t is not None])])
                    gen = True
                    continue
                else:
                    continue
            tmo = rnd.choice(o.get('timeouts', [None]))
            ops.append([op, sp, tmo])
            gen = True
    # a dynamic add/remove of a handler that is not there is harmless in the universe
    return ops


def gen_history(rnd, o, prog):
    """External history for a program: structure first (optionally), then a mix."""
    ncomp = len(prog['comps'])
    hist = []
    par = {c: c for c in range(1, ncomp + 1)}
    pend = set()
    live = {int(h) for h, hd in prog['handlers'].items() if hd.get('live0', True)}

    def root(c):
        while par[c] != c:
            c = par[c]
        return c

    def subtree(c):
        return {x for x in par if _anc(par, x, c)}
    # initial forest
    if o.get('init_forest', True):
        order = list(range(2, ncomp + 1))
        rnd.shuffle(order)
        for c in order:
            if rnd.random() < o.get('p_attach', 0.8):
                cands = [p for p in range(1, ncomp + 1) if p != c and p not in subtree(c)]
                p = rnd.choice(cands)
                hist.append(['reg', c, p])
                par[c] = p
    names = NAMES[:o.get('nnames', 3)]
    if o.get('p_age', 0) and rnd.random() < o['p_age']:
        # the root has been running for a while: its sequence counter is close to 2**16 / 2**31
        hist.insert(0, ['age', 1, rnd.choice([65530, 65533, 2 ** 31 - 4])])
    hops = o.get('hist_ops', ['fire', 'flush'])
    nfired = 0
    for _ in range(rnd.randint(*o.get('histlen', (2, 6)))):
        op = rnd.choice(hops)
        if op == 'fire':
            c = rnd.randint(1, ncomp)
            sp = {'name': rnd.choice(names[:o.get('ext_names', 2)]), 'prio': rnd.choice(o.get('eprios', [0])),
                  'flags': rnd.choice(o.get('flags', [0]))}
            t = rnd.choice(o.get('targets', [None]))
            if t == '#':
                t = '#%d' % rnd.randint(1, ncomp)
            sp['ch'] = t
            if t is not None and o.get('p_multichannel', 0) and rnd.random() < o['p_multichannel']:
                sp['ch2'] = rnd.choice([x for x in ['a', 'b', '*'] if x != t] or ['a'])
            _feedback_channels(rnd, o, sp, ncomp)
            if t is not None and o.get('p_preset', 0) and rnd.random() < o['p_preset']:
                sp['preset'] = True
            hist.append(['fire', c, sp])
            nfired += 1
        elif op == 'flush':
            hist.append(['flush', rnd.randint(1, ncomp)])
        elif op == 'tick':
            hist.append(['tick', rnd.randint(1, ncomp)])
        elif op == 'cancel' and nfired:
            hist.append(['cancel', rnd.randrange(nfired)])
        elif op == 'addh' and prog['dyn']:
            hist.append(['addh', rnd.choice(prog['dyn'])])
        elif op == 'rmh' and prog['dyn']:
            hist.append(['rmh', rnd.choice(prog['dyn'])])
        elif op == 'reg':
            # preconditions of the property's quantifier: c fully detached (no unregistration
            # pending), p outside c's subtree.  Whether an earlier unregister has completed is
            # only known after the fact, so the driver re-checks at run time (see safe_history).
            c = rnd.randint(1, ncomp)
            cands = [p for p in range(1, ncomp + 1) if p != c]
            hist.append(['reg?', c, rnd.choice(cands)])
        elif op == 'unreg':
            hist.append(['unreg?', rnd.randint(1, ncomp)])
    return hist


def _anc(par, x, top):
    seen = 0
    while True:
        if x == top:
            return True
        if par[x] == x or seen > len(par):
            return False
        x = par[x]
        seen += 1
