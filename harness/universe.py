"""Scripted component forests for the kernel properties (C01, C02, C04-C08).

A *program* is data: components, handlers whose behaviour is a script, and a
history of external operations.  `Universe` builds the real circuits objects
for it, installs the tracer hook of circuits.core.manager (CIRCUITS_VERIF),
runs the history and records flat trace lines that spec/kernel/KernelTrace.tla
judges.  Every line has the same keys:

  k  kind                      e  event id            h  handler id
  c  component id              n  event name          ch channel ("a", "*", "#3" = instance of comp 3)
  p  priority rank             o  origin event id     x, y, v, f, d  small ints (meaning per kind)

Kinds (who writes them):
  api    driver: external operation n in {fire, reg, unreg, addh, rmh, flush, tick, cancel}
  fire   tracer: an event entered a queue.  e, n, ch, p (rank), c = root whose queue got it,
         o = event whose handler segment was running (0: none), h = that handler,
         f = flags (1 success, 2 failure, 4 complete, 8 notify), x = referenced event
         (parent of a feedback event / fevent of `exception`, else 0), y = kind of event:
         0 program event, 1 success, 2 failure, 3 complete, 4 done, 5 exception, 6 value_changed,
         7 registered, 8 unregistered, 9 prepare_unregister, 10 other system event;
         v, d = for registered/unregistered/prepare_unregister: component ids in args
  disp   tracer: dispatch of e begins on manager c; f = 1 if e is cancelled (it is skipped)
  dend   tracer: handler loop of e finished
  inv    handler wrapper: handler h invoked for event e; d = nesting depth before the call
  ret    handler wrapper: h returned; v = value id (0 = None), f = 0 value, 1 raised, 2 generator created
  op     handler wrapper: script operation executed inside h for e: n = op name, x/y args
  step   generator step of handler h for e begins (d = step index >= 1)
  yld    generator yielded v (0 = None) ; f = 0 plain, 1 suspended on call/wait (x = awaited event id, 0 by name)
  gend   generator finished; f = 0 normal end, 1 raised
  resume generator h of e resumed from call/wait: v = value received, f = 1 error flag, 2 timeout
  proj   projection of the real object graph after an external op: c, x = parent, y = root,
         f = 1 iff parent/child links agree for c, d = number of children
  vitem  projection of fire()'s Value for program event e: one line per stored item, v (-1 = error triple)
  vend   end of value projection: f = errors flag, d = number of items, x = 1 if stored as list
  quiet  system quiescent: v = number of pending tasks, d = total queued events, x = temporary
         handlers left in handler tables (not part of the program), f = 1 if the event budget was hit
"""

import io
import sys

from .core import use_repo

KEYS = ('k', 'e', 'h', 'c', 'n', 'ch', 'p', 'o', 'x', 'y', 'v', 'f', 'd')
SYSKIND = {'success': 1, 'failure': 2, 'complete': 3, 'done': 4, 'exception': 5, 'value_changed': 6,
           'registered': 7, 'unregistered': 8, 'prepare_unregister': 9}
FLAG_SUCCESS, FLAG_FAILURE, FLAG_COMPLETE, FLAG_NOTIFY = 1, 2, 4, 8
DEFAULT_PRIO = {-2: -7.5, -1: -1, 0: 0, 1: 0.5, 2: 2, 3: 10}


class VEvent:
    """Stand-in for threading.Event in circuits.core.helpers while a manager runs
    in the checking thread: wait() never blocks; the universe decides what an idle
    wait means (let the timeout elapse, or stop the manager from a second thread)."""
    hook = None

    def __init__(self):
        self._flag = False

    def set(self):
        self._flag = True

    def clear(self):
        self._flag = False

    def is_set(self):
        return self._flag

    def wait(self, timeout=None):
        if VEvent.hook is not None:
            VEvent.hook(self, timeout)
        return self._flag


def code_id(code):
    """exit code -> int for trace lines: None -> -1, int -> itself, anything else -> -2"""
    if code is None:
        return -1
    if isinstance(code, int) and not isinstance(code, bool) and code >= 0:
        return code
    return -2


FALSY = 1000     # script value that stands for the integer 0: a result that is not None but falsy


LISTV = 77          # script value code / value id of "the list [1, 2]": a handler result that is itself a list


class ScriptList(list):
    """the list a scripted handler returns for value code LISTV"""


def vid(x):
    """value id of a handler result for trace lines"""
    if x is None:
        return 0
    if isinstance(x, ScriptList):
        return LISTV if list(x) == [1, 2] else -3
    if isinstance(x, tuple) and len(x) == 3:
        return -1
    if isinstance(x, int) and not isinstance(x, bool):
        return FALSY if x == 0 else x
    return -2


class ScriptError(Exception):
    """Raised by a scripted handler's `raise` op."""


class ScriptBaseError(BaseException):
    """Raised by the `raiseb` op: an error that is not an Exception (like GeneratorExit or CancelledError)."""


def line(k, **kw):
    ln = {'k': k, 'e': 0, 'h': 0, 'c': 0, 'n': '', 'ch': '', 'p': 0, 'o': 0, 'x': 0, 'y': 0, 'v': 0, 'f': 0, 'd': 0}
    ln.update(kw)
    return ln


class Universe:
    def __init__(self, prog, event_budget=120):
        use_repo()
        import circuits.core.manager as mgr
        self.mgr = mgr
        self.prog = prog
        self.log = []
        self.events = []              # index eid-1 -> event object (keeps them alive)
        self.eid = {}                 # id(event) -> eid
        self.stack = []               # active handler segments: (eid, hid)
        self.dstack = []              # dispatches in progress: (id(event object), eid)
        self.comps = {}
        self.handlers = {}            # hid -> bound handler object currently known
        self.hfuncs = {}
        self.prio_map = {int(k): v for k, v in prog.get('prio_map', DEFAULT_PRIO).items()}
        self.prio_rank = {v: k for k, v in self.prio_map.items()}
        self.budget = event_budget
        self.budget_hit = False
        self.ext_events = []          # externally fired program events (for cancel ops)
        self.values = {}              # eid -> Value returned by fire()
        self.last_fired = {}          # (eid, hid) -> last event fired by that handler segment
        self.escaped = None
        self.internal_errors = []
        self.call_origin = {}
        self.current_event = None         # id(event made for call()) -> (caller event id, caller handler id)
        self._build()

    # ------------------------------------------------------------------ build
    def _build(self):
        from circuits import BaseComponent, Component, handler
        prog = self.prog
        for cid_s, cd in sorted(prog['comps'].items(), key=lambda kv: int(kv[0])):
            cid = int(cid_s)
            hs = {int(h): hd for h, hd in prog['handlers'].items() if int(hd['comp']) == cid}
            self.comps[cid] = self._make_component(cid, cd, hs, BaseComponent, Component, handler)
            self.comps[cid]._u_cid = cid

    def _make_handler_func(self, hid, hd, handler, name=None):
        uni = self
        is_gen = any(op[0] in ('yield', 'call', 'wait') for sc in hd.get('script', {}).values() for op in sc)

        if hd.get('noevent'):
            # a handler that does not take the event: it reaches it through what the dispatcher is handling
            if is_gen:
                def f(self, *args, **kwargs):
                    return uni._run_handler(hid, self, uni.current_event, True)
            else:
                def f(self, *args, **kwargs):
                    return uni._run_handler(hid, self, uni.current_event, False)
        elif is_gen:
            def f(self, event, *args, **kwargs):
                return uni._run_handler(hid, self, event, True)
        else:
            def f(self, event, *args, **kwargs):
                return uni._run_handler(hid, self, event, False)
        f.__name__ = name or ('h%d' % hid)
        kw = {'priority': self.prio_map[hd.get('prio', 0)]}
        ch = hd.get('chan')
        if ch is not None:
            kw['channel'] = ch          # '#n' instance channels are patched after construction
        if hd.get('override'):
            kw['override'] = True
        dec = handler(*hd.get('names', []), **kw)(f)
        dec._u_hid = hid
        return dec

    def _make_component(self, cid, cd, hs, BaseComponent, Component, handler):
        """shape: 'plain' (handlers added with addHandler), 'class' (decorated methods),
        'derived' (base class handlers + derived ones; same method name with
        override -> base handler not installed, without -> both installed),
        'implicit' (Component subclass: public method named like the event)."""
        shape = cd.get('shape', 'plain')
        chan = cd.get('chan', '*')
        live0 = {h: hd for h, hd in hs.items() if hd.get('live0', True)}
        for hid, hd in hs.items():
            if shape == 'plain' or not hd.get('live0', True):
                self.hfuncs[hid] = self._make_handler_func(hid, hd, handler)
        if shape == 'plain':
            comp = BaseComponent(channel=chan)
            for hid in sorted(live0):
                comp.addHandler(self.hfuncs[hid])
        elif shape == 'class':
            ns = {'channel': chan}
            for hid, hd in sorted(live0.items()):
                ns['h%d' % hid] = self._make_handler_func(hid, hd, handler)
            comp = type('C%d' % cid, (BaseComponent,), ns)()
        elif shape == 'derived':
            # handlers with 'base': True live in the base class under method name hd['meth'];
            # a derived method of the same name with override=True replaces the base handler
            # (the overridden base handler must be declared live0: False in the program)
            bns, dns = {'channel': chan}, {}
            for hid, hd in sorted(hs.items()):
                if shape == 'derived' and (hd.get('live0', True) or hd.get('base')):
                    meth = hd.get('meth', 'h%d' % hid)
                    fn = self._make_handler_func(hid, hd, handler, name=meth)
                    (bns if hd.get('base') else dns)[meth] = fn
            base = type('B%d' % cid, (BaseComponent,), bns)
            comp = type('D%d' % cid, (base,), dns)()
        elif shape == 'mixin':
            # class Sub(A, Mixin) with A(Base): handlers carry 'cls' in {'base', 'a', 'mixin', 'sub'} and 'meth';
            # per the documented rule a method that does not say override=True is an additional handler
            nss = {'base': {'channel': chan}, 'a': {}, 'mixin': {}, 'sub': {}}
            for hid, hd in sorted(hs.items()):
                meth = hd.get('meth', 'h%d' % hid)
                nss[hd.get('cls', 'sub')][meth] = self._make_handler_func(hid, hd, handler, name=meth)
            base = type('MB%d' % cid, (BaseComponent,), nss['base'])
            a = type('MA%d' % cid, (base,), nss['a'])
            mixin = type('MM%d' % cid, (object,), nss['mixin'])
            comp = type('MS%d' % cid, (a, mixin), nss['sub'])()
        elif shape == 'implicit':
            ns = {'channel': chan}
            uni = self
            # public methods explicitly marked @handler(False) must NOT become implicit handlers
            for hid, hd in sorted(hs.items()):
                if hd.get('nohandler'):
                    def mkn(hid=hid):
                        def m(self, event=None, *a, **kw):
                            return uni._run_handler(hid, self, event, False)
                        return m
                    fn = handler(False)(mkn())
                    fn.__name__ = hd['names'][0]
                    fn._u_hid = hid
                    ns[hd['names'][0]] = fn
            for hid, hd in sorted(live0.items()):
                def mk(hid=hid):
                    def m(self, event, *a, **kw):
                        return uni._run_handler(hid, self, event, False)
                    return m
                fn = mk()
                fn.__name__ = hd['names'][0]
                fn._u_hid = hid
                ns[hd['names'][0]] = fn
            comp = type('I%d' % cid, (Component,), ns)()
        else:
            raise ValueError(shape)
        self._index_handlers(comp)
        return comp

    def _index_handlers(self, comp):
        ms = set(comp._globals)
        for hs_ in comp._handlers.values():
            ms |= set(hs_)
        for m in ms:
            f = getattr(m, '__func__', m)
            hid = getattr(f, '_u_hid', None)
            if hid is not None:
                self.handlers[hid] = m
                self.hfuncs[hid] = m

    def patch_instance_channels(self):
        """handlers declared with chan '#n' listen on the instance of component n."""
        for hid_s, hd in self.prog['handlers'].items():
            ch = hd.get('chan')
            if isinstance(ch, str) and ch.startswith('#'):
                target = self.comps[int(ch[1:])]
                m = self.handlers.get(int(hid_s)) or self.hfuncs.get(int(hid_s))
                f = getattr(m, '__func__', m)
                f.channel = target

    # ----------------------------------------------------------------- tracer
    def install(self):
        import threading
        self.main_ident = threading.get_ident()
        self.mgr._verif_tracer = self._tracer
        if not getattr(self.mgr, '_VERIF', False):
            raise RuntimeError('tracer hook of circuits.core.manager is not enabled (CIRCUITS_VERIF)')

    def uninstall(self):
        self.mgr._verif_tracer = None

    def _eid(self, ev):
        k = id(ev)
        if k not in self.eid:
            self.events.append(ev)
            self.eid[k] = len(self.events)
        return self.eid[k]

    def _eid_dispatching(self, ev):
        """the id under which this event object is being dispatched (an event object that a handler fires again -
        op `refire` - gets a new id for the new firing; the dispatch in progress keeps the old one)"""
        for k, e in reversed(self.dstack):
            if k == id(ev):
                return e
        return self._eid(ev)

    def chan_str(self, ch):
        if isinstance(ch, str):
            return ch
        cid = getattr(ch, '_u_cid', None)
        if cid is not None:
            return '#%d' % cid
        return '?' + type(ch).__name__

    def _cid(self, m):
        return getattr(m, '_u_cid', 0)

    def _tracer(self, what, manager, event, channels, extra):
        if what == 'fire':
            new = id(event) not in self.eid
            if not new and getattr(event, '_u_refire', False):
                # the same event object fired again: a new firing, a new id
                event._u_refire = False
                self.events.append(event)
                self.eid[id(event)] = len(self.events)
            e = self._eid(event)
            name = event.name
            kind, ref, v, d = 0, 0, 0, 0
            if not hasattr(event, '_u_prog'):
                kind = 10
                par = getattr(event, 'parent', None)
                if par is not None and id(par) in self.eid:
                    suffix = name.rsplit('_', 1)[-1] if '_' in name else ''
                    if name.endswith('_value_changed'):
                        suffix = 'value_changed'
                    kind = SYSKIND.get(suffix, 10)
                    ref = self.eid[id(par)]
                elif name == 'exception':
                    kind = 5
                    fe = event.kwargs.get('fevent')
                    ref = self.eid.get(id(fe), 0)
                    # d = 1: the exception is not a scripted `raise` of the program but an error
                    # inside circuits itself (or the harness)
                    etype = event.args[0] if event.args else None
                    if etype is not ScriptError and etype is not ScriptBaseError:
                        d = 1
                        self.internal_errors.append(repr(event.args[1]) if len(event.args) > 1 else repr(etype))
                elif name in ('registered', 'unregistered', 'prepare_unregister'):
                    kind = SYSKIND[name]
                    a = event.args
                    v = self._cid(a[0]) if len(a) > 0 else 0
                    d = self._cid(a[1]) if len(a) > 1 else 0
            flags = (FLAG_SUCCESS if event.success else 0) | (FLAG_FAILURE if event.failure else 0) | \
                    (FLAG_COMPLETE if event.complete else 0) | (FLAG_NOTIFY if event.notify else 0)
            import threading
            # only the thread that runs the handlers can be "inside" one
            o, h = self.stack[-1] if (self.stack and threading.get_ident() == self.main_ident) else (0, 0)
            if id(event) in self.call_origin:
                # callEvent fires the event inside the manager (first step of the call generator):
                # it is fired on behalf of the handler that yielded the call
                o, h = self.call_origin[id(event)]
            self.log.append(line('fire', e=e, n=name, ch=self.chan_str(channels[0]) if channels else '',
                                 p=self.prio_rank.get(extra, 99), c=self._cid(manager), o=o, h=h, f=flags,
                                 x=ref, y=kind, v=v, d=d + (100 if len(channels) > 1 else 0)))
        elif what == 'dispatch':
            self.current_event = event
            e = self._eid(event)
            self.dstack.append((id(event), e))
            self.log.append(line('disp', e=e, c=self._cid(manager), f=1 if event.cancelled else 0, n=event.name))
        elif what == 'dispatched':
            e = self._eid_dispatching(event)
            if self.dstack and self.dstack[-1][0] == id(event):
                self.dstack.pop()
            self.log.append(line('dend', e=e, c=self._cid(manager), n=event.name,
                                 f=1 if event.stopped else 0))

    # --------------------------------------------------------------- handlers
    def _script_for(self, hid, event):
        sc = self.prog['handlers'][str(hid)].get('script', {})
        return sc.get(event.name, [])

    def _run_handler(self, hid, comp, event, is_gen):
        e = self._eid_dispatching(event)
        self.log.append(line('inv', e=e, h=hid, c=self._cid(comp), d=len(self.stack), n=event.name))
        script = self._script_for(hid, event)
        if is_gen and any(op[0] in ('yield', 'call', 'wait') for op in script):
            # run the segment before the first suspension point inside the generator's first step
            gen = self._gen(hid, comp, event, e, script)
            self.log.append(line('ret', e=e, h=hid, f=2))
            return gen
        self.stack.append((e, hid))
        try:
            try:
                v = self._exec(hid, comp, event, e, script)
            except (ScriptError, ScriptBaseError, SystemExit, KeyboardInterrupt) as exc:
                self.log.append(line('ret', e=e, h=hid, f=1, v=-1,
                                     x=1 if isinstance(exc, SystemExit) else 2 if isinstance(exc, KeyboardInterrupt) else 0))
                raise
            self.log.append(line('ret', e=e, h=hid, v=vid(v)))
            return v
        finally:
            self.stack.pop()

    def _make_event(self, spec):
        from circuits import Event
        ev = Event.create(spec['name'])
        ev._u_prog = True
        fl = spec.get('flags', 0)
        if fl & FLAG_SUCCESS:
            ev.success = True
        if fl & FLAG_FAILURE:
            ev.failure = True
        if fl & FLAG_COMPLETE:
            ev.complete = True
        if fl & FLAG_NOTIFY:
            ev.notify = True
        if 'success_ch' in spec:
            ev.success_channels = tuple(self._chan_obj(c) for c in spec['success_ch']) if isinstance(spec['success_ch'], list) \
                else (self._chan_obj(spec['success_ch']),)
        if 'complete_ch' in spec:
            ev.complete_channels = tuple(self._chan_obj(c) for c in spec['complete_ch']) if isinstance(spec['complete_ch'], list) \
                else (self._chan_obj(spec['complete_ch']),)
        return ev

    def _chan_obj(self, ch):
        if isinstance(ch, str) and ch.startswith('#'):
            return self.comps[int(ch[1:])]
        return ch

    def do_fire(self, comp, spec, ctx=None):
        if len(self.events) >= self.budget:
            self.budget_hit = True
            return None
        ev = self._make_event(spec)
        e = self._eid(ev)
        args = []
        if spec.get('ch') is not None:
            args.append(self._chan_obj(spec['ch']))
            if spec.get('ch2') is not None:          # an event fired on two channels
                args.append(self._chan_obj(spec['ch2']))
        kw = {}
        if spec.get('prio', 0) != 0 or spec.get('explicit_prio'):
            kw['priority'] = self.prio_map[spec.get('prio', 0)]
        if args and spec.get('preset'):
            # the channels are set on the event beforehand (as an Event subclass with a `channels` attribute has them)
            # and fire() is called without any
            ev.channels = tuple(args)
            args = []
        val = comp.fire(ev, *args, **kw)
        self.values[e] = val
        if ctx is not None:
            self.last_fired[ctx] = ev
        return ev

    def _exec(self, hid, comp, event, e, ops):
        """Run plain (non-suspending) script ops; return the handler's value."""
        ret = None
        for op in ops:
            o = op[0]
            if o == 'fire':
                spec = op[1]
                target = self.comps[spec['on']] if spec.get('on') else comp
                self.log.append(line('op', e=e, h=hid, n='fire'))
                self.do_fire(target, spec, ctx=(e, hid))
            elif o == 'cancel_last':
                ev = self.last_fired.get((e, hid))
                if ev is not None:
                    self.log.append(line('op', e=e, h=hid, n='cancel', x=self._eid(ev)))
                    ev.cancel()
            elif o == 'stop':
                self.log.append(line('op', e=e, h=hid, n='stop'))
                event.stop()
            elif o == 'refire':
                # the handler fires the very event object it is handling once more (forwarding it to another channel)
                self.log.append(line('op', e=e, h=hid, n='fire'))
                event._u_refire = True
                comp.fire(event, self._chan_obj(op[1]))
            elif o == 'ret':
                ret = 0 if op[1] == FALSY else ScriptList([1, 2]) if op[1] == LISTV else op[1]
            elif o == 'retv':
                # the handler's result is the Value of the event it fired last (a nested value)
                ev = self.last_fired.get((e, hid))
                ret = self.values.get(self.eid.get(id(ev), 0)) if ev is not None else None
            elif o == 'raise':
                self.log.append(line('op', e=e, h=hid, n='raise'))
                raise ScriptError('scripted failure h%d e%d' % (hid, e))
            elif o == 'raiseb':
                self.log.append(line('op', e=e, h=hid, n='raise'))
                raise ScriptBaseError('scripted non-Exception failure h%d e%d' % (hid, e))
            elif o == 'exit':
                self.log.append(line('op', e=e, h=hid, n='exit', x=code_id(op[1])))
                raise SystemExit(op[1])
            elif o == 'kbint':
                self.log.append(line('op', e=e, h=hid, n='kbint', x=-1))
                raise KeyboardInterrupt()
            elif o == 'addh':
                self.api_addh(op[1], inside=(e, hid))
            elif o == 'rmh':
                self.api_rmh(op[1], inside=(e, hid))
            elif o == 'reg':
                self.api_reg(op[1], op[2], inside=(e, hid))
            elif o == 'unreg':
                self.api_unreg(op[1], inside=(e, hid))
            elif o == 'stopmgr':
                self.log.append(line('op', e=e, h=hid, n='stopmgr', c=self._cid(comp), x=code_id(op[1] if len(op) > 1 else None)))
                comp.stop(op[1] if len(op) > 1 else None)
            elif o == 'stop2':
                # a second thread calls stop() while this handler is executing (scripted rendezvous)
                import threading
                self.log.append(line('op', e=e, h=hid, n='stop2', c=self._cid(comp.root), x=code_id(op[1] if len(op) > 1 else None)))
                t = threading.Thread(target=self._thread_stop, args=(comp.root, op[1] if len(op) > 1 else None))
                t.start()
                t.join()
            elif o == 'flush':
                self.log.append(line('op', e=e, h=hid, n='flush'))
                comp.flush()
            elif o == 'time':
                self.clock_advance(op[1])
            else:
                raise ValueError('bad op %r' % (op,))
        return ret

    def _gen(self, hid, comp, event, e, script):
        """Generator handler: segments separated by yield / call / wait ops."""
        # split the script into segments
        step = 0
        seg = []
        pending = list(script)
        uni = self

        def run_segment(seg_ops):
            uni.stack.append((e, hid))
            try:
                return uni._exec(hid, comp, event, e, seg_ops)
            finally:
                uni.stack.pop()

        while True:
            step += 1
            self.log.append(line('step', e=e, h=hid, d=step))
            seg = []
            susp = None
            while pending:
                op = pending.pop(0)
                if op[0] in ('yield', 'call', 'wait'):
                    susp = op
                    break
                seg.append(op)
            try:
                ret = run_segment(seg)
            except (ScriptError, ScriptBaseError):
                self.log.append(line('gend', e=e, h=hid, f=1))
                raise
            except (SystemExit, KeyboardInterrupt):
                self.log.append(line('gend', e=e, h=hid, f=2))
                raise
            if susp is None:
                if ret is not None:
                    # a generator delivers its final value by yielding it
                    self.log.append(line('yld', e=e, h=hid, v=vid(ret)))
                    yield ret
                    self.log.append(line('step', e=e, h=hid, d=step + 1))
                self.log.append(line('gend', e=e, h=hid))
                return
            if susp[0] == 'yield':
                yv = 0 if susp[1] == FALSY else ScriptList([1, 2]) if susp[1] == LISTV else susp[1]
                self.log.append(line('yld', e=e, h=hid, v=vid(yv)))
                yield yv
            else:
                spec = susp[1]
                kw = {}
                if len(susp) > 2 and susp[2] is not None:
                    kw['timeout'] = susp[2]
                if susp[0] == 'call':
                    ev2 = self._make_event(spec)
                    e2 = 0           # its id is assigned when call() fires it (first step of the call generator)
                    awaited = ev2
                    self.call_origin[id(ev2)] = (e, hid)
                    target = self.comps[spec['on']] if spec.get('on') else comp
                    args = [self._chan_obj(spec['ch'])] if spec.get('ch') is not None else []
                    self.log.append(line('yld', e=e, h=hid, f=1, x=e2, n='call', d=kw.get('timeout', -1)))
                    self.stack.append((e, hid))
                    try:
                        g = target.call(ev2, *args, **kw)
                        first = None
                    finally:
                        self.stack.pop()
                else:
                    # wait by name (string) or on the last event fired by this handler (object)
                    awaited = None
                    if spec.get('byname'):
                        what = spec['name']
                        e2 = 0
                    else:
                        what = self.last_fired.get((e, hid))
                        e2 = self._eid(what) if what is not None else 0
                        awaited = what
                        if what is None:
                            what = spec['name']
                    args = [self._chan_obj(spec['ch'])] if spec.get('ch') is not None else []
                    self.log.append(line('yld', e=e, h=hid, f=1, x=e2, n='wait', d=kw.get('timeout', -1)))
                    g = comp.wait(what, *args, **kw)
                try:
                    val = yield g
                except Exception as exc:  # TimeoutError thrown in by the manager
                    self.log.append(line('resume', e=e, h=hid, f=2, n=type(exc).__name__))
                    continue
                v = getattr(val, 'value', val)
                errs = bool(getattr(val, 'errors', False))
                if isinstance(v, list) and not (isinstance(v, ScriptList) and list(v) == [1, 2]):
                    rv = sum(vid(x) for x in v) * 1000 + len(v)
                else:
                    rv = vid(v)
                if awaited is not None and not isinstance(awaited, str):
                    e2 = self.eid.get(id(awaited), 0)
                self.log.append(line('resume', e=e, h=hid, v=rv, f=1 if errs else 0, x=e2))

    # -------------------------------------------------------------------- api
    def api_fire(self, cid, spec):
        self.log.append(line('api', n='fire', c=cid))
        ev = self.do_fire(self.comps[cid], spec)
        if ev is not None:
            self.ext_events.append(ev)

    def api_cancel(self, k):
        if k < len(self.ext_events):
            ev = self.ext_events[k]
            self.log.append(line('api', n='cancel', e=self._eid(ev)))
            ev.cancel()

    def api_reg(self, c, p, inside=None):
        e, h = inside or (0, 0)
        self.log.append(line('op' if inside else 'api', n='reg', c=c, x=p, e=e, h=h))
        self.comps[c].register(self.comps[p])

    def api_unreg(self, c, inside=None):
        e, h = inside or (0, 0)
        self.log.append(line('op' if inside else 'api', n='unreg', c=c, e=e, h=h))
        self.comps[c].unregister()

    def _bound(self, hid):
        m = self.handlers.get(hid)
        if m is None:
            import types
            f = self.hfuncs[hid]
            comp = self.comps[int(self.prog['handlers'][str(hid)]['comp'])]
            m = types.MethodType(getattr(f, '__func__', f), comp)
        return m

    def api_addh(self, hid, inside=None):
        e, h = inside or (0, 0)
        comp = self.comps[int(self.prog['handlers'][str(hid)]['comp'])]
        self.log.append(line('op' if inside else 'api', n='addh', x=hid, c=self._cid(comp), e=e, h=h))
        f = self.hfuncs[hid]
        m = comp.addHandler(getattr(f, '__func__', f))
        self.handlers[hid] = m

    def api_rmh(self, hid, inside=None):
        e, h = inside or (0, 0)
        comp = self.comps[int(self.prog['handlers'][str(hid)]['comp'])]
        m = self.handlers.get(hid)
        self.log.append(line('op' if inside else 'api', n='rmh', x=hid, c=self._cid(comp), e=e, h=h))
        if m is None:
            return
        comp.removeHandler(m)
        self.handlers[hid] = None

    def api_run(self, cid, idle_limit=8):
        """run() the manager in this thread.  Idle waits are virtual; after
        `idle_limit` consecutive idle iterations a second thread calls stop()."""
        import signal
        import threading
        import circuits.core.helpers as helpers
        root = self.comps[cid]
        self.log.append(line('api', n='run', c=cid))
        idle = [0]
        last_len = [len(self.log)]

        def hook(ev, timeout):
            # anything dispatched to a program handler since the last idle wait resets the count
            if any(ln['k'] in ('inv', 'step') for ln in self.log[last_len[0]:]):
                idle[0] = 0
            last_len[0] = len(self.log)
            idle[0] += 1
            self.log.append(line('idle', d=idle[0], x=-1 if timeout is None else int(timeout * 1000) if timeout < 1000 else 999999))
            if idle[0] >= idle_limit or timeout is None or timeout >= 1000:
                if root.running:
                    self.log.append(line('api', n='stop', c=cid, x=-1, y=1))
                    t = threading.Thread(target=root.stop)
                    t.start()
                    t.join()
                else:
                    ev.set()
        old_event = helpers.Event
        old_int, old_term = signal.getsignal(signal.SIGINT), signal.getsignal(signal.SIGTERM)
        helpers.Event = VEvent
        VEvent.hook = hook
        code, how = -1, 0
        try:
            try:
                root.run()
            except SystemExit as exc:
                how = 1
                code = code_id(exc.code)
        finally:
            VEvent.hook = None
            helpers.Event = old_event
            signal.signal(signal.SIGINT, old_int)
            signal.signal(signal.SIGTERM, old_term)
        self.log.append(line('runret', c=cid, x=how, v=code, d=len(root), f=1 if root.running else 0,
                             y=0 if root._executing_thread is None else 1))

    def _thread_stop(self, root, code):
        try:
            root.stop(code)
        except SystemExit:
            pass        # raised in the stopping thread, not in the loop thread

    def api_stop(self, cid, code=None):
        self.log.append(line('api', n='stop', c=cid, x=code_id(code)))
        try:
            self.comps[cid].stop(code)
        except SystemExit as exc:
            self.log.append(line('escape', n='SystemExit', x=code_id(exc.code)))

    def api_flush(self, cid):
        self.log.append(line('api', n='flush', c=cid))
        self.comps[cid].flush()

    def api_tick(self, cid):
        self.log.append(line('api', n='tick', c=cid))
        self.comps[cid].tick()

    def api_rtick(self, cid):
        """one iteration of the loop of a manager that counts as running, made by hand (what SimpleManager of the
        repository's tests does): generate_events is fired, with no time to wait"""
        root = self.comps[cid]
        self.log.append(line('api', n='tick', c=cid))
        was = root._running
        root._running = True
        try:
            root.tick(0)
        finally:
            root._running = was

    # ------------------------------------------------------------ projection
    def project_structure(self):
        for cid, comp in sorted(self.comps.items()):
            par = comp.parent
            agree = (par is comp and all(comp not in o.components for o in self.comps.values())) or \
                    (par is not comp and comp in par.components and
                     sum(1 for o in self.comps.values() if comp in o.components) == 1)
            self.log.append(line('proj', c=cid, x=self._cid(par), y=self._cid(comp.root), f=1 if agree else 0,
                                 d=len(comp.components), v=1 if getattr(comp, '_unregister_pending', False) else 0))

    def project_values(self):
        for e, val in sorted(self.values.items()):
            ev = self.events[e - 1]
            raw = val.getValue(recursive=False) if hasattr(val, 'getValue') else None
            if isinstance(raw, ScriptList) and list(raw) == [1, 2]:
                raw = (raw,)        # one result, which happens to be a list (a tuple here so that it is not taken for several)
                items = [raw[0]]
            else:
                items = raw if isinstance(raw, list) else ([] if (raw is None and not val.result) else [raw])

            for it in items:
                self.log.append(line('vitem', e=e, v=vid(it)))
            self.log.append(line('vend', e=e, f=1 if val.errors else 0, d=len(items), x=1 if isinstance(raw, list) else 0,
                                 y=1 if val.result else 0, n=ev.name))

    def roots(self):
        return sorted({self._cid(c.root) for c in self.comps.values()})

    def quiesce(self, max_iter=60, project=True):
        """tick every current root until nothing is queued and no task is pending."""
        for _ in range(max_iter):
            busy = [r for r in self.roots() if len(self.comps[r]) or self.comps[r]._tasks]
            if not busy:
                break
            r = busy[0]          # always the lowest busy root (the model's QTick does the same)
            self.log.append(line('api', n='tick', c=r))
            try:
                self.comps[r].tick()
            except (Exception, ScriptBaseError) as exc:
                self.escaped = repr(exc)
                self.log.append(line('escape', n=type(exc).__name__, x=1))
                break
        tasks = sum(len(self.comps[r]._tasks) for r in self.roots())
        queued = sum(len(self.comps[r]) for r in self.roots())
        temp = 0
        for comp in self.comps.values():
            for name, hs in comp._handlers.items():
                for m in hs:
                    f = getattr(m, '__func__', m)
                    if not hasattr(f, '_u_hid') and f.__name__ not in ('_on_prepare_unregister_complete',) \
                            and not getattr(f, '_u_implicit', False) and not self._is_class_handler(comp, f):
                        temp += 1
        if project:
            self.project_structure()
            self.project_values()
        self.log.append(line('quiet', v=tasks, d=queued, x=temp, f=1 if self.budget_hit else 0))

    def _is_class_handler(self, comp, f):
        for klass in type(comp).__mro__:
            for v in vars(klass).values():
                if v is f:
                    return True
        return False

    # -------------------------------------------------------------------- run
    def run_history(self, history):
        """Execute external ops; returns the trace lines."""
        old_err = sys.stderr
        sys.stderr = io.StringIO()
        self.install()
        try:
            self.patch_instance_channels()
            self.project_structure()
            for op in history:
                o = op[0]
                try:
                    if o == 'fire':
                        self.api_fire(op[1], op[2])
                    elif o == 'reg':
                        self.api_reg(op[1], op[2])
                    elif o == 'unreg':
                        self.api_unreg(op[1])
                    elif o == 'reg?':
                        # only within the property's quantifier: c fully detached, no
                        # unregistration pending, p outside c's subtree
                        c, p = self.comps[op[1]], self.comps[op[2]]
                        q, inside, n = p, False, 0
                        while n <= len(self.comps):
                            if q is c:
                                inside = True
                                break
                            if q.parent is q:
                                break
                            q = q.parent
                            n += 1
                        if c.parent is c and not getattr(c, '_unregister_pending', False) and not inside:
                            self.api_reg(op[1], op[2])
                    elif o == 'unreg?':
                        c = self.comps[op[1]]
                        if c.parent is not c and not getattr(c, '_unregister_pending', False):
                            self.api_unreg(op[1])
                    elif o == 'addh':
                        self.api_addh(op[1])
                    elif o == 'rmh':
                        self.api_rmh(op[1])
                    elif o == 'flush':
                        self.api_flush(op[1])
                    elif o == 'tick':
                        self.api_tick(op[1])
                    elif o == 'rtick':
                        self.api_rtick(op[1])
                    elif o == 'run':
                        self.api_run(op[1], *(op[2:3]))
                    elif o == 'stop':
                        self.api_stop(op[1], *(op[2:3]))
                    elif o == 'cancel':
                        self.api_cancel(op[1])
                    elif o == 'proj':
                        self.project_structure()
                    elif o == 'age':
                        # fast-forward: this manager has already numbered op[2] events (its queue's sequence
                        # counter is what orders equal priorities); skipped if the code has no such counter
                        q = getattr(self.comps[op[1]], '_queue', None)
                        if q is not None and hasattr(q, '_counter') and isinstance(q._counter, int):
                            q._counter = op[2]
                    else:
                        raise ValueError('bad history op %r' % (op,))
                except (ScriptError, ScriptBaseError, SystemExit, KeyboardInterrupt) as exc:
                    self.escaped = repr(exc)
                    self.log.append(line('escape', n=type(exc).__name__))
                except Exception as exc:
                    # an exception of circuits' own code left flush() / tick() / run(): it is an
                    # observation about the code under test (judged by the monitor), not a harness failure
                    self.escaped = repr(exc)
                    self.log.append(line('escape', n=type(exc).__name__, x=1))
            self.quiesce()
        finally:
            self.uninstall()
            sys.stderr = old_err
        return self.log
