SPECIFICATION Spec
CONSTANTS
  NSock = 2
  Tokens = {1, 2, 3, 4, 5}
  MaxTotal = 4
  Variants = {"code", "shared"}
INVARIANT Conforms
CHECK_DEADLOCK FALSE
