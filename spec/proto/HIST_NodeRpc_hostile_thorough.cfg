SPECIFICATION Spec
CONSTANTS
  Sizes = {"s"}
  Pays = {"plain"}
  FwKinds = {"ok"}
  FwConfigs = {"--"}
  Values = {1}
  NoResult = {FALSE}
  ErrReplies = FALSE
  HostileClasses = {"trunc", "types", "missing", "oversize", "delim", "chanlist", "vforge"}
  MetaKeys = {"cause", "effects", "cause+effects", "complete_channels", "success_channels", "value", "handler", "channels", "waitingHandlers", "cancelled", "stopped", "name", "alert_done", "success", "failure", "complete", "notify", "parent", "args", "kwargs", "child", "node_call_id", "node_sock", "foo", "_foo"}
  MaxSends = 1
  MaxHostile = 1
  MaxCuts = 1
  MaxSteps = 5
  Dev = {}
INVARIANT Conforms
CHECK_DEADLOCK FALSE
