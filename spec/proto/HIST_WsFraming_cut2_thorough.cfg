SPECIFICATION Spec
CONSTANTS
  Roles = {"server", "client"}
  MaxFrames = 1
  DataLens = {0, 1, 125, 126, 127, 65535, 65536, 70000}
  PingLens = {0, 1, 125}
  CloseLens = {0, 2}
  MaxReads = 4
  MaxWrites = 0
  WriteLens = {0}
  MaxCloses = 0
  Defects = {}
INVARIANT Conforms
CHECK_DEADLOCK FALSE
