SPECIFICATION Spec
CONSTANTS
  Sizes = {"s", "b"}
  Pays = {"plain"}
  FwKinds = {"ok"}
  FwConfigs = {"--"}
  Values = {1, 6}
  NoResult = {FALSE}
  ErrReplies = FALSE
  HostileClasses = {}
  MetaKeys = {}
  MaxSends = 2
  MaxHostile = 0
  MaxCuts = 1
  MaxSteps = 8
  Dev = {"truthyonly"}
INVARIANT TypeOK
INVARIANT Conforms
INVARIANT ExecOnce
INVARIANT Firewalled
INVARIANT LoopAlive
INVARIANT QuietDone
INVARIANT NoWaiter
VIEW View
CHECK_DEADLOCK FALSE
