------------------------------- MODULE Lines -------------------------------
(* C18, line protocol part - generative model of circuits.protocols.line.Line.

   The environment delivers `read` events: a socket s in 1..NSock and a
   non-empty segment of bytes (tokens, see LinesOps).  Every byte stream of
   total length <= MaxTotal, every cut of it into segments and every
   interleaving of the sockets' reads is a behaviour.

   The system part is shaped like the code: one buffer per socket (client
   mode: NSock = 1, Line.buffer; server mode: getBuffer(sock) /
   updateBuffer(sock, rest)), and `_on_read` does
        lines, rest = splitLines(data, buffer)   = LINESEP.split(buffer + data)
   i.e. the *incremental* split; the monitor of LinesOps compares what is
   emitted with Lines / TailOf of the *whole* stream per socket.  Conforms is
   therefore the segmentation-invariance and socket-isolation claim.

   The variant is chosen in the initial state from the constant set Variants:
   variant = "code"        the pinned algorithm.
   variant = "shared"      one buffer for all sockets (teeth: TLC must find
                           C18.cross_socket).
   variant = "persegment"  split the new segment alone and glue the buffer in
                           front of its first piece (teeth: a CR at the end of
                           one segment and the LF at the start of the next
                           leave the CR in the line).
   variant = "capbuffer"   a held rest longer than Cap bytes (Cap stands for
                           64 KiB) is thrown away: a long line arriving over
                           several reads loses its head (teeth: C18.tail, and
                           C18.lines when the terminator arrives).
   Variants are generators, never oracles.  The exhaustive configurations
   use {"code"}; the history dumps add the defective variants, and the driver
   checks that TLC's monitor flags them (bad # "") - the model has teeth.   *)
EXTENDS LinesOps, Naturals, TLC

CONSTANTS NSock,     \* number of sockets (1 = client mode)
          Tokens,    \* byte alphabet
          MaxTotal,  \* total number of bytes delivered over all sockets
          Cap,       \* the buffer cap of the "capbuffer" variant
          Variants   \* subset of {"code", "shared", "persegment", "capbuffer"}

VARIABLES variant,
          buf,    \* [1..NSock -> byte string]  the held partial line per socket
          P,      \* monitor state (LinesOps)
          bad,    \* first failed clause, "" if none
          total,  \* bytes delivered so far
          hist,   \* environment history: <<socket, segment>> per read
          out     \* every trace line emitted so far

vars == <<variant, buf, P, bad, total, hist, out>>

Emit(lines) == LET r == Run(P, lines, bad) IN P' = r[1] /\ bad' = r[2] /\ out' = out \o lines

Segs(k) == UNION {[1..n -> Tokens] : n \in 1..k}

(* the defective "persegment" splitter *)
SplitSeg(b, seg) ==
  LET r == Split(seg) IN
  IF r[1] = <<>> THEN <<<<>>, b \o r[2]>>
  ELSE <<<<b \o r[1][1]>> \o Tail(r[1]), r[2]>>

Init == /\ variant \in Variants
        /\ buf = [s \in 1..NSock |-> <<>>] /\ P = P0(NSock) /\ bad = ""
        /\ total = 0 /\ hist = <<>> /\ out = <<>>

Read(s, seg) ==
  /\ total + Len(seg) <= MaxTotal
  /\ LET key == IF variant = "shared" THEN 1 ELSE s
         r   == IF variant = "persegment" THEN SplitSeg(buf[key], seg)
                ELSE Split(buf[key] \o seg)
         keep == IF variant = "capbuffer" /\ Len(r[2]) > Cap THEN <<>> ELSE r[2]
     IN /\ buf' = [buf EXCEPT ![key] = keep]
        /\ Emit(<<Line("read", s, seg)>>
                \o [i \in 1..Len(r[1]) |-> Line("line", s, r[1][i])]
                \o <<Line("tail", s, keep)>>)
  /\ total' = total + Len(seg)
  /\ hist' = Append(hist, <<s, seg>>)
  /\ UNCHANGED variant

Next == \E s \in 1..NSock : \E seg \in Segs(MaxTotal - total) : Read(s, seg)

Spec == Init /\ [][Next]_vars

-----------------------------------------------------------------------------
TypeOK == /\ bad \in STRING /\ total \in 0..MaxTotal

(* C18 as the monitor's verdict on every behaviour *)
Conforms == variant = "code" => bad = ""

(* C18 stated directly on the state: per socket, what is held is the
   unterminated rest of everything that socket delivered, and what has been
   emitted for it is exactly the lines contained in it.                    *)
LinesOf(s) == LET sel == SelectSeq(out, LAMBDA ln : ln.k = "line" /\ ln.s = s)
              IN [i \in 1..Len(sel) |-> sel[i].d]
HeldIsTail   == variant = "code" => \A s \in 1..NSock : buf[s] = TailOf(P.inp[s])
EmittedLines == variant = "code" => \A s \in 1..NSock : LinesOf(s) = Lines(P.inp[s])

View == <<variant, buf, P, bad, total>>
=============================================================================
