SPECIFICATION Spec
CONSTANTS
  NSock = 2
  Tokens = {1, 2, 3, 4, 5}
  MaxTotal = 3
  Variants = {"code", "shared", "persegment"}
INVARIANT Conforms
CHECK_DEADLOCK FALSE
