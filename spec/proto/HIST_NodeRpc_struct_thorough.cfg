SPECIFICATION Spec
CONSTANTS
  Sizes = {"s", "b"}
  Pays = {"plain", "wirekey", "brace"}
  FwKinds = {"ok"}
  FwConfigs = {"--"}
  Values = {1, 3, 4, 6}
  NoResult = {FALSE}
  ErrReplies = FALSE
  HostileClasses = {}
  MetaKeys = {}
  MaxSends = 2
  MaxHostile = 0
  MaxCuts = 1
  MaxSteps = 7
  Dev = {}
INVARIANT Conforms
CHECK_DEADLOCK FALSE
