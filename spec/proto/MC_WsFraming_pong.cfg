SPECIFICATION Spec
CONSTANTS
  Roles = {"server", "client"}
  MaxFrames = 3
  DataLens = {0, 1, 126}
  PingLens = {0, 1}
  CloseLens = {0}
  MaxReads = 99
  MaxWrites = 0
  WriteLens = {0}
  MaxCloses = 0
  Defects = {"pong"}
INVARIANT Conforms
INVARIANT TypeOK
INVARIANT DeliveredExactly
INVARIANT PongsExactly
INVARIANT DecoderPosition
INVARIANT NothingAfterClose
VIEW View
CHECK_DEADLOCK FALSE
