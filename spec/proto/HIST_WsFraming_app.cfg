SPECIFICATION Spec
CONSTANTS
  Roles = {"server", "client"}
  MaxFrames = 2
  DataLens = {1}
  PingLens = {0}
  CloseLens = {0}
  MaxReads = 1
  MaxWrites = 1
  WriteLens = {0, 126}
  MaxCloses = 1
  Defects = {}
INVARIANT Conforms
CHECK_DEADLOCK FALSE
